#!/bin/bash
# MANIFEST.setup_cmd: build the harness variants used by the quick tier, offline, from files on disk.
set -u
cd "$(dirname "$0")"
export CARGO_NET_OFFLINE=true
python3 - <<'PY'
import sys, os
sys.path.insert(0, os.getcwd())
from orchestrator import core
bad = 0
for v in ("std-debug", "std-release", "std-release-ovf", "std-debug-wrap", "std-debug-norawfd", "std-release-native", "xen-debug", "xen-release", "miri", "miri-be", "miri-ppc64le"):
    try:
        core.build(v)
    except core.Inconclusive as e:
        print("setup: %s" % e)
        bad = 1
sys.exit(bad)
PY
