#!/bin/bash
# tools/api_audit.sh - which function names of the library does the harness never mention?
# (a coarse reachability audit: names only, tests and private helpers show up too; read the list)
cd /repo/src || exit 2
grep -rhoE "^\s*(pub )?(unsafe )?fn [a-z_0-9]+" --include=*.rs . | grep -v "fn test_\|fn check_\|fn _" | sed -E 's/.*fn //' | sort -u |
while read -r f; do
  c=$(grep -rhoE "\b$f\b" /verif/harness/src | wc -l)
  [ "$c" = "0" ] && echo -n "$f "
done
echo
