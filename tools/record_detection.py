#!/usr/bin/env python3
"""tools/record_detection.py <log> ...  - fold try_mutant.py output ('### <id>' headers followed by per-check lines) into seeded/<id>/meta.json"""
import json, re, sys
for log in sys.argv[1:]:
    cur = None
    for ln in open(log):
        ln = ln.rstrip()
        m = re.match(r"### (\S+)", ln)
        if m:
            cur = m.group(1); continue
        m = re.match(r"(C\d+) rc=(\d+) (\d+)s violations=(\d+)\s*(.*)", ln)
        if m and cur:
            p = "/verif/seeded/%s/meta.json" % cur
            meta = json.load(open(p))
            entry = {"check": "./check %s quick (against the change applied to a scratch worktree via VERIF_REPO)" % m.group(1), "exit": int(m.group(2)), "seconds": int(m.group(3)),
                     "violations": int(m.group(4)), "first_signatures": [s.strip() for s in m.group(5).split("INC:")[0].split(";") if s.strip()]}
            meta["checks_run_against_it"] = [e for e in meta["checks_run_against_it"] if e["check"] != entry["check"]] + [entry]
            json.dump(meta, open(p, "w"), indent=1)
            print(cur, m.group(1), "detected" if int(m.group(2)) == 1 else "silent")
