#!/bin/bash
# tools/verify_mutant.sh <worktree> [features]   - independent confirmation of a seeded change:
# existing tests pass with it, the demonstration fails with it and passes without it.
D=$1; F=${2:-backend-mmap,backend-bitmap,backend-atomic}
cd "$D" || exit 2
export CARGO_TARGET_DIR=$D/target CARGO_NET_OFFLINE=true
[ -f tests/demo.rs ] || cp demo.rs tests/demo.rs
git diff --quiet -- src && { echo "no source change applied"; exit 2; }
mv tests/demo.rs /tmp/demo_$$.rs
t1=$(cargo test --offline 2>&1 | grep -E "^test result" | grep -vc " 0 failed" ); e1=$(cargo test --offline 2>&1 | grep -c "^error")
t2=$(cargo test --offline --features $F 2>&1 | grep -E "^test result" | grep -vc " 0 failed"); e2=$(cargo test --offline --features $F 2>&1 | grep -c "^error")
mv /tmp/demo_$$.rs tests/demo.rs
cargo test --offline --features $F --test demo > /tmp/vm_with_$$.log 2>&1; with=$?
# (git stash is shared between worktrees: use a saved diff instead)
git diff -- src > /tmp/vm_patch_$$.diff
git apply -R /tmp/vm_patch_$$.diff
cargo test --offline --features $F --test demo > /tmp/vm_without_$$.log 2>&1; without=$?
git apply /tmp/vm_patch_$$.diff; rm -f /tmp/vm_patch_$$.diff
echo "existing-tests-default: failing_suites=$t1 errors=$e1 | existing-tests-features: failing_suites=$t2 errors=$e2 | demo with change rc=$with (want !=0) | demo without change rc=$without (want 0)"
grep -E "panicked|assertion|error" /tmp/vm_with_$$.log | head -3
rm -f /tmp/vm_with_$$.log /tmp/vm_without_$$.log
