#!/bin/bash
# tools/coverage.sh [std|xen]  - which lines of the library does the quick-tier workload of all
# monitors never execute? (development aid: a change in a line no monitor reaches cannot be seen)
# Builds the harness with -Cinstrument-coverage (nightly, own target dir), runs every monitor with
# quick-tier-like arguments, merges the profiles and prints the uncovered source lines of /repo/src.
set -e
MODE=${1:-std}
BIN=/root/.rustup/toolchains/nightly-x86_64-unknown-linux-gnu/lib/rustlib/x86_64-unknown-linux-gnu/bin
TD=/verif/.build/cov-$MODE
FEAT=interpose; [ "$MODE" = xen ] && FEAT=interpose,xen
cd /verif/harness
LLVM_PROFILE_FILE=$TD/build-%p.profraw RUSTFLAGS="--cfg vm_memory_verif -Cinstrument-coverage" cargo +nightly build --offline --features $FEAT --target-dir $TD 2>&1 | tail -1
rm -rf $TD/prof; mkdir -p $TD/prof
run() { LLVM_PROFILE_FILE=$TD/prof/%p-%m.profraw timeout 900 $TD/debug/vmv "$@" > /dev/null 2>&1 || true; }
if [ "$MODE" = std ]; then
  run c01 cases=400; run c02 cases=40 width=10 maxsize=3; run c03 cases=300; run c04 cases=150; run c05 cases=400; run c06 tear=2000
  run c07 cases=40; run c08 mode=dfs programs=30; run c08 mode=sample cases=300; run c08 mode=free iters=300; run c09 cases=300; run c10 cases=300
  run c11 mode=all cases=300 rounds=5; run c12 cases=100; run c13 cases=300; run c14 maxlen=2 cases=300; run c15; run c17 cases=30; run c18 cases=10; run c19 random=20000; run c20 tier=quick random32=20000 random64=20000
else
  run c01 cases=200; run c03 cases=200; run c04 cases=100; run c05 cases=300; run c07 cases=20; run c12 cases=60; run c15; run c17 cases=120; run c18 cases=10
fi
$BIN/llvm-profdata merge -sparse $TD/prof/*.profraw -o $TD/merged.profdata
$BIN/llvm-cov report $TD/debug/vmv -instr-profile=$TD/merged.profdata $(find /repo/src -name '*.rs') 2>/dev/null | grep -E "^/repo|^Filename|^TOTAL" | sed 's#/repo/src/##' | awk '{printf "%-34s regions %5s missed %5s  lines %5s missed %5s\n", $1, $2, $3, $8, $9}'
$BIN/llvm-cov show $TD/debug/vmv -instr-profile=$TD/merged.profdata $(find /repo/src -name '*.rs') -show-line-counts-or-regions=false 2>/dev/null > $TD/show.txt
echo "annotated source: $TD/show.txt (lines with count 0 are unreached)"
