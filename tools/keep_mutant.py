#!/usr/bin/env python3
"""tools/keep_mutant.py <prop> <n> <worktree> <confirm-line>  - store a confirmed seeded change under /verif/seeded/<prop>-<n>/"""
import json, os, shutil, subprocess, sys
prop, n, wt, confirm = sys.argv[1:5]
d = "/verif/seeded/%s-%s" % (prop, n)
os.makedirs(d, exist_ok=True)
diff = subprocess.run(["git", "-C", wt, "diff", "--", "src"], capture_output=True, text=True).stdout
open(os.path.join(d, "patch.diff"), "w").write(diff)
shutil.copy(os.path.join(wt, "tests/demo.rs") if os.path.exists(os.path.join(wt, "tests/demo.rs")) else os.path.join(wt, "demo.rs"), os.path.join(d, "demo.rs"))
meta_txt = open(os.path.join(wt, "meta.txt")).read() if os.path.exists(os.path.join(wt, "meta.txt")) else ""
meta = {"property": prop, "source": "independent sub-agent (saw only the property text and a scratch worktree)",
        "what_it_changes_and_needs_to_manifest": meta_txt.strip(),
        "confirmed_by_me": {"how": "tools/verify_mutant.sh in the scratch worktree: existing tests (default features and backend-mmap,backend-bitmap,backend-atomic) with the change; demo as tests/demo.rs with and without the change", "result": confirm},
        "checks_run_against_it": []}
json.dump(meta, open(os.path.join(d, "meta.json"), "w"), indent=1)
print("kept", d, "diff lines", len(diff.splitlines()))
