#!/usr/bin/env python3
"""tools/record_round.py <round> <before|after> <logdir>
Reads <logdir>/try<round>_<phase>_<Cxx-round>.log (the lines printed by tools/try_mutant.py) and
writes them into seeded/<Cxx-round>/meta.json as checks_run_against_it entries (replacing earlier
entries of the same phase)."""
import json, re, sys, glob, os
rnd, phase, logdir = sys.argv[1], sys.argv[2], sys.argv[3]
mach = {"before": "harness as committed before round %s (frozen copy)" % rnd,
        "after": "harness as strengthened after round %s (frozen copy)" % rnd}[phase]
for f in sorted(glob.glob("%s/try%s_%s_C*-%s.log" % (logdir, rnd, phase, rnd))):
    pid = re.search(r"_(C\d\d-\d+)\.log$", f).group(1)
    mp = "/verif/seeded/%s/meta.json" % pid
    m = json.load(open(mp))
    keep = [c for c in m.get("checks_run_against_it", []) if c.get("machinery") != mach]
    for line in open(f):
        mm = re.match(r"(C\d\d) rc=(\d+) (\d+)s violations=(\d+) (.*)$", line.rstrip("\n"))
        if not mm:
            continue
        rest = mm.group(5)
        note = None
        if "INC: " in rest:
            rest, note = rest.split("INC: ", 1)
        sigs = [s.strip() for s in rest.split("; ") if s.strip()]
        e = {"check": "./check %s quick (change applied to a scratch worktree, VERIF_REPO)" % mm.group(1), "machinery": mach,
             "exit": int(mm.group(2)), "seconds": int(mm.group(3)), "violations": int(mm.group(4)), "first_signatures": sigs}
        if note:
            e["note"] = note.strip()
        keep.append(e)
    m["checks_run_against_it"] = keep
    json.dump(m, open(mp, "w"), indent=1)
    print(pid, [(c["check"][8:11], c["exit"]) for c in keep])
