#!/usr/bin/env python3
"""Generate /verif/MANIFEST.json from orchestrator/plans.py (META) so that the two never drift."""
import json
import os
import subprocess
import sys

ROOT = os.path.dirname(os.path.dirname(os.path.abspath(__file__)))
sys.path.insert(0, ROOT)
from orchestrator import plans  # noqa: E402

props = [json.loads(l) for l in open(os.path.join(ROOT, "properties.jsonl"))]
hook_commits = subprocess.run(["git", "-C", "/repo", "log", "--format=%H %s"], capture_output=True, text=True).stdout.splitlines()
hook_commits = [l.split()[0] for l in hook_commits if "verif hooks:" in l]
hook_commits.reverse()

checks = []
na = []
for p in props:
    pid = p["id"]
    if pid in plans.PLANS:
        m = plans.META[pid]
        checks.append({
            "property_id": pid,
            "quick_cmd": "./check %s quick" % pid,
            "thorough_cmd": "./check %s thorough" % pid,
            "evidence_file": "/verif/evidence/%s.json" % pid,
            "replay_cmd_template": "./check %s --replay {path}" % pid,
            "engine": "vmv-runtime-monitors",
            "level_claimed": {"category": m["level"], "text": m["level_text"], "design_ref": m.get("design_ref", "DESIGN.md §7")},
            "level_note": m["level_note"],
            "technique": m["technique"],
        })
    else:
        na.append({"property_id": pid, "reason": plans.NOT_CLAIMED.get(pid, "monitor not built yet (work in progress; see DESIGN.md §7)")})

manifest = {
    "version": 1,
    "setup_cmd": "./setup.sh",
    "hooks": {
        "guard": "--cfg vm_memory_verif",
        "enable": "RUSTFLAGS=\"--cfg vm_memory_verif\" (set by ./check for every harness build variant; the harness crate depends on /repo by path, so every check rebuilds vm-memory from the current working tree)",
        "baseline_off_cmd": "./baseline_off.sh",
        "source_commits": hook_commits,
        "add_only": False,
    },
    "engines": [{
        "name": "vmv-runtime-monitors",
        "path": "/verif/harness",
        "serves_properties": [c["property_id"] for c in checks],
        "kind_free_text": "Rust harness crate (reference-model / frame / event-log monitors, controlled scheduler, syscall interposer, Xen grant-device emulator) run natively in debug+release, under Miri, ASan, TSan and valgrind by the python orchestrator /verif/check",
    }],
    "checks": checks,
    "not_applicable": na,
    "notes": "Exit codes of ./check: 0 held on everything explored (KNOWN-FINDING lines possible), 1 VIOLATION with replay file, 2 inconclusive (never printed as VIOLATION). hooks.add_only is false only because one existing `use` line in atomic_bitmap.rs had to be split so that the cfg-guarded AtomicU64 shim can take its name; everything else is additive.",
}
with open(os.path.join(ROOT, "MANIFEST.json"), "w") as f:
    json.dump(manifest, f, indent=1)
    f.write("\n")
print("wrote MANIFEST.json: %d checks, %d not_applicable" % (len(checks), len(na)))
