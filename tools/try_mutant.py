#!/usr/bin/env python3
"""tools/try_mutant.py <patch.diff> <prop> [<prop>...] [--tier quick|thorough]
Apply a seeded change to /repo, run the named checks, undo the change. Prints one line per check."""
import subprocess, sys, os, time
args = sys.argv[1:]
tier = "quick"
if "--tier" in args:
    i = args.index("--tier"); tier = args[i + 1]; del args[i:i + 2]
patch, props = args[0], args[1:]
st = subprocess.run(["git", "-C", "/repo", "status", "--porcelain"], capture_output=True, text=True).stdout.strip()
if st:
    print("refusing: /repo working tree not clean:\n" + st); sys.exit(2)
r = subprocess.run(["git", "-C", "/repo", "apply", "--whitespace=nowarn", patch], capture_output=True, text=True)
if r.returncode != 0:
    print("patch does not apply: " + r.stderr); sys.exit(2)
try:
    for p in props:
        t0 = time.time()
        c = subprocess.run(["./check", p, tier], cwd="/verif", capture_output=True, text=True)
        sigs = [l.strip() for l in c.stdout.splitlines() if l.strip().startswith("signature:")]
        inc = [l for l in c.stdout.splitlines() if l.startswith("INCONCLUSIVE")]
        print("%s rc=%d %.0fs violations=%d %s %s" % (p, c.returncode, time.time() - t0, len(sigs), "; ".join(s[11:90] for s in sigs[:3]), ("INC: " + inc[0][:160]) if inc else ""))
        sys.stdout.flush()
finally:
    subprocess.run(["git", "-C", "/repo", "checkout", "--", "."])
    subprocess.run(["git", "-C", "/repo", "clean", "-fdq", "src", "tests"])
