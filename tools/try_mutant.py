#!/usr/bin/env python3
"""tools/try_mutant.py [--alt] <patch.diff> <prop> [<prop>...] [--tier quick|thorough]
Apply a seeded change, run the named checks, undo the change. Prints one line per check.
Default: applies to /repo itself (git -C /repo apply ... / git -C /repo checkout -- .).
--alt: applies to the scratch worktree /tmp/altrepo (created on demand from /repo's HEAD) and runs
the checks with VERIF_REPO=/tmp/altrepo, so that /repo and /verif/evidence stay untouched."""
import subprocess, sys, os, time
args = sys.argv[1:]
tier = "quick"
alt = False
if "--alt" in args:
    args.remove("--alt"); alt = True
if "--tier" in args:
    i = args.index("--tier"); tier = args[i + 1]; del args[i:i + 2]
patch, props = args[0], args[1:]
repo = "/repo"
env = dict(os.environ)
if alt:
    repo = "/tmp/altrepo"
    if not os.path.isdir(repo):
        subprocess.run(["git", "-C", "/repo", "worktree", "add", "--detach", repo, "HEAD", "-q"], check=True)
    head = subprocess.run(["git", "-C", "/repo", "rev-parse", "HEAD"], capture_output=True, text=True).stdout.strip()
    subprocess.run(["git", "-C", repo, "checkout", "-q", "--detach", head], check=True)
    env["VERIF_REPO"] = repo
st = subprocess.run(["git", "-C", repo, "status", "--porcelain"], capture_output=True, text=True).stdout.strip()
if st:
    print("refusing: %s working tree not clean:\n%s" % (repo, st)); sys.exit(2)
r = subprocess.run(["git", "-C", repo, "apply", "--whitespace=nowarn", patch], capture_output=True, text=True)
if r.returncode != 0:
    print("patch does not apply: " + r.stderr); sys.exit(2)
try:
    for p in props:
        t0 = time.time()
        c = subprocess.run(["./check", p, tier], cwd="/verif", capture_output=True, text=True, env=env)
        sigs = [l.strip() for l in c.stdout.splitlines() if l.strip().startswith("signature:")]
        inc = [l for l in c.stdout.splitlines() if l.startswith("INCONCLUSIVE")]
        print("%s rc=%d %.0fs violations=%d %s %s" % (p, c.returncode, time.time() - t0, len(sigs), "; ".join(s[11:100] for s in sigs[:3]), ("INC: " + inc[0][:200]) if inc else ""))
        sys.stdout.flush()
finally:
    subprocess.run(["git", "-C", repo, "checkout", "--", "."])
    subprocess.run(["git", "-C", repo, "clean", "-fdq", "src", "tests"])
