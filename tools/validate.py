#!/opt/veriftools/pyvenv/bin/python
import json, sys, glob, jsonschema
jsonschema.validate(json.load(open('/verif/MANIFEST.json')), json.load(open('/root/.vp/MANIFEST.schema.json')))
sch = json.load(open('/root/.vp/EVIDENCE.schema.json'))
for p in sorted(glob.glob('/verif/evidence/C*.json')):
    jsonschema.validate(json.load(open(p)), sch)
    print('valid', p)
print('manifest valid')
