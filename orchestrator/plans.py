"""Per-property plans: which monitors run in which build variant at which tier, the coverage rule
text, the claimed level and the assumptions. MANIFEST.json is generated from META (tools/gen_manifest.py)."""
from .core import Run

META = {}
PLANS = {}
FLOORS = {}


def prop(pid, **kw):
    META[pid] = kw


def plan(pid):
    def deco(f):
        PLANS[pid] = f
        return f
    return deco


def shards(variant, monitor, n, args, **kw):
    return [Run(variant, monitor, args + ["shard=%d/%d" % (i, n)], **kw) for i in range(n)]


# ----------------------------------------------------------------------------------------------
prop("C19", level="exploration",
     title="Address arithmetic reports overflow instead of wrapping",
     technique="reference-model monitor: every checked/overflowing/align/bit/order operation of GuestAddress and MemoryRegionAddress compared with exact 128-bit arithmetic over an enumerated boundary cross product plus random 64-bit operands, in overflow-checked and unchecked builds",
     rule="cases = (address type, operation, a, b) with a,b from the complete cross product of {0..16, 2^32+-16, 2^63+-16, 2^64-16..2^64-1} (99x99 pairs x 2 types), all 64 power-of-two alignments for each operand, plus seeded random 64-bit pairs (uniform, near-equal, near-complement, shifted); distinct key = (type, operation, boundary class of a, boundary class of b, outcome some/none/fit/wrap) and for align (type, class of a, k, outcome); all keys are non-trivial (each involves a boundary class or an outcome class)",
     exhaustive_note="the 99x99 boundary cross product and all 64 alignments per operand are enumerated completely; the 64-bit space itself is sampled",
     assumptions=["u128/i128 arithmetic of rustc is the trusted oracle", "unchecked_* helpers are only judged where the exact result fits (documented to follow Rust overflow behaviour otherwise)"],
     level_text="Runtime oracle over an exhaustively enumerated boundary grid plus ~10^6 (quick) / 10^8 (thorough) random operand pairs in two build profiles; held-on-observed, not a proof over all 2^128 pairs.",
     level_note="Trusts rustc's 128-bit integer arithmetic and the harness generators; the unchecked_* forms are judged only when the exact result fits.",
     design_ref="DESIGN.md §7 C19")


@plan("C19")
def plan_c19(tier, seed):
    n = 1_000_000 if tier == "quick" else 40_000_000
    runs = []
    for v in ("std-debug", "std-release"):
        if tier == "quick":
            runs.append(Run(v, "c19", ["seed=%d" % seed, "random=%d" % n], timeout=300))
        else:
            for i in range(8):
                runs.append(Run(v, "c19", ["seed=%d" % (seed * 1000 + i), "random=%d" % (n // 8)], timeout=1200))
    return runs


FLOORS["C19"] = {"evaluations": 500_000, "distinct_nontrivial": 500}

# ----------------------------------------------------------------------------------------------
prop("C20", level="exploration",
     title="Endian-tagged integers keep their declared byte order for every value",
     technique="reference-model monitor: wrapper conversions, in-memory bytes, equality and guest-memory wire format compared with std to_le_bytes/to_be_bytes; 16-bit types exhaustive, 32-bit exhaustive in the thorough tier, 64-bit structured + random",
     rule="cases = (wrapper, value, comparison partner) ; 16-bit wrappers: all 2^16 values x 5 partners (exhaustive); 32-bit: 2^24 structured + random (quick) / all 2^32 (thorough); 64-bit/size: every value with <=2 distinct byte values for 8 byte pairs, walking ones/zeros, byte position markers, palindromes + seeded random; memory-level write_obj/read_obj checks at unaligned offsets in a VolatileSlice and a GuestMemoryMmap; distinct key = (width, value pattern class / high byte / byte value at position, symmetric-under-byteswap?) - a key is non-trivial because each names a byte pattern whose byte order is observable",
     exhaustive_note="Le16/Be16: all 65536 values in every tier; Le32/Be32: all 2^32 values in the thorough tier",
     assumptions=["std's to_le_bytes/to_be_bytes define the wire format", "host is little-endian x86-64 (the big-endian host half of 'regardless of the host' cannot be executed here)"],
     level_text="Exhaustive for the 16-bit wrappers, exhaustive for the 32-bit wrappers in the thorough tier, structured+random sampling for 64-bit and pointer-sized wrappers; held-on-observed.",
     level_note="Oracle is std's byte-order conversion on this little-endian host; a big-endian host cannot be run in this sandbox.",
     design_ref="DESIGN.md §7 C20")


@plan("C20")
def plan_c20(tier, seed):
    if tier == "quick":
        return [Run("std-release", "c20", ["seed=%d" % seed, "tier=quick"], timeout=300),
                Run("std-debug", "c20", ["seed=%d" % seed, "tier=quick", "random32=200000", "random64=300000"], timeout=300)]
    return [Run("std-release", "c20", ["seed=%d" % seed, "tier=thorough"], timeout=3000),
            Run("std-debug", "c20", ["seed=%d" % seed, "tier=quick"], timeout=900)]


FLOORS["C20"] = {"evaluations": 10_000_000, "distinct_nontrivial": 1000}

# ----------------------------------------------------------------------------------------------
prop("C02", level="exploration",
     title="Guest address queries answer exactly according to the set of mapped regions",
     technique="reference-model monitor: every address query of GuestMemoryMmap and of a second trait implementation (MockMemory, default methods only) compared with an interval-set model; small universe enumerated completely, large layouts boundary-sampled; Miri pass in the thorough tier",
     rule="cases = (backend, layout, query, address, length). Exhaustive part: all layouts of 1..3 regions with sizes 1..4 inside [0,14) (8430 layouts) x 3 translations (at 0, ending at 2^64-2, ending at 2^64-1 [mock only]) x every address of the universe +-1 plus the opposite extreme x every length 0..16 plus usize::MAX, usize::MAX-1, 2^63. Random part: <=8 regions, sizes 1 B..1 MiB, holes 0 B..2^61, addresses at region edges +-2 and extremes, lengths from the boundary generator. distinct key = (backend, query, answer class, position of the address relative to the nearest region edge, length-vs-run class, layout shape); non-trivial = the address is at/next to a region edge or in a hole (keys for addresses strictly inside/above/below everything are counted separately as trivial)",
     exhaustive_note="all 1..3-region layouts with region sizes 1..4 in a 14-byte universe, at three translations, all addresses and lengths of that universe",
     assumptions=["the interval-set model (models/layout.rs, 60 lines) is the specification", "check_range(b,0) and get_slice(a,0) at an unmapped address are recorded but not judged (vacuous for an empty range)", "mmap-backed regions in this monitor are build_raw views of a PROT_NONE reservation: only pointers are compared, bytes are never touched"],
     level_text="Complete enumeration of a small universe plus boundary-biased sampling of large layouts, with a model oracle on every answer; held-on-observed for the layouts/addresses actually queried.",
     level_note="Trusts the 60-line interval model and the MockMemory backend's required methods (find_region linear scan, get_slice bounds check).",
     design_ref="DESIGN.md §7 C02")


@plan("C02")
def plan_c02(tier, seed):
    if tier == "quick":
        return shards("std-debug", "c02", 16, ["seed=%d" % seed, "cases=320"], timeout=600)
    runs = shards("std-debug", "c02", 16, ["seed=%d" % seed, "cases=20000", "width=16", "maxsize=5"], timeout=3000)
    runs += shards("std-release", "c02", 8, ["seed=%d" % (seed + 77), "cases=20000", "noexh"], timeout=3000)
    runs += shards("miri", "c02", 8, ["seed=%d" % seed, "cases=16", "width=7", "maxsize=3", "addrs=12"], timeout=3000)
    return runs


FLOORS["C02"] = {"judged_queries": 2_000_000, "distinct_nontrivial": 2000}

# ----------------------------------------------------------------------------------------------
prop("C09", level="exploration",
     title="The page bitmap behaves as a set of page numbers under every operation sequence",
     technique="reference-model monitor: AtomicBitmap (plus RefSlice/ArcSlice views, Option and unit bitmaps) stepped against a BTreeSet model with a full read-out of every observable after every operation; single operations enumerated completely on a small space, random operation sequences beyond; Miri pass in the thorough tier",
     rule="cases = operation sequences on (byte_size, page_size). Exhaustive part: byte_size 0..20 x page in {1,2,3} x 4 structured initial states x every single operation with (start,len) in 0..22 x 0..22 (set/reset range), every bit index 0..22 (set/reset bit), get_and_reset, reset, clone. Random part: sizes {0,1,p-1,p,p+1,63p..65p,127p..129p,<=10^4}, pages {1,2,3,5,7,64,100,128,4096,>size}, 30..300 operations incl. enlarge, clone, nested slice_at views (RefSlice and ArcSlice) with wrapping offsets, ranges near usize::MAX. After every step: is_bit_set for 0..pages+130, is_addr_set/dirty_at at every page start/end and extremes, len, byte_size, clone().get_and_reset() words, clone independence. distinct key = (operation, page-size class, page-count class, range class, enlarge/clone depth); all keys non-trivial",
     exhaustive_note="every single range/bit operation with arguments <= 22 from 4 structured states for byte_size <= 20 and page size 1..3",
     assumptions=["BTreeSet model in mon_c09.rs is the specification (ranges running past usize::MAX saturate)"],
     level_text="Model-based runtime oracle with full read-out after every step over an exhaustively enumerated small space and thousands of random sequences; held-on-observed.",
     level_note="Trusts the BTreeSet model; sequential executions only (concurrency is C08).",
     design_ref="DESIGN.md §7 C09")


@plan("C09")
def plan_c09(tier, seed):
    if tier == "quick":
        runs = shards("std-debug", "c09", 8, ["seed=%d" % seed, "cases=2400", "noexh"], timeout=600)
        runs.append(Run("std-release", "c09", ["seed=%d" % seed, "cases=0"], timeout=600))
        return runs
    runs = shards("std-debug", "c09", 16, ["seed=%d" % seed, "cases=200000", "noexh"], timeout=3400)
    runs.append(Run("std-release", "c09", ["seed=%d" % seed, "cases=0", "xbs=40"], timeout=3000))
    runs += shards("miri", "c09", 8, ["seed=%d" % seed, "cases=48", "noexh", "maxops=40"], timeout=3000)
    return runs


FLOORS["C09"] = {"exhaustive_single_ops": 200_000, "distinct_nontrivial": 800}

# ----------------------------------------------------------------------------------------------
prop("C10", level="exploration",
     title="Adding or removing a region yields a new valid map and leaves the old one intact",
     technique="history monitor with a list model: from_arc_regions / insert_region / remove_region / clone / writes through shared regions; every map and region handle ever produced is kept alive and re-listed and fully re-read (library path and raw pointer) after every step; complete pairwise boundary grid; Miri pass in the thorough tier",
     rule="cases = histories of 10..60 steps (insert with adjacency classes free/adjacent/gap-1/overlap-1/overlap-n/equal-start relative to an existing region, remove with exact/size+-1/start+-1/last-byte/absent arguments, construction from shuffled/duplicated/empty lists of shared Arcs, clone, write through a shared region, drop of maps and handles) from random starting layouts incl. 1-byte regions and regions next to 2^64. Grid part (enumerated completely): region lengths {1,2,7,4096}^2 x distance prev-end..next-start in {-2..2} x both list orders for construction and both insertion directions; GuestRegionMmap::new with base+size in 2^64-2..2^64+2. distinct key = (step kind, outcome/error variant, adjacency class, maps-alive bucket); all non-trivial",
     exhaustive_note="pairwise boundary grid (4x4 lengths x 5 distances x 2 orders / 2 directions) and the base+size bound at 2^64",
     assumptions=["list model in mon_c10.rs is the specification", "when a construction list is both unsorted and overlapping either error variant is accepted", "base+size == 2^64 is recorded, not judged"],
     level_text="Model-based history monitor with frame checks over all live maps after every step; held-on-observed.",
     level_note="Trusts the list model; byte patterns are unique per region id so that a wrong region is observable.",
     design_ref="DESIGN.md §7 C10")


@plan("C10")
def plan_c10(tier, seed):
    if tier == "quick":
        return shards("std-debug", "c10", 8, ["seed=%d" % seed, "cases=16000"], timeout=600)
    runs = shards("std-debug", "c10", 16, ["seed=%d" % seed, "cases=400000"], timeout=3400)
    runs += shards("miri", "c10", 8, ["seed=%d" % seed, "cases=40", "maxsteps=25"], timeout=3000)
    return runs


FLOORS["C10"] = {"evaluations": 100_000, "distinct_nontrivial": 80}

# properties that are (currently) not claimed, with the reason recorded in MANIFEST.json
NOT_CLAIMED = {}
