"""Per-property plans: which monitors run in which build variant at which tier, the coverage rule
text, the claimed level and the assumptions. MANIFEST.json is generated from META (tools/gen_manifest.py)."""
from .core import Run

META = {}
PLANS = {}
FLOORS = {}


def prop(pid, **kw):
    META[pid] = kw


def plan(pid):
    def deco(f):
        PLANS[pid] = f
        return f
    return deco


def shards(variant, monitor, n, args, **kw):
    return [Run(variant, monitor, args + ["shard=%d/%d" % (i, n)], **kw) for i in range(n)]


# ----------------------------------------------------------------------------------------------
prop("C19", level="exploration",
     title="Address arithmetic reports overflow instead of wrapping",
     technique="reference-model monitor: every checked/overflowing/align/bit/order operation of GuestAddress and MemoryRegionAddress compared with exact 128-bit arithmetic over an enumerated boundary cross product plus random 64-bit operands, in overflow-checked and unchecked builds",
     rule="cases = (address type, operation, a, b) with a,b from the complete cross product of {0..16, 2^32+-16, 2^63+-16, 2^64-16..2^64-1} (99x99 pairs x 2 types), all 64 power-of-two alignments for each operand, plus seeded random 64-bit pairs (uniform, near-equal, near-complement, shifted); distinct key = (type, operation, boundary class of a, boundary class of b, outcome some/none/fit/wrap) and for align (type, class of a, k, outcome); all keys are non-trivial (each involves a boundary class or an outcome class)",
     exhaustive_note="the 99x99 boundary cross product and all 64 alignments per operand are enumerated completely; the 64-bit space itself is sampled",
     assumptions=["u128/i128 arithmetic of rustc is the trusted oracle", "unchecked_* helpers are only judged where the exact result fits (documented to follow Rust overflow behaviour otherwise)"],
     level_text="Runtime oracle over an exhaustively enumerated boundary grid plus ~10^6 (quick) / 10^8 (thorough) random operand pairs in two build profiles; held-on-observed, not a proof over all 2^128 pairs.",
     level_note="Trusts rustc's 128-bit integer arithmetic and the harness generators; the unchecked_* forms are judged only when the exact result fits.",
     design_ref="DESIGN.md §7 C19")


@plan("C19")
def plan_c19(tier, seed):
    n = 1_000_000 if tier == "quick" else 40_000_000
    runs = []
    for v in ("std-debug", "std-release"):
        if tier == "quick":
            runs.append(Run(v, "c19", ["seed=%d" % seed, "random=%d" % n], timeout=300))
        else:
            for i in range(8):
                runs.append(Run(v, "c19", ["seed=%d" % (seed * 1000 + i), "random=%d" % (n // 8)], timeout=1200))
    return runs


FLOORS["C19"] = {"evaluations": 500_000, "distinct_nontrivial": 500}

# ----------------------------------------------------------------------------------------------
prop("C20", level="exploration",
     title="Endian-tagged integers keep their declared byte order for every value",
     technique="reference-model monitor: wrapper conversions, in-memory bytes, equality and guest-memory wire format compared with std to_le_bytes/to_be_bytes; 16-bit types exhaustive, 32-bit exhaustive in the thorough tier, 64-bit structured + random",
     rule="cases = (wrapper, value, comparison partner) ; 16-bit wrappers: all 2^16 values x 5 partners (exhaustive); 32-bit: 2^24 structured + random (quick) / all 2^32 (thorough); 64-bit/size: every value with <=2 distinct byte values for 8 byte pairs, walking ones/zeros, byte position markers, palindromes + seeded random; memory-level write_obj/read_obj checks at unaligned offsets in a VolatileSlice and a GuestMemoryMmap; distinct key = (width, value pattern class / high byte / byte value at position, symmetric-under-byteswap?) - a key is non-trivial because each names a byte pattern whose byte order is observable",
     exhaustive_note="Le16/Be16: all 65536 values in every tier; Le32/Be32: all 2^32 values in the thorough tier",
     assumptions=["std's to_le_bytes/to_be_bytes define the wire format", "host is little-endian x86-64 (the big-endian host half of 'regardless of the host' cannot be executed here)"],
     level_text="Exhaustive for the 16-bit wrappers, exhaustive for the 32-bit wrappers in the thorough tier, structured+random sampling for 64-bit and pointer-sized wrappers; held-on-observed.",
     level_note="Oracle is std's byte-order conversion on this little-endian host; a big-endian host cannot be run in this sandbox.",
     design_ref="DESIGN.md §7 C20")


@plan("C20")
def plan_c20(tier, seed):
    if tier == "quick":
        return [Run("std-release", "c20", ["seed=%d" % seed, "tier=quick"], timeout=300),
                Run("std-debug", "c20", ["seed=%d" % seed, "tier=quick", "random32=200000", "random64=300000"], timeout=300)]
    return [Run("std-release", "c20", ["seed=%d" % seed, "tier=thorough"], timeout=3000),
            Run("std-debug", "c20", ["seed=%d" % seed, "tier=quick"], timeout=900)]


FLOORS["C20"] = {"evaluations": 10_000_000, "distinct_nontrivial": 1000}

# ----------------------------------------------------------------------------------------------
prop("C02", level="exploration",
     title="Guest address queries answer exactly according to the set of mapped regions",
     technique="reference-model monitor: every address query of GuestMemoryMmap and of a second trait implementation (MockMemory, default methods only) compared with an interval-set model; small universe enumerated completely, large layouts boundary-sampled; Miri pass in the thorough tier",
     rule="cases = (backend, layout, query, address, length). Exhaustive part: all layouts of 1..3 regions with sizes 1..4 inside [0,14) (8430 layouts) x 3 translations (at 0, ending at 2^64-2, ending at 2^64-1 [mock only]) x every address of the universe +-1 plus the opposite extreme x every length 0..16 plus usize::MAX, usize::MAX-1, 2^63. Random part: <=8 regions, sizes 1 B..1 MiB, holes 0 B..2^61, addresses at region edges +-2 and extremes, lengths from the boundary generator. distinct key = (backend, query, answer class, position of the address relative to the nearest region edge, length-vs-run class, layout shape); non-trivial = the address is at/next to a region edge or in a hole (keys for addresses strictly inside/above/below everything are counted separately as trivial)",
     exhaustive_note="all 1..3-region layouts with region sizes 1..4 in a 14-byte universe, at three translations, all addresses and lengths of that universe",
     assumptions=["the interval-set model (models/layout.rs, 60 lines) is the specification", "check_range(b,0) and get_slice(a,0) at an unmapped address are recorded but not judged (vacuous for an empty range)", "mmap-backed regions in this monitor are build_raw views of a PROT_NONE reservation: only pointers are compared, bytes are never touched"],
     level_text="Complete enumeration of a small universe plus boundary-biased sampling of large layouts, with a model oracle on every answer; held-on-observed for the layouts/addresses actually queried.",
     level_note="Trusts the 60-line interval model and the MockMemory backend's required methods (find_region linear scan, get_slice bounds check).",
     design_ref="DESIGN.md §7 C02")


@plan("C02")
def plan_c02(tier, seed):
    if tier == "quick":
        return shards("std-debug", "c02", 16, ["seed=%d" % seed, "cases=320"], timeout=600)
    runs = shards("std-debug", "c02", 16, ["seed=%d" % seed, "cases=20000", "width=16", "maxsize=5"], timeout=3000)
    runs += shards("std-release", "c02", 8, ["seed=%d" % (seed + 77), "cases=20000", "noexh"], timeout=3000)
    runs += shards("miri", "c02", 8, ["seed=%d" % seed, "cases=16", "width=7", "maxsize=3", "addrs=12"], timeout=3000)
    return runs


FLOORS["C02"] = {"judged_queries": 2_000_000, "distinct_nontrivial": 2000}

# ----------------------------------------------------------------------------------------------
prop("C09", level="exploration",
     title="The page bitmap behaves as a set of page numbers under every operation sequence",
     technique="reference-model monitor: AtomicBitmap (plus RefSlice/ArcSlice views, Option and unit bitmaps) stepped against a BTreeSet model with a full read-out of every observable after every operation; single operations enumerated completely on a small space, random operation sequences beyond; Miri pass in the thorough tier",
     rule="cases = operation sequences on (byte_size, page_size). Exhaustive part: byte_size 0..20 x page in {1,2,3} x 4 structured initial states x every single operation with (start,len) in 0..22 x 0..22 (set/reset range), every bit index 0..22 (set/reset bit), get_and_reset, reset, clone. Random part: sizes {0,1,p-1,p,p+1,63p..65p,127p..129p,<=10^4}, pages {1,2,3,5,7,64,100,128,4096,>size}, 30..300 operations incl. enlarge, clone, nested slice_at views (RefSlice and ArcSlice) with wrapping offsets, ranges near usize::MAX. After every step: is_bit_set for 0..pages+130, is_addr_set/dirty_at at every page start/end and extremes, len, byte_size, clone().get_and_reset() words, clone independence. distinct key = (operation, page-size class, page-count class, range class, enlarge/clone depth); all keys non-trivial",
     exhaustive_note="every single range/bit operation with arguments <= 22 from 4 structured states for byte_size <= 20 and page size 1..3",
     assumptions=["BTreeSet model in mon_c09.rs is the specification (ranges running past usize::MAX saturate)"],
     level_text="Model-based runtime oracle with full read-out after every step over an exhaustively enumerated small space and thousands of random sequences; held-on-observed.",
     level_note="Trusts the BTreeSet model; sequential executions only (concurrency is C08).",
     design_ref="DESIGN.md §7 C09")


@plan("C09")
def plan_c09(tier, seed):
    if tier == "quick":
        runs = shards("std-debug", "c09", 8, ["seed=%d" % seed, "cases=2400", "noexh"], timeout=600)
        runs.append(Run("std-release", "c09", ["seed=%d" % seed, "cases=0"], timeout=600))
        return runs
    runs = shards("std-debug", "c09", 16, ["seed=%d" % seed, "cases=200000", "noexh"], timeout=3400)
    runs.append(Run("std-release", "c09", ["seed=%d" % seed, "cases=0", "xbs=40"], timeout=3000))
    runs += shards("miri", "c09", 8, ["seed=%d" % seed, "cases=48", "noexh", "maxops=40"], timeout=3000)
    return runs


FLOORS["C09"] = {"exhaustive_single_ops": 200_000, "distinct_nontrivial": 800}

# ----------------------------------------------------------------------------------------------
prop("C10", level="exploration",
     title="Adding or removing a region yields a new valid map and leaves the old one intact",
     technique="history monitor with a list model: from_arc_regions / insert_region / remove_region / clone / writes through shared regions; every map and region handle ever produced is kept alive and re-listed and fully re-read (library path and raw pointer) after every step; complete pairwise boundary grid; Miri pass in the thorough tier",
     rule="cases = histories of 10..60 steps (insert with adjacency classes free/adjacent/gap-1/overlap-1/overlap-n/equal-start relative to an existing region, remove with exact/size+-1/start+-1/last-byte/absent arguments, construction from shuffled/duplicated/empty lists of shared Arcs, clone, write through a shared region, drop of maps and handles) from random starting layouts incl. 1-byte regions and regions next to 2^64. Grid part (enumerated completely): region lengths {1,2,7,4096}^2 x distance prev-end..next-start in {-2..2} x both list orders for construction and both insertion directions; GuestRegionMmap::new with base+size in 2^64-2..2^64+2. distinct key = (step kind, outcome/error variant, adjacency class, maps-alive bucket); all non-trivial",
     exhaustive_note="pairwise boundary grid (4x4 lengths x 5 distances x 2 orders / 2 directions) and the base+size bound at 2^64",
     assumptions=["list model in mon_c10.rs is the specification", "when a construction list is both unsorted and overlapping either error variant is accepted", "base+size == 2^64 is recorded, not judged"],
     level_text="Model-based history monitor with frame checks over all live maps after every step; held-on-observed.",
     level_note="Trusts the list model; byte patterns are unique per region id so that a wrong region is observable.",
     design_ref="DESIGN.md §7 C10")


@plan("C10")
def plan_c10(tier, seed):
    if tier == "quick":
        return shards("std-debug", "c10", 8, ["seed=%d" % seed, "cases=16000"], timeout=600)
    runs = shards("std-debug", "c10", 16, ["seed=%d" % seed, "cases=400000"], timeout=3400)
    runs += shards("miri", "c10", 8, ["seed=%d" % seed, "cases=40", "maxsteps=25"], timeout=3000)
    return runs


FLOORS["C10"] = {"evaluations": 100_000, "distinct_nontrivial": 80}

# ----------------------------------------------------------------------------------------------
prop("C01", level="exploration",
     title="Every accessor handed out stays inside its parent memory and is aligned",
     technique="extent monitor over random derivation chains: the extent every accessor reports about itself (ptr_guard, len, reference address) is compared in 128-bit arithmetic with parent and root; every accessor is then used while PROT_NONE guard pages, canaries, mapping slack, ASan and Miri watch for accesses outside the root",
     rule="cases = derivation chains (depth <= 6 quick / 16 thorough) from roots {arena buffer abutting a leading guard page, abutting a trailing guard page, centred at every address mod 16 with canaries; MmapRegion; GuestRegionMmap / GuestMemoryMmap get_slice}; steps subslice, get_slice, offset, split_at, as_volatile_slice, ArrayRef::from, get_ref<T>->to_slice, get_array_ref<T>->to_slice/ref_at->to_slice, get_atomic_ref<A>, aligned_as_ref/mut<T>, compute_end_offset with arguments from the boundary generator (0, len+-9, 2^31, 2^32, isize::MAX+-1, 2^63, usize::MAX-9.., pointer-overflowing); T in {u8,u16,u32,u64,u128,usize,[u8;3],[u16;5],[u8;0],Le32,Be64}; ByteValued::from_slice/from_mut_slice grid (len 0..23 x misalignment 0..7 x 8 types). distinct key = (operation, type, outcome, boundary class of offset, of count, depth bucket, root kind); non-trivial = request ends within +-9 of the parent end, or an overflow class, or depth >= 2",
     assumptions=["accessor self-reports (ptr_guard().as_ptr(), len(), reference addresses) are the observation; accesses outside the root are observed by guard pages / canaries natively and by ASan / Miri in the thorough tier", "'fits => Ok' is counted, not judged (belongs to C04)"],
     level_text="Runtime extent oracle over tens of thousands of random derivation chains plus guard-page / canary / sanitizer observation of real use; held-on-observed.",
     level_note="Red-zone tools do not see intra-object overflows; the extent arithmetic does not depend on them. A SIGSEGV/SIGBUS of the monitor process is reported as a violation with the announced chain as witness.",
     design_ref="DESIGN.md §7 C01")


@plan("C01")
def plan_c01(tier, seed):
    if tier == "quick":
        runs = shards("std-debug", "c01", 8, ["seed=%d" % seed, "cases=40000"], timeout=600, crash_is_violation=True)
        runs += shards("miri", "c01", 8, ["seed=%d" % seed, "cases=240", "depth=5"], timeout=900)
        return runs
    runs = shards("std-debug", "c01", 16, ["seed=%d" % seed, "cases=1000000", "depth=16"], timeout=3400, crash_is_violation=True)
    runs += shards("std-release", "c01", 8, ["seed=%d" % (seed + 5), "cases=400000", "depth=16"], timeout=3400, crash_is_violation=True)
    runs += shards("asan", "c01", 8, ["seed=%d" % (seed + 9), "cases=100000", "depth=12"], timeout=3400)
    runs += shards("miri", "c01", 16, ["seed=%d" % seed, "cases=5000", "depth=10"], timeout=3400)
    return runs


FLOORS["C01"] = {"chains_depth_ge2": 5000, "distinct_nontrivial": 3000}

# ----------------------------------------------------------------------------------------------
prop("C03", level="exploration",
     title="Guest memory reads and writes behave like one flat sparse byte array",
     technique="history monitor with a flat sparse byte-array model over the interval model: return values, error variants and PartialBuffer counts of every guest-level access are compared with the model, and every region, its mapping slack and its backing file are re-read through an independent path after every step; backends anonymous mmap, MAP_SHARED file, MockMemory (default trait methods, region ending at 2^64-1 plus region at 0), Xen-UNIX in the thorough tier; Miri/ASan passes",
     rule="cases = histories of 20..200 mixed operations (write/read/write_slice/read_slice, write_obj/read_obj of 1..32-byte objects, atomic store/load, read_volatile_from/read_exact_volatile_from from slices and cursors of shorter/equal/longer length, write_volatile_to/write_all_volatile_to into a Vec, region-level access) on layouts of 1..5 regions (touching, 1-byte and large holes, at 0, next to / at the top of the address space) with start addresses at region edges +-2 and buffer lengths run-1, run, run+1, longer. distinct key = (operation, outcome class, number of regions crossed, position class of the start address, length-vs-run class, backend); all non-trivial",
     assumptions=["flat byte-array model (models/world.rs) is the specification", "empty buffers are left to C18", "in-memory streams of the exact forms are at least `count` long (short/faulty streams are C14)"],
     level_text="Model-based history monitor with full-memory frame comparison after every step, three backends; held-on-observed.",
     level_note="Trusts the flat model and MockMemory's required methods; host pointers are read by the harness through raw volatile loads.",
     design_ref="DESIGN.md §7 C03")


@plan("C03")
def plan_c03(tier, seed):
    if tier == "quick":
        runs = shards("std-debug", "c03", 8, ["seed=%d" % seed, "cases=6000"], timeout=600, crash_is_violation=True)
        runs += shards("xen-debug", "c03", 2, ["seed=%d" % (seed + 3), "cases=800"], timeout=600, crash_is_violation=True)
        runs += shards("miri", "c03", 8, ["seed=%d" % seed, "cases=40", "maxops=30"], timeout=900)
        return runs
    runs = shards("std-debug", "c03", 16, ["seed=%d" % seed, "cases=160000"], timeout=3400, crash_is_violation=True)
    runs += shards("std-release", "c03", 8, ["seed=%d" % (seed + 1), "cases=80000"], timeout=3400, crash_is_violation=True)
    runs += shards("xen-debug", "c03", 4, ["seed=%d" % (seed + 3), "cases=20000"], timeout=3400, crash_is_violation=True)
    runs += shards("asan", "c03", 8, ["seed=%d" % (seed + 2), "cases=20000"], timeout=3400)
    runs += shards("miri", "c03", 16, ["seed=%d" % seed, "cases=480", "maxops=40"], timeout=3400)
    return runs


FLOORS["C03"] = {"evaluations": 200_000, "distinct_nontrivial": 1000, "histories_with_region_at_top": 50}

# ----------------------------------------------------------------------------------------------
prop("C04", level="exploration",
     title="Every accessor of a volatile container moves exactly the bytes it names",
     technique="history monitor with a Vec<u8> model of one container: result, count and error of every byte/object/typed/array/copy/atomic accessor compared with the model; whole container, canaries, guard pages and mapping slack compared after every operation; cross-route re-reads; complete (length x src-alignment x dst-alignment) grid of the small-copy helper; Miri/ASan/memcheck passes",
     rule="cases = histories of 50..300 operations on arena-backed slices (sizes 0..300, 4096; abutting guard pages or centred at every address mod 16) and MmapRegion containers, on the container or a derived sub-slice: write/read/write_slice/read_slice with 8 local-buffer alignments, write_obj/read_obj/get_ref store/load for 20 element types (1..16-byte integers, arrays, Le/Be wrappers), atomic store/load for 10 types, array refs (load/store/copy_to/copy_from/copy_to_volatile_slice/to_slice), element-wise copy_to/copy_from, slice-to-slice copies within (overlapping) and across containers, offsets inside/touching/crossing the end and huge. Grid (complete): lengths 0..24 x local alignment 0..7 x guest alignment 0..7 x {write, read, copy_from<u8>, copy_to<u8>} = 6400 cells. distinct key = (operation, element type, outcome, offset class, length class, alignment classes); all non-trivial",
     exhaustive_note="25 x 8 x 8 x 4 grid of the byte-copy helper (both sides of the 8-byte threshold, every alignment class)",
     assumptions=["Vec<u8> model in mon_c04.rs is the specification", "memmove semantics for overlapping slice-to-slice copies"],
     level_text="Model-based history monitor with frame comparison after every operation plus a completely enumerated copy grid; held-on-observed.",
     level_note="Trusts the byte model; a crash of the monitor (guard page hit) is a violation with the announced history as witness.",
     design_ref="DESIGN.md §7 C04")


@plan("C04")
def plan_c04(tier, seed):
    if tier == "quick":
        runs = shards("std-debug", "c04", 8, ["seed=%d" % seed, "cases=8000"], timeout=600, crash_is_violation=True)
        runs += shards("std-release", "c04", 2, ["seed=%d" % (seed + 1), "cases=4000"], timeout=600, crash_is_violation=True)
        runs += shards("miri", "c04", 8, ["seed=%d" % seed, "cases=64", "maxops=60", "nogrid"], timeout=900)
        return runs
    runs = shards("std-debug", "c04", 16, ["seed=%d" % seed, "cases=240000"], timeout=3400, crash_is_violation=True)
    runs += shards("std-release", "c04", 8, ["seed=%d" % (seed + 1), "cases=160000"], timeout=3400, crash_is_violation=True)
    runs += shards("asan", "c04", 8, ["seed=%d" % (seed + 2), "cases=40000"], timeout=3400)
    runs += shards("miri", "c04", 16, ["seed=%d" % seed, "cases=640", "maxops=80"], timeout=3400)
    runs.append(Run("std-release", "c04", ["seed=%d" % (seed + 4), "cases=300"], timeout=3400, tool="memcheck"))
    return runs


FLOORS["C04"] = {"grid_cells": 6400, "evaluations": 300_000, "distinct_nontrivial": 5000}

# ----------------------------------------------------------------------------------------------
_C0516_RULE = ("cases = histories of 30..120 operations on GuestMemoryMmap<B> with 1..3 (mostly adjacent) regions, page sizes {1,2,3,7,8,16,64,100,4096,size-1,size,size+1,2*size,random}, bitmap flavours AtomicBitmap (RefSlice views), Option<AtomicBitmap> (Some/None) and an Arc-backed bitmap (ArcSlice views). Write routes: write, write_slice, write_obj, VolatileRef::store, VolatileArrayRef::{store, copy_from, ref_at.store}, copy_from<T>, atomic store, slice->slice and array->slice copies, read_volatile_from/read_exact_volatile_from from &[u8], Cursor, File, a failing descriptor and a reader that fails after a partial fill - at slice level (through accessors reached by random derivation chains of depth 0..6 with non-aligned bases, incl. get_slice / to_slice / ref_at views), region level and guest-memory level (cross-region). Non-writing routes: reads, loads, copy_to, write_volatile_to, queries, derivations, pointer guards, rejected requests. Bitmap reset/reset_addr_range/get_and_reset/reset_bit interleaved. Payloads are the complement of the current contents. distinct key = (route, level, derivation depth, page-size class, page-straddle class of the range, bitmap flavour); all non-trivial")

prop("C05", level="exploration",
     title="No tracked write leaves its pages clean (dirty tracking is sound)",
     technique="diff-driven frame monitor: all bytes and all bitmap bits of all regions are snapshotted around every operation; every byte whose value changed must be reported dirty by the owning region's bitmap at its own offset and by the accessor's own bitmap view; an access may never clear a mark",
     rule=_C0516_RULE,
     assumptions=["raw routes (ptr_guard_mut, aligned_as_mut, get_atomic_ref used directly, get_host_address) are exempt by documentation and are not used for writing", "Xen build: Bitmap page size is fixed to the system page size there, covered by the xen-debug pass of the thorough tier at slice/region level only"],
     level_text="Diff-driven runtime oracle independent of what each call claims to have written, over thousands of histories x page sizes x bitmap flavours x derivation chains; held-on-observed.",
     level_note="A write whose payload equals the old contents is invisible to a diff; payloads are therefore generated as the bitwise complement of the current bytes.",
     design_ref="DESIGN.md §7 C05")

prop("C16", level="exploration",
     title="Dirty marks are confined to what was written (tracking is precise)",
     technique="diff-driven frame monitor (same harness as C05, separate verdict stream): every newly set bit of every region's bitmap must belong to a page overlapping the bytes that actually changed; non-writing operations and rejected requests may set nothing; a failed descriptor read may mark its whole target; no page index beyond a region is ever marked",
     rule=_C0516_RULE,
     assumptions=["the single documented exception (failed descriptor read marks its whole target) is allowed exactly for the target range", "payloads are complements, so 'bytes actually changed' == 'bytes written'"],
     level_text="Diff-driven runtime oracle over the full bitmap of every region before/after every operation; together with C05 this pins the marked set exactly; held-on-observed.",
     level_note="Shares the C05 harness; violations are attributed by signature prefix.",
     design_ref="DESIGN.md §7 C16")


def _plan_c0516(tier, seed):
    if tier == "quick":
        runs = shards("std-debug", "c05", 8, ["seed=%d" % seed, "cases=8000"], timeout=600)
        runs += shards("miri", "c05", 8, ["seed=%d" % seed, "cases=32", "maxops=40"], timeout=900)
        return runs
    runs = shards("std-debug", "c05", 16, ["seed=%d" % seed, "cases=300000"], timeout=3400)
    runs += shards("std-release", "c05", 8, ["seed=%d" % (seed + 1), "cases=160000"], timeout=3400)
    runs += shards("miri", "c05", 16, ["seed=%d" % seed, "cases=320", "maxops=60"], timeout=3400)
    return runs


PLANS["C05"] = _plan_c0516
PLANS["C16"] = _plan_c0516
FLOORS["C05"] = {"ops_that_changed_bytes": 50_000, "distinct_nontrivial": 3000}
FLOORS["C16"] = {"ops_that_changed_bytes": 50_000, "distinct_nontrivial": 3000}

# properties that are (currently) not claimed, with the reason recorded in MANIFEST.json
NOT_CLAIMED = {}
