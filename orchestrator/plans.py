"""Per-property plans: which monitors run in which build variant at which tier, the coverage rule
text, the claimed level and the assumptions. MANIFEST.json is generated from META (tools/gen_manifest.py)."""
from . import core
from .core import Run

META = {}
PLANS = {}
FLOORS = {}
AUX = {}


def prop(pid, **kw):
    META[pid] = kw


def plan(pid):
    def deco(f):
        PLANS[pid] = f
        return f
    return deco


def shards(variant, monitor, n, args, **kw):
    return [Run(variant, monitor, args + ["shard=%d/%d" % (i, n)], **kw) for i in range(n)]


# ----------------------------------------------------------------------------------------------
prop("C19", level="exploration",
     title="Address arithmetic reports overflow instead of wrapping",
     technique="reference-model monitor: every checked/overflowing/align/bit/order operation of GuestAddress and MemoryRegionAddress compared with exact 128-bit arithmetic over an enumerated boundary cross product plus random 64-bit operands, in overflow-checked and unchecked builds",
     rule="all four build configurations of (debug assertions, overflow checks); every check is instantiated twice per address type: with method-call syntax on the CONCRETE type (as user code reaches it - an inherent method shadowing the trait's would be the one checked) and generically through the Address trait. cases = (address type, operation, a, b) with a,b from the complete cross product of {0..16, 2^32+-16, 2^63+-16, 2^64-16..2^64-1} (99x99 pairs x 2 types), all 64 power-of-two alignments for each operand, plus seeded random 64-bit pairs (uniform, near-equal, near-complement, shifted); distinct key = (type, operation, boundary class of a, boundary class of b, outcome some/none/fit/wrap) and for align (type, class of a, k, outcome); all keys are non-trivial (each involves a boundary class or an outcome class)",
     exhaustive_note="the 99x99 boundary cross product and all 64 alignments per operand are enumerated completely; the 64-bit space itself is sampled",
     assumptions=["u128/i128 arithmetic of rustc is the trusted oracle", "unchecked_* helpers are only judged where the exact result fits (documented to follow Rust overflow behaviour otherwise)"],
     level_text="Runtime oracle over an exhaustively enumerated boundary grid plus ~10^6 (quick) / 10^8 (thorough) random operand pairs in two build profiles; held-on-observed, not a proof over all 2^128 pairs.",
     level_note="Trusts rustc's 128-bit integer arithmetic and the harness generators; the unchecked_* forms are judged only when the exact result fits.",
     design_ref="DESIGN.md §7 C19")


@plan("C19")
def plan_c19(tier, seed):
    n = 1_000_000 if tier == "quick" else 40_000_000
    runs = []
    # all four combinations of (debug assertions, overflow checks)
    # ... and the release build generated for the build host's full instruction set
    for v in ("std-debug", "std-release", "std-release-ovf", "std-debug-wrap", "std-release-native"):
        if tier == "quick":
            runs.append(Run(v, "c19", ["seed=%d" % seed, "random=%d" % (n if v in ("std-debug", "std-release") else n // 4)], timeout=300))
        else:
            for i in range(8):
                runs.append(Run(v, "c19", ["seed=%d" % (seed * 1000 + i), "random=%d" % (n // 8)], timeout=1200))
    return runs


FLOORS["C19"] = {"evaluations": 500_000, "distinct_nontrivial": 500}

# ----------------------------------------------------------------------------------------------
prop("C20", level="exploration",
     title="Endian-tagged integers keep their declared byte order for every value",
     technique="reference-model monitor: wrapper conversions, in-memory bytes, equality and inequality operators in all three pairings (wrapper/native, native/wrapper, wrapper/wrapper), clone, Into, Default, comparisons of two typed views of the SAME bytes, nine fresh processes whose first endian operation differs (wrappers obtained from wire bytes / guest memory / a stream before any From), every byte-level view (as_slice, as_mut_slice, as_bytes, from_slice, write_all_to, read_exact_from, zeroed) and guest-memory wire format compared with std to_le_bytes/to_be_bytes; 16-bit types exhaustive, 32-bit exhaustive in the thorough tier, 64-bit structured + random",
     rule="cases = (wrapper, value, comparison partner) ; 16-bit wrappers: all 2^16 values x 5 partners (exhaustive); 32-bit: 2^24 structured + random (quick) / all 2^32 (thorough); 64-bit/size: every value with <=2 distinct byte values for 8 byte pairs, walking ones/zeros, byte position markers, palindromes + seeded random; memory-level write_obj/read_obj checks at unaligned offsets in a VolatileSlice and a GuestMemoryMmap; distinct key = (width, value pattern class / high byte / byte value at position, symmetric-under-byteswap?) - a key is non-trivial because each names a byte pattern whose byte order is observable",
     exhaustive_note="Le16/Be16: all 65536 values in every tier; Le32/Be32: all 2^32 values in the thorough tier",
     assumptions=["std's to_le_bytes/to_be_bytes define the wire format", "host is little-endian x86-64 (the big-endian host half of 'regardless of the host' cannot be executed here)"],
     level_text="Exhaustive for the 16-bit wrappers, exhaustive for the 32-bit wrappers in the thorough tier, structured+random sampling for 64-bit and pointer-sized wrappers; held-on-observed.",
     level_note="Oracle is std's byte-order conversion on this little-endian host; a big-endian host cannot be run in this sandbox.",
     design_ref="DESIGN.md §7 C20")


@plan("C20")
def plan_c20(tier, seed):
    # nine fresh processes whose FIRST endian operation differs (process-global first-use state)
    firsts = [Run(v, "c20", ["first=%d" % k, "onlyfirst"], timeout=120) for k in range(9) for v in (("std-debug", "std-release") if tier != "quick" or k % 2 == 0 else ("std-debug",))]
    # "regardless of the host": the same monitor interpreted by Miri for a BIG-ENDIAN target (s390x)
    # and for the little-endian host, on a thinned-out value set; first operations included
    interp = [Run("miri-be", "c20", ["seed=%d" % seed, "first=%d" % (seed % 9)], timeout=1500),
              Run("miri-ppc64le", "c20", ["seed=%d" % (seed + 1), "first=%d" % ((seed + 2) % 9)], timeout=1500),
              Run("miri", "c20", ["seed=%d" % seed, "first=%d" % ((seed + 4) % 9)], timeout=1500)]
    if tier == "quick":
        return firsts + interp + [Run("std-release", "c20", ["seed=%d" % seed, "tier=quick"], timeout=300),
                                  Run("std-debug", "c20", ["seed=%d" % seed, "tier=quick", "random32=200000", "random64=300000"], timeout=300)]
    interp += [Run("miri-be", "c20", ["seed=%d" % (seed + s), "first=%d" % k, "random64=2000", "random32=2000"], timeout=3400) for s, k in ((1, 1), (2, 3), (3, 5), (4, 7))]
    interp += [Run("miri-aarch64", "c20", ["seed=%d" % (seed + 5), "first=2"], timeout=3400),
               Run("miri-ppc64le", "c20", ["seed=%d" % (seed + 6), "first=6", "random64=2000", "random32=2000"], timeout=3400)]
    return firsts + interp + [Run("std-release", "c20", ["seed=%d" % seed, "tier=thorough"], timeout=3000),
                              Run("std-debug", "c20", ["seed=%d" % seed, "tier=quick"], timeout=900)]


FLOORS["C20"] = {"evaluations": 10_000_000, "distinct_nontrivial": 1000}

# ----------------------------------------------------------------------------------------------
prop("C02", level="exploration",
     title="Guest address queries answer exactly according to the set of mapped regions",
     technique="reference-model monitor: every address query of GuestMemoryMmap and of a second trait implementation (MockMemory, default methods only) compared with an interval-set model; small universe enumerated completely, large layouts boundary-sampled; for the mmap collection the same queries are repeated on collections DERIVED from it (each region removed with remove_region, then re-inserted with insert_region), which must answer according to the derived layout",
     rule="cases = (backend, layout, query, address, length). Exhaustive part: all layouts of 1..3 regions with sizes 1..4 inside [0,14) (8430 layouts) x 3 translations (at 0, ending at 2^64-2, ending at 2^64-1 [mock only]) x every address of the universe +-1 plus the opposite extreme x every length 0..16 plus usize::MAX, usize::MAX-1, 2^63. Random part: <=8 regions, sizes 1 B..1 MiB, holes 0 B..2^61, addresses at region edges +-2 and extremes, lengths from the boundary generator. Collections of 9..257 regions (lookup strategies may change with the count). 8 threads x 150 000 concurrent lookups (find_region, to_region_addr, get_host_address, address_in_range, check_range) on one shared 6-region collection, each thread mostly in its own region (an answer must not depend on what another thread asked last). OWNED anonymous regions of 2 MiB - 4 KiB .. 8 MiB (42 of them, kept alive so that placements differ): every route to a host pointer (get_host_address at both levels, get_slice at both levels, as_volatile_slice, as_ptr) agrees and a byte written through the interface is the byte at that pointer. Backends: mmap, mock, mmap-removed (one region removed: top / bottom / middle), mmap-reinserted. distinct key = (backend, query, answer class, position of the address relative to the nearest region edge, length-vs-run class, layout shape); non-trivial = the address is at/next to a region edge or in a hole (keys for addresses strictly inside/above/below everything are counted separately as trivial)",
     exhaustive_note="all 1..3-region layouts with region sizes 1..4 in a 14-byte universe, at three translations, all addresses and lengths of that universe",
     assumptions=["the interval-set model (models/layout.rs, 60 lines) is the specification", "check_range(b,0) and get_slice(a,0) at an unmapped address are recorded but not judged (vacuous for an empty range)", "mmap-backed regions in this monitor are build_raw views of a PROT_NONE reservation: only pointers are compared, bytes are never touched"],
     level_text="Complete enumeration of a small universe plus boundary-biased sampling of large layouts, with a model oracle on every answer; held-on-observed for the layouts/addresses actually queried.",
     level_note="Trusts the 60-line interval model and the MockMemory backend's required methods (find_region linear scan, get_slice bounds check).",
     design_ref="DESIGN.md §7 C02")


@plan("C02")
def plan_c02(tier, seed):
    if tier == "quick":
        return shards("std-debug", "c02", 16, ["seed=%d" % seed, "cases=320"], timeout=600)
    runs = shards("std-debug", "c02", 16, ["seed=%d" % seed, "cases=400000", "width=18", "maxsize=6"], timeout=3400)
    runs += shards("std-release", "c02", 16, ["seed=%d" % (seed + 77), "cases=1600000", "noexh", "addrs=120"], timeout=3400)
    return runs


FLOORS["C02"] = {"judged_queries": 2_000_000, "distinct_nontrivial": 2000}

# ----------------------------------------------------------------------------------------------
prop("C09", level="exploration",
     title="The page bitmap behaves as a set of page numbers under every operation sequence",
     technique="reference-model monitor: AtomicBitmap (plus RefSlice/ArcSlice views, Option and unit bitmaps) stepped against a BTreeSet model with a full read-out of every observable after every operation; single operations enumerated completely on a small space, random operation sequences beyond; Miri pass in the thorough tier",
     rule="cases = operation sequences on (byte_size, page_size). Exhaustive part: byte_size 0..20 x page in {1,2,3} x 4 structured initial states x every single operation with (start,len) in 0..22 x 0..22 (set/reset range), every bit index 0..22 (set/reset bit), get_and_reset, reset, clone, clone_from into a differently sized destination with every page dirty. Random part: sizes {0,1,p-1,p,p+1,63p..65p,127p..129p,<=10^4}, pages {1,2,3,5,7,64,100,128,4096,>size}, 30..300 operations incl. enlarge, clone, clone_from into a destination with fewer / equal / more 64-page words and another page size, construction through new / NewBitmap::with_len / Default, range starts and lengths of the form 2^k +- d for every k, one bitmap with 2^32 + 70 000 pages (marks, resets, single bits and slice views around index 2^32), repetition wraps (255..196 608 clearing operations of 4 kinds between two uses of a page), nested slice_at views (RefSlice and ArcSlice) with wrapping offsets, ranges near usize::MAX. After every step: is_bit_set for 0..pages+130, is_addr_set/dirty_at at every page start/end and extremes, len, byte_size, clone().get_and_reset() words, clone independence. distinct key = (operation, page-size class, page-count class, range class, enlarge/clone depth); all keys non-trivial",
     exhaustive_note="every single range/bit operation with arguments <= 22 from 4 structured states for byte_size <= 20 and page size 1..3",
     assumptions=["BTreeSet model in mon_c09.rs is the specification (ranges running past usize::MAX saturate)"],
     level_text="Model-based runtime oracle with full read-out after every step over an exhaustively enumerated small space and thousands of random sequences; held-on-observed.",
     level_note="Trusts the BTreeSet model; sequential executions only (concurrency is C08).",
     design_ref="DESIGN.md §7 C09")


@plan("C09")
def plan_c09(tier, seed):
    if tier == "quick":
        runs = shards("std-debug", "c09", 8, ["seed=%d" % seed, "cases=2400", "noexh"], timeout=600)
        runs.append(Run("std-release", "c09", ["seed=%d" % seed, "cases=0"], timeout=600))
        runs.append(Run("std-release-ovf", "c09", ["seed=%d" % (seed + 5), "cases=300", "noexh", "nohuge"], timeout=600))
        # every page of bitmaps with 2^32-64 .. 2^33 pages dirty at once (needs ~2 GiB, ~20 s each)
        runs.append(Run("std-release", "c09", ["cases=0", "noexh", "nohuge", "nothresholds", "nowrap", "alldirty"], timeout=900))
        runs.append(Run("std-release-ovf", "c09", ["cases=0", "noexh", "nohuge", "nothresholds", "nowrap", "alldirty"], timeout=900))
        return runs
    runs = shards("std-debug", "c09", 16, ["seed=%d" % seed, "cases=200000", "noexh"], timeout=3400)
    runs.append(Run("std-release", "c09", ["seed=%d" % seed, "cases=0", "xbs=40", "alldirty"], timeout=3000))
    runs.append(Run("std-release-ovf", "c09", ["cases=0", "noexh", "nohuge", "nothresholds", "nowrap", "alldirty"], timeout=3000))
    runs += shards("miri", "c09", 16, ["seed=%d" % seed, "cases=480", "noexh", "maxops=30"], timeout=3400)
    return runs


FLOORS["C09"] = {"exhaustive_single_ops": 200_000, "distinct_nontrivial": 800}

# ----------------------------------------------------------------------------------------------
prop("C10", level="exploration",
     title="Adding or removing a region yields a new valid map and leaves the old one intact",
     technique="history monitor with a list model: from_arc_regions / insert_region / remove_region / clone / writes through shared regions; every map and region handle ever produced is kept alive and re-listed and fully re-read (library path and raw pointer) after every step; complete pairwise boundary grid; Miri pass in the thorough tier",
     rule="cases = histories of 10..60 steps (insert of a fresh region with adjacency classes free/adjacent/gap-1/overlap-1/overlap-n/equal-start relative to an existing region, insert of an EXISTING handle - the very Arc the target map holds, or one removed from / refused by some map earlier -, regions that are private mappings of ONE shared file descriptor at coinciding / intersecting file ranges, empty starting collections, remove with exact/size+-1/start+-1/last-byte/absent arguments, construction from shuffled/duplicated/empty lists of shared Arcs, clone, write through a shared region, drop of maps and handles) from random starting layouts incl. 1-byte regions and regions next to 2^64. Grid part (enumerated completely): region lengths {1,2,7,4096}^2 x distance prev-end..next-start in {-2..2} x both list orders for construction and both insertion directions; GuestRegionMmap::new with base+size in 2^64-2..2^64+2. distinct key = (step kind, outcome/error variant, adjacency class, maps-alive bucket); all non-trivial",
     exhaustive_note="pairwise boundary grid (4x4 lengths x 5 distances x 2 orders / 2 directions) and the base+size bound at 2^64",
     assumptions=["list model in mon_c10.rs is the specification", "when a construction list is both unsorted and overlapping either error variant is accepted", "base+size == 2^64 is recorded, not judged"],
     level_text="Model-based history monitor with frame checks over all live maps after every step; held-on-observed.",
     level_note="Trusts the list model; byte patterns are unique per region id so that a wrong region is observable.",
     design_ref="DESIGN.md §7 C10")


@plan("C10")
def plan_c10(tier, seed):
    if tier == "quick":
        return shards("std-debug", "c10", 8, ["seed=%d" % seed, "cases=16000"], timeout=600)
    runs = shards("std-debug", "c10", 16, ["seed=%d" % seed, "cases=400000"], timeout=3400)
    runs += shards("miri", "c10", 16, ["seed=%d" % seed, "cases=640", "maxsteps=20", "nogrid"], timeout=3400)
    return runs


FLOORS["C10"] = {"evaluations": 100_000, "distinct_nontrivial": 80}

# ----------------------------------------------------------------------------------------------
prop("C01", level="exploration",
     title="Every accessor handed out stays inside its parent memory and is aligned",
     technique="extent monitor over random derivation chains: the extent every accessor reports about itself (ptr_guard, len, reference address) is compared in 128-bit arithmetic with parent and root; every accessor is then used while PROT_NONE guard pages, canaries, mapping slack, ASan and Miri watch for accesses outside the root",
     rule="cases = derivation chains (depth <= 6 quick / 16 thorough) from roots {arena buffer abutting a leading guard page, abutting a trailing guard page, centred at every address mod 16 with canaries; MmapRegion; GuestRegionMmap / GuestMemoryMmap get_slice}; steps subslice, get_slice, offset, split_at, as_volatile_slice, ArrayRef::from, get_ref<T>->to_slice, get_array_ref<T>->to_slice/ref_at->to_slice, get_atomic_ref<A>, aligned_as_ref/mut<T>, compute_end_offset with arguments from the boundary generator (0, len+-9, 2^31, 2^32, isize::MAX+-1, 2^63, usize::MAX-9.., pointer-overflowing); T in {u8,u16,u32,u64,u128,usize,[u8;3],[u16;5],[u8;0],Le32,Be64}; ByteValued::from_slice/from_mut_slice grid (len 0..23 x misalignment 0..7 x 8 types); region- and guest-memory-level atomic store/load on regions of 18 lengths that are not multiples of the access width (1..17, 4090..4102, 8190) x 6 types x offsets around the region end (refused unless the whole object fits and is aligned; the mapping's tail page beyond the region stays untouched; an access crossing into an adjacent next region is refused). distinct key = (operation, type, outcome, boundary class of offset, of count, depth bucket, root kind); non-trivial = request ends within +-9 of the parent end, or an overflow class, or depth >= 2",
     assumptions=["accessor self-reports (ptr_guard().as_ptr(), len(), reference addresses) are the observation; accesses outside the root are observed by guard pages / canaries natively and by ASan / Miri in the thorough tier", "'fits => Ok' is counted, not judged (belongs to C04)"],
     level_text="Runtime extent oracle over tens of thousands of random derivation chains plus guard-page / canary / sanitizer observation of real use; held-on-observed.",
     level_note="Red-zone tools do not see intra-object overflows; the extent arithmetic does not depend on them. A SIGSEGV/SIGBUS of the monitor process is reported as a violation with the announced chain as witness.",
     design_ref="DESIGN.md §7 C01")


@plan("C01")
def plan_c01(tier, seed):
    if tier == "quick":
        runs = shards("std-debug", "c01", 8, ["seed=%d" % seed, "cases=40000"], timeout=600, crash_is_violation=True)
        runs += shards("miri", "c01", 8, ["seed=%d" % seed, "cases=64", "depth=5"], timeout=900)
        runs.append(Run("xen-debug", "c01", ["seed=%d" % (seed + 3), "cases=6000"], timeout=600, crash_is_violation=True))
        return runs
    runs = shards("std-debug", "c01", 16, ["seed=%d" % seed, "cases=1000000", "depth=16"], timeout=3400, crash_is_violation=True)
    runs += shards("std-release", "c01", 8, ["seed=%d" % (seed + 5), "cases=400000", "depth=16"], timeout=3400, crash_is_violation=True)
    runs += shards("asan", "c01", 8, ["seed=%d" % (seed + 9), "cases=100000", "depth=12"], timeout=3400)
    runs += shards("xen-debug", "c01", 4, ["seed=%d" % (seed + 3), "cases=200000", "depth=16"], timeout=3400, crash_is_violation=True)
    runs += shards("miri", "c01", 16, ["seed=%d" % seed, "cases=4000", "depth=10"], timeout=3400)
    return runs


FLOORS["C01"] = {"chains_depth_ge2": 5000, "distinct_nontrivial": 3000}

# ----------------------------------------------------------------------------------------------
prop("C03", level="exploration",
     title="Guest memory reads and writes behave like one flat sparse byte array",
     technique="history monitor with a flat sparse byte-array model over the interval model: return values, error variants and PartialBuffer counts of every guest-level access are compared with the model, and every region, its mapping slack and its backing file are re-read through an independent path after every step; backends anonymous mmap, MAP_SHARED file, MockMemory (default trait methods, region ending at 2^64-1 plus region at 0), Xen-UNIX in the thorough tier; Miri/ASan passes",
     rule="cases = histories of 20..200 mixed operations (write/read/write_slice/read_slice, write_obj/read_obj of 1..32-byte objects, atomic store/load, read_volatile_from/read_exact_volatile_from from slices and cursors of shorter/equal/longer length, write_volatile_to/write_all_volatile_to into a Vec, through short-reading / short-accepting streams, region-level buffer access and region-level stream transfers with counts {1..20, remaining, remaining+1, 2^63, usize::MAX, values whose sum with the offset overflows}) on layouts of 1..5 regions (now and then one longer than 64 KiB); direct try_access calls with full- and partial-progress callbacks; one region of 2 GiB + 8 KiB followed by an adjacent one, streamed out and in through a sparse stream that only looks at marker positions (around 0x7ffff000, 2^31, the region boundary), with sinks/sources that take everything or 1..1.5 GiB per call; a 6 MiB FILE-backed region with non-zero contents overwritten with zeros / ones / one repeated byte / ordinary data in page-aligned and unaligned multi-MiB pieces through 3 write routes, read back through the interface, the mapping and the file (touching, 1-byte and large holes, at 0, next to / at the top of the address space) with start addresses at region edges +-2 and buffer lengths run-1, run, run+1, longer. distinct key = (operation, outcome class, number of regions crossed, position class of the start address, length-vs-run class, backend); all non-trivial",
     assumptions=["flat byte-array model (models/world.rs) is the specification", "empty buffers are left to C18", "in-memory streams of the exact forms are at least `count` long (short/faulty streams are C14)"],
     level_text="Model-based history monitor with full-memory frame comparison after every step, three backends; held-on-observed.",
     level_note="Trusts the flat model and MockMemory's required methods; host pointers are read by the harness through raw volatile loads.",
     design_ref="DESIGN.md §7 C03")


@plan("C03")
def plan_c03(tier, seed):
    if tier == "quick":
        runs = shards("std-debug", "c03", 8, ["seed=%d" % seed, "cases=6000"], timeout=600, crash_is_violation=True)
        runs += shards("xen-debug", "c03", 2, ["seed=%d" % (seed + 3), "cases=800"], timeout=600, crash_is_violation=True)
        return runs
    runs = shards("std-debug", "c03", 16, ["seed=%d" % seed, "cases=160000"], timeout=3400, crash_is_violation=True)
    runs += shards("std-release", "c03", 8, ["seed=%d" % (seed + 1), "cases=80000"], timeout=3400, crash_is_violation=True)
    runs += shards("xen-debug", "c03", 4, ["seed=%d" % (seed + 3), "cases=20000"], timeout=3400, crash_is_violation=True)
    runs += shards("asan", "c03", 8, ["seed=%d" % (seed + 2), "cases=20000"], timeout=3400)
    runs += shards("miri", "c03", 16, ["seed=%d" % seed, "cases=960", "maxops=30"], timeout=3400)
    return runs


FLOORS["C03"] = {"evaluations": 200_000, "distinct_nontrivial": 1000, "histories_with_region_at_top": 50}

# ----------------------------------------------------------------------------------------------
prop("C04", level="exploration",
     title="Every accessor of a volatile container moves exactly the bytes it names",
     technique="history monitor with a Vec<u8> model of one container: result, count and error of every byte/object/typed/array/copy/atomic accessor compared with the model; whole container, canaries, guard pages and mapping slack compared after every operation; cross-route re-reads; complete (length x src-alignment x dst-alignment) grid of the small-copy helper; Miri/ASan/memcheck passes",
     rule="cases = histories of 50..300 operations on arena-backed slices (sizes 0..300, 4096; abutting guard pages or centred at every address mod 16) and MmapRegion containers, on the container or a derived sub-slice: write/read/write_slice/read_slice with 8 local-buffer alignments, write_obj/read_obj/get_ref store/load for 20 element types (1..16-byte integers, arrays, Le/Be wrappers), atomic store/load for 10 types, array refs (load/store/copy_to/copy_from/copy_to_volatile_slice/to_slice), element-wise copy_to/copy_from, slice-to-slice copies within (overlapping) and across containers, offsets inside/touching/crossing the end and huge. Grid (complete): lengths 0..24 x local alignment 0..7 x guest alignment 0..7 x {write, read, copy_from<u8>, copy_to<u8>} = 6400 cells. Big transfers: lengths 2^k-1, 2^k, 2^k+1 for k = 16..22, 3 MiB, 4 MiB(+1), 6 MiB, container length (+5) x offsets {0,1,4093} x 7 routes (write/read, write_slice/read_slice, copy_from/copy_to<u8>, copy_to_volatile_slice, stream in/out, array<u8> copies, copy_from/copy_to<u64>) on a 6 MiB + 13 B mapping. distinct key = (operation, element type, outcome, offset class, length class, alignment classes); all non-trivial",
     exhaustive_note="25 x 8 x 8 x 4 grid of the byte-copy helper (both sides of the 8-byte threshold, every alignment class)",
     assumptions=["Vec<u8> model in mon_c04.rs is the specification", "memmove semantics for overlapping slice-to-slice copies"],
     level_text="Model-based history monitor with frame comparison after every operation plus a completely enumerated copy grid; held-on-observed.",
     level_note="Trusts the byte model; a crash of the monitor (guard page hit) is a violation with the announced history as witness.",
     design_ref="DESIGN.md §7 C04")


@plan("C04")
def plan_c04(tier, seed):
    if tier == "quick":
        runs = shards("std-debug", "c04", 8, ["seed=%d" % seed, "cases=8000"], timeout=600, crash_is_violation=True)
        runs += shards("std-release", "c04", 2, ["seed=%d" % (seed + 1), "cases=4000"], timeout=600, crash_is_violation=True)
        runs.append(Run("xen-debug", "c04", ["seed=%d" % (seed + 3), "cases=1500"], timeout=600, crash_is_violation=True))
        runs += shards("miri", "c04", 8, ["seed=%d" % seed, "cases=24", "maxops=50", "nogrid"], timeout=900)
        return runs
    runs = shards("std-debug", "c04", 16, ["seed=%d" % seed, "cases=240000"], timeout=3400, crash_is_violation=True)
    runs += shards("std-release", "c04", 8, ["seed=%d" % (seed + 1), "cases=160000"], timeout=3400, crash_is_violation=True)
    runs += shards("asan", "c04", 8, ["seed=%d" % (seed + 2), "cases=40000"], timeout=3400)
    runs += shards("xen-debug", "c04", 4, ["seed=%d" % (seed + 3), "cases=60000"], timeout=3400, crash_is_violation=True)
    runs += shards("miri", "c04", 16, ["seed=%d" % seed, "cases=1600", "maxops=60", "nogrid"], timeout=3400)
    runs.append(Run("std-release", "c04", ["seed=%d" % (seed + 4), "cases=300"], timeout=3400, tool="memcheck"))
    return runs


FLOORS["C04"] = {"grid_cells": 6400, "evaluations": 300_000, "distinct_nontrivial": 5000}

# ----------------------------------------------------------------------------------------------
_C0516_RULE = ("cases = histories of 30..120 operations on GuestMemoryMmap<B> with 1..3 (mostly adjacent) regions, page sizes {1,2,3,7,8,16,64,100,4096,size-1,size,size+1,2*size,random}, bitmap flavours AtomicBitmap (RefSlice views), Option<AtomicBitmap> (Some/None), an Arc-backed bitmap (ArcSlice views) and a region of 4 GiB + 64 KiB with page size 1 (page indices beyond 2^32: writes at guest, region and slice level around index 2^32, partial reset, aliases at the low offsets watched), a store-buffer LITMUS on real threads (3 x 10^6 rounds: writer stores into an already dirty page and marks it while a harvester clears the bit and copies the page; a page that ends the round clean must have been copied with the new bytes), a PROBE bitmap implemented by the harness (own Bitmap / BitmapSlice types over an AtomicBitmap) that snapshots the bytes of the pages being marked at the moment of every mark. Write routes: write, write_slice, write_obj, VolatileRef::store, VolatileArrayRef::{store, copy_from, ref_at.store}, copy_from<T>, atomic store, slice->slice and array->slice copies, read_volatile_from/read_exact_volatile_from from &[u8], Cursor, File, a failing descriptor and a reader that fails after a partial fill - at slice level (through accessors reached by random derivation chains of depth 0..6 with non-aligned bases, incl. get_slice / to_slice / ref_at views), region level and guest-memory level (cross-region). Non-writing routes: reads, loads, copy_to, write_volatile_to / write_all_volatile_to into Vec, &mut [u8], a file and a descriptor whose write(2) FAILS (read-only), queries, derivations, pointer guards, rejected requests. Bitmap reset/reset_addr_range/get_and_reset/reset_bit interleaved. Payloads are the complement of the current contents. distinct key = (route, level, derivation depth, page-size class, page-straddle class of the range, bitmap flavour); all non-trivial")

prop("C05", level="exploration",
     title="No tracked write leaves its pages clean (dirty tracking is sound)",
     technique="diff-driven frame monitor: all bytes and all bitmap bits of all regions are snapshotted around every operation; every byte whose value changed must be reported dirty by the owning region's bitmap at its own offset and by the accessor's own bitmap view; an access may never clear a mark; probe flavour: when a page was marked, every byte of it that the operation changed must already have held its new value (a harvest may run at any moment: a page marked before its bytes are written would be collected and the later write go unreported)",
     rule=_C0516_RULE,
     assumptions=["raw routes (ptr_guard_mut, aligned_as_mut, get_atomic_ref used directly, get_host_address) are exempt by documentation and are not used for writing", "write-before-mark order is read into the statement's 'all histories that interleave writes with bitmap resets': a reset may fall between the two halves of one operation", "Xen build: the bitmap is created by the region constructor with the system page size, so the xen-debug pass covers Xen-UNIX regions with 4096-byte pages and the plain and Arc-sliced flavours only"],
     level_text="Diff-driven runtime oracle independent of what each call claims to have written, over thousands of histories x page sizes x bitmap flavours x derivation chains; held-on-observed.",
     level_note="A write whose payload equals the old contents is invisible to a diff; payloads are therefore generated as the bitwise complement of the current bytes.",
     design_ref="DESIGN.md §7 C05")

prop("C16", level="exploration",
     title="Dirty marks are confined to what was written (tracking is precise)",
     technique="diff-driven frame monitor (same harness as C05, separate verdict stream): every newly set bit of every region's bitmap must belong to a page overlapping the bytes that actually changed; non-writing operations and rejected requests may set nothing; a failed descriptor read may mark its whole target; no page index beyond a region is ever marked",
     rule=_C0516_RULE,
     assumptions=["the single documented exception (failed descriptor read marks its whole target) is allowed exactly for the target range", "payloads are complements, so 'bytes actually changed' == 'bytes written'"],
     level_text="Diff-driven runtime oracle over the full bitmap of every region before/after every operation; together with C05 this pins the marked set exactly; held-on-observed.",
     level_note="Shares the C05 harness; violations are attributed by signature prefix.",
     design_ref="DESIGN.md §7 C16")


def _plan_c0516(tier, seed):
    if tier == "quick":
        runs = shards("std-debug", "c05", 8, ["seed=%d" % seed, "cases=8000"], timeout=600)
        runs += shards("xen-debug", "c05", 2, ["seed=%d" % (seed + 3), "cases=2000"], timeout=600)
        # weak-memory litmus (interpreter only): a tracked write spanning two bitmap words vs a harvester
        runs.append(Run("miri", "c05", ["wmlitmus=4"], timeout=900, miri_flags="-Zmiri-many-seeds=0..32"))
        return runs
    runs = shards("std-debug", "c05", 16, ["seed=%d" % seed, "cases=300000", "litmus=30000000"], timeout=3400)
    runs += shards("std-release", "c05", 8, ["seed=%d" % (seed + 1), "cases=160000", "litmus=100000000"], timeout=3400)
    runs += shards("xen-debug", "c05", 4, ["seed=%d" % (seed + 3), "cases=80000"], timeout=3400)
    runs += shards("miri", "c05", 16, ["seed=%d" % seed, "cases=900", "maxops=40"], timeout=3400)
    for rate in ("", " -Zmiri-preemption-rate=0.1", " -Zmiri-preemption-rate=0.3"):
        runs.append(Run("miri", "c05", ["wmlitmus=6"], timeout=3400, miri_flags="-Zmiri-many-seeds=0..192" + rate))
    return runs


PLANS["C05"] = _plan_c0516
PLANS["C16"] = _plan_c0516
FLOORS["C05"] = {"ops_that_changed_bytes": 50_000, "distinct_nontrivial": 3000, "harvest_litmus_control_lost_writes": 1}
FLOORS["C16"] = {"ops_that_changed_bytes": 50_000, "distinct_nontrivial": 3000}

# ----------------------------------------------------------------------------------------------
prop("C07", level="exploration",
     title="Guest-controlled addresses and lengths can never crash the monitor",
     technique="crash monitor: every call of a 118-entry table of public access/query entry points runs under catch_unwind inside a forked child with an RLIMIT_CPU budget, with guest-chosen arguments from the full 64-bit boundary generators; a panic, a fatal signal or a runaway call is located by re-running the batch one call per child; identical call lists in the overflow-checked (debug) and unchecked (release) builds; Miri subset in the thorough tier",
     rule="cases = (entry point, arguments a,b,c: usize and g,g2: u64 from the boundary generators {0..9, len+-9, 2^31, 2^32, isize::MAX+-1, 2^63, usize::MAX-9.., pointer-overflowing, region edges +-2, 2^64-16..}, environment) over containers {empty, 1 byte, 37 B at odd alignment, 300 B, 4096 B, 64 B} with bitmaps of page size {1,7,4096,>size}, GuestMemoryMmap layouts {single, region at 0 + region just below 2^64, 1-byte regions, adjacent+hole}, MockMemory layouts with a region ending at 2^64-1 and one at 0, AtomicBitmaps of 7 geometries. Builds: all four combinations of (debug assertions, overflow checks). distinct key = (entry point, boundary class of a, of b, build profile) and (entry point, address class of g, profile); all non-trivial",
     assumptions=["the documented panics (VolatileArrayRef::ref_at/load/store with index >= len, checked_align_up with a non power of two, unchecked_* helpers) are not exercised", "non-termination is judged on child CPU time (RLIMIT_CPU 20 s for a batch that needs milliseconds), never on wall clock"],
     level_text="Runtime 'returns' oracle over 10^5 (quick) / 10^7 (thorough) calls per build profile with crash containment and exact witness location; held-on-observed.",
     level_note="A property of the form 'never crashes' is only sampled; the entry table and the generators are the coverage claim.",
     design_ref="DESIGN.md §7 C07")


@plan("C07")
def plan_c07(tier, seed):
    if tier == "quick":
        runs = shards("std-debug", "c07", 4, ["seed=%d" % seed, "cases=120"], timeout=600, crash_is_violation=True)
        runs += shards("std-release", "c07", 4, ["seed=%d" % seed, "cases=120"], timeout=600, crash_is_violation=True)
        # the two mixed configurations: overflow checks without debug assertions, and the reverse
        runs += shards("std-release-ovf", "c07", 2, ["seed=%d" % (seed + 2), "cases=60"], timeout=600, crash_is_violation=True)
        runs += shards("std-debug-wrap", "c07", 2, ["seed=%d" % (seed + 3), "cases=60"], timeout=600, crash_is_violation=True)
        return runs
    runs = shards("std-debug", "c07", 16, ["seed=%d" % seed, "cases=6000"], timeout=3400, crash_is_violation=True)
    runs += shards("std-release", "c07", 16, ["seed=%d" % seed, "cases=6000"], timeout=3400, crash_is_violation=True)
    runs += shards("std-release-ovf", "c07", 8, ["seed=%d" % (seed + 2), "cases=3000"], timeout=3400, crash_is_violation=True)
    runs += shards("std-debug-wrap", "c07", 8, ["seed=%d" % (seed + 3), "cases=3000"], timeout=3400, crash_is_violation=True)
    runs += shards("xen-debug", "c07", 4, ["seed=%d" % (seed + 1), "cases=400"], timeout=3400, crash_is_violation=True)
    runs += shards("xen-release", "c07", 4, ["seed=%d" % (seed + 1), "cases=400"], timeout=3400, crash_is_violation=True)
    runs += shards("miri", "c07", 16, ["seed=%d" % seed, "cases=16", "batch=400"], timeout=3400)
    return runs


FLOORS["C07"] = {"calls": 200_000, "distinct_nontrivial": 5000}

# ----------------------------------------------------------------------------------------------
prop("C13", level="exploration",
     title="Volatile stream adapters transfer data exactly like their std::io counterparts",
     technique="differential twin monitor: every ReadVolatile/WriteVolatile adapter call is mirrored live by the corresponding std::io call on an identical twin stream with an ordinary buffer; return value / error kind, landed bytes, remaining slice, cursor position, vector contents, file offset + contents and peer-received bytes are compared; arena canaries detect writes outside the given buffer; complete grid for the in-memory adapters",
     rule="cases = (adapter, call sequence). Grid (complete): stream/sink length 0..20 x position {0,mid,len-1,len,len+1,u64::MAX-3,u64::MAX} x buffer length 0..20 x {up-to, exact} plus a second call, for &[u8], Cursor<&[u8]>, Cursor<Vec<u8>>, &mut [u8], Vec<u8>, Cursor<&mut [u8]>. Sequences of 1..12 calls with buffer lengths {0,1,2,7,8,9,15,16,17,24,100,300,4096} on the in-memory adapters and on File, BorrowedFd, UnixStream, OwnedFd over pipes, TcpStream over loopback (reader and writer roles); descriptors on which even an empty transfer has an effect or fails - datagram sockets (writer and reader side), files opened for the other direction, a stream socket whose write side was shut down, pipes without reader / writer - with buffer lengths {0,0,1,2,7,8,9,64}, compared by result and by what the peer receives; non-blocking stream sockets with exact forms that cannot complete (library call on its own thread, 20 s watchdog); Stdout in a forked child whose descriptor 1 is a pipe; page-sized buffers of zeros / one repeated byte written over non-zero file contents at aligned and unaligned positions (file contents compared). distinct key = (adapter, call, buffer-vs-available class, side of the 8-byte threshold, call index, std outcome); all non-trivial",
     exhaustive_note="the in-memory adapter grid (lengths 0..20, 7 cursor positions, both call forms, two consecutive calls)",
     assumptions=["the installed std is the reference (differential, so it tracks the toolchain)", "stream position and buffer contents after a FAILED exact call are unspecified by std and are not compared (only the error kind and containment are)", "TcpStream is driven over loopback (reads only request what is already queued, since a socket may legally return short); the Stdout adapter shares the raw-fd write path and is not driven (it would write into the monitor's own protocol stream)"],
     level_text="Differential runtime oracle against std::io, complete on a small grid and sampled on sequences incl. real descriptors; held-on-observed.",
     level_note="Trusts std::io as the specification.",
     design_ref="DESIGN.md §7 C13")


@plan("C13")
def plan_c13(tier, seed):
    if tier == "quick":
        return [Run("std-debug", "c13", ["seed=%d" % seed, "cases=2000"], timeout=600, crash_is_violation=True),
                Run("std-release", "c13", ["seed=%d" % (seed + 1), "cases=2000", "nogrid"], timeout=600, crash_is_violation=True),
                # Xen build: the fd adapters with buffers inside an on-demand grant region
                Run("xen-debug", "c13", ["seed=%d" % (seed + 2), "cases=100", "nogrid"], timeout=600, crash_is_violation=True)]
    runs = [Run("xen-debug", "c13", ["seed=%d" % (seed + 2), "cases=20000", "nogrid"], timeout=3400, crash_is_violation=True),
            Run("xen-release", "c13", ["seed=%d" % (seed + 4), "cases=20000", "nogrid"], timeout=3400, crash_is_violation=True)]
    runs += shards("std-debug", "c13", 8, ["seed=%d" % seed, "cases=200000", "grid=40"], timeout=3400, crash_is_violation=True)
    runs += shards("std-release", "c13", 4, ["seed=%d" % (seed + 1), "cases=100000", "nogrid"], timeout=3400, crash_is_violation=True)
    runs += shards("asan", "c13", 4, ["seed=%d" % (seed + 2), "cases=20000"], timeout=3400)
    runs += shards("miri", "c13", 16, ["seed=%d" % seed, "cases=320", "nogrid"], timeout=3400)
    runs.append(Run("miri", "c13", ["seed=%d" % seed, "cases=0", "grid=4"], timeout=3400))
    runs.append(Run("std-release", "c13", ["seed=%d" % (seed + 3), "cases=400", "grid=8"], timeout=3400, tool="memcheck"))
    return runs


FLOORS["C13"] = {"evaluations": 30_000, "distinct_nontrivial": 300, "fd_sequences": 500}

# ----------------------------------------------------------------------------------------------
prop("C14", level="fault_enumeration",
     title="Stream transfers lose or duplicate nothing under short I/O, EINTR and errors",
     technique="fault enumeration with a conservation oracle over the event log of a scripted stream: every script over {full, short-1, short-3, zero, EINTR, EINTRx3, EIO, EWOULDBLOCK} up to a bounded length is executed against read_volatile_from / read_exact_volatile_from / write_volatile_to / write_all_volatile_to on a slice, a region, a guest range spanning two regions and one ending in a hole; real descriptors are driven with the same scripts through link-time interposed read(2)/write(2)",
     rule="cases = (script, entry point, target, count). Enumerated completely: all scripts of length <= 3 (585) in the quick tier, <= 4 (4681) in the thorough tier x 4 entry points x 4 targets x counts {0,1,7,8,9,run-1,run,run+1}. Plus random scripts of length 4..12, long runs (slice, region and guest ranges with more than 64 KiB inside one region; counts 0xffff, 0x10000, 0x10001, run-1, run, run+1, random), storms of 2^17 + 3 consecutive interruptions (at the start and after partial progress, every entry point and target), conservation with a real Cursor as the reader (768 cases: the cursor's position delta equals the bytes stored, also when an exact form fails because the cursor runs dry) and descriptor replays (file source / file sink with the interposer returning short counts, 0, EINTR, EIO, EAGAIN). Checks per execution: consumed bytes are stored in order at consecutive guest addresses (source bytes carry their stream position), bytes handed to the sink are the next guest bytes and every offered buffer starts there, nothing outside the transferred prefix changes, EINTR is never reported and always retried, the first hard error ends the transfer and is reported, exact forms are Ok iff count bytes moved, up-to forms return the bytes moved, PartialBuffer carries (count, moved). distinct key = (entry point, target, script, count class, outcome class); non-trivial = non-empty script",
     exhaustive_note="all fault scripts up to length 3 (quick) / 4 (thorough) over an 8-letter alphabet on 4 targets x 4 entry points x 8 counts",
     assumptions=["scripts are bounded in length; after the script the stream behaves normally (full transfers)", "guest-level write_volatile_to uses write-all per region, so a zero-length accept surfaces as WriteZero there (accepted)", "a hard error after partial progress makes the up-to forms return the error (accepted: 'any other stream error ends the transfer and is reported')"],
     level_text="Complete enumeration of bounded fault scripts with an offline conservation check per execution, plus descriptor-level replay through an in-process syscall interposer.",
     level_note="Bounded script length; the scripted streams implement ReadVolatile/WriteVolatile themselves, the descriptor replay covers the raw-fd adapters.",
     design_ref="DESIGN.md §7 C14")


@plan("C14")
def plan_c14(tier, seed):
    if tier == "quick":
        return shards("std-debug", "c14", 4, ["seed=%d" % seed, "cases=4000", "maxlen=3"], timeout=600, crash_is_violation=True) + \
            [Run("std-release", "c14", ["seed=%d" % (seed + 1), "cases=4000", "maxlen=2"], timeout=600, crash_is_violation=True),
             # the library built without its default `rawfd` feature: caller-implemented streams only
             Run("std-debug-norawfd", "c14", ["seed=%d" % (seed + 2), "cases=3000", "maxlen=3"], timeout=600, crash_is_violation=True)]
    runs = shards("std-debug-norawfd", "c14", 4, ["seed=%d" % (seed + 2), "cases=200000", "maxlen=4"], timeout=3400, crash_is_violation=True)
    runs += shards("std-debug", "c14", 16, ["seed=%d" % seed, "cases=400000", "maxlen=4", "fdcases=20000"], timeout=3400, crash_is_violation=True)
    runs += shards("std-release", "c14", 8, ["seed=%d" % (seed + 1), "cases=400000", "maxlen=4", "fdcases=20000"], timeout=3400, crash_is_violation=True)
    runs += shards("miri", "c14", 16, ["seed=%d" % seed, "cases=160", "maxlen=2"], timeout=3400)
    return runs


FLOORS["C14"] = {"executions_enumerated": 70_000, "fd_replays": 500, "distinct_nontrivial": 20_000}

# ----------------------------------------------------------------------------------------------
prop("C18", level="exploration",
     title="Zero-length accesses are successful no-ops at every layer",
     technique="matrix monitor: (entry point x layer x address class x container x zero-sized type) enumerated completely; each cell runs under catch_unwind with a byte frame and a dirty-bitmap frame around it; GuestMemoryMmap with dirty tracking and MockMemory (default trait methods, region at 2^64-1) at guest level, GuestRegionMmap / MockRegion at region level, arena slices (empty, null-based empty, 1 byte, odd alignment, with byte-granular bitmap) and region slices at slice level; debug, release and Xen builds (Xen-UNIX, and through the emulated devices: on-demand grant, advance-mapped grant and foreign regions)",
     rule="cells = entry points {write/read/write_slice/read_slice with empty buffers; write_obj/read_obj, get_ref.load/store, get_array_ref{copy_to,copy_from,load,store,ref_at} (n=0,1,5), copy_to/copy_from for [u8;0],[u16;0],[u64;0],[u128;0]; copy_to/copy_from with empty buffers of u8/u32/u64; empty slice-to-slice copies; zero-count read_volatile_from/read_exact_volatile_from/write_volatile_to/write_all_volatile_to with slice, cursor, Vec and file streams, including sources with nothing left and sinks with no room (empty &[u8] / &mut [u8], cursors positioned at the start, at the end, past the end and at u64::MAX - the cursor must not move)} x layers {slice, region, guest} x address classes {first/inside/last byte of each region, one before, one past, hole, 0, 2^63, 2^64-1; offsets 0, inside, last, len, len+1, 2^63, usize::MAX} x 7 fixed layouts (single, at 0, adjacent, hole, near top, top [mock], 1-byte regions) + random layouts; zero-sized element copies with buffers of isize::MAX, isize::MAX+1 and usize::MAX elements (in forked children with a 5 s CPU-time limit: a no-op must not walk the buffer). Every cell is distinct and non-trivial; judged = the statement pins it (empty-buffer / zero-sized-object forms at any address; zero-count stream forms and zero-sized element accessors at addresses valid for a non-empty access), others are recorded as notes",
     exhaustive_note="the complete matrix over the 7 fixed layouts and 10 containers",
     assumptions=["the element count returned by copy_to for zero-sized elements is not judged", "zero-count stream transfers at unmapped addresses are recorded, not judged"],
     level_text="Complete enumeration of the zero-length matrix with result, panic and frame oracles; held-on-observed.",
     level_note="A matrix over the crate-provided zero-sized types and the listed address classes; other ZSTs a user may define are out of scope.",
     design_ref="DESIGN.md §7 C18")


@plan("C18")
def plan_c18(tier, seed):
    runs = [Run("std-debug", "c18", ["seed=%d" % seed, "cases=40"], timeout=600, crash_is_violation=True),
            Run("std-release", "c18", ["seed=%d" % seed, "cases=40"], timeout=600, crash_is_violation=True),
            Run("xen-debug", "c18", ["seed=%d" % seed, "cases=10"], timeout=600, crash_is_violation=True)]
    if tier == "thorough":
        runs += shards("std-debug", "c18", 8, ["seed=%d" % (seed + 1), "cases=4000"], timeout=3400, crash_is_violation=True)
        # no ASan pass: ASan instruments the zero-sized volatile load of VolatileRef<[T;0]>::load as
        # a 0-byte access and reports it at one-past-the-end addresses (tool artefact, DESIGN.md §12)
    return runs


FLOORS["C18"] = {"evaluations": 50_000, "distinct_nontrivial": 5000}

# ----------------------------------------------------------------------------------------------
prop("C15", level="exploration",
     title="Region construction accepts exactly the safe requests and builds what was asked",
     technique="predicate-model monitor over construction grids with an in-process syscall interposer: Ok/Err and attributes compared with the statement's predicate; mmap/munmap event balance and /proc/self/maps prove that a failed construction leaves nothing mapped and that a successful one issued exactly the requested mapping; pread/pwrite coherence for MAP_SHARED file regions; Xen build: all mapping-type flag combinations against an emulated grant/privcmd device",
     rule="cases = construction requests. std build: check_file_offset grid (6 file lengths x 9 offsets x 6 sizes), MmapRegion::build / MmapRegionBuilder grid (5 anonymous flag words incl. MAP_FIXED x 5 sizes x 3 prots; 4 file flag words x 6 file lengths x 6 offsets incl. unaligned and near u64::MAX x 7 sizes around end-of-file and usize::MAX), build_raw with 11 pointer offsets x 4 sizes over an external mapping (never unmapped by the library), GuestRegionMmap::new with base+size in 2^64-2..2^64+2, from_range with files, random requests. Xen build: 32 low flag-bit combinations + 8 high-bit words x {file present, absent} x offsets {0,1,4096} x 2 sizes x 4 mmap flag/protection requests {default, MAP_SHARED + PROT_READ, MAP_SHARED|MAP_FIXED, MAP_PRIVATE|MAP_FIXED|MAP_NORESERVE}; the public flag predicates (is_valid, is_unix, is_grant, is_foreign, mmap_in_advance) against the same reading of the bits through MmapRegion::from_range with the ioctl emulator (a region that is accepted must report the requested flags and protection and never MAP_FIXED), new_unix around end-of-file. distinct key = (constructor, flag word, prot, end-vs-EOF relation, offset class, predicate clause / outcome); OS refusals (EINVAL/ENOMEM/EBADF for requests the predicate calls safe) are counted as trivial, not judged",
     exhaustive_note="the listed grids are enumerated completely; Xen: every combination of the five low mapping-type bits; a block device (loop device over a 1 MiB image, when /dev/loop-control is usable) as backing file: 8 requests inside / past its end; one backing file whose length changes between 9 rounds of constructions, requests built from fresh FileOffsets and from (clones of) the FileOffset an earlier region reports",
     assumptions=["requests the predicate calls safe but the kernel refuses (size 0, unaligned file offset, exotic prot/flags) are 'OS refused': counted, not judged", "base+size == 2^64 is recorded, not judged", "Xen devices are emulated through the interposed ioctl(2): index/offset contract only"],
     level_text="Predicate oracle + kernel-level event balance over completely enumerated request grids; held-on-observed.",
     level_note="The interposer sees the mmap/munmap calls issued through the libc crate (all of vm-memory's); /proc/self/maps is the independent cross-check.",
     design_ref="DESIGN.md §7 C15")


@plan("C15")
def plan_c15(tier, seed):
    n = 300 if tier == "quick" else 400000
    runs = [Run("std-debug", "c15", ["seed=%d" % seed, "cases=%d" % n], timeout=1800, crash_is_violation=True),
            Run("xen-debug", "c15", ["seed=%d" % seed], timeout=1800, crash_is_violation=True)]
    if tier == "thorough":
        runs += shards("std-release", "c15", 4, ["seed=%d" % (seed + 1), "cases=%d" % n], timeout=3000, crash_is_violation=True)
        runs.append(Run("xen-release", "c15", ["seed=%d" % seed], timeout=1800, crash_is_violation=True))
    return runs


FLOORS["C15"] = {"constructed_ok": 200, "refused_as_required": 800, "coherence_checked_regions": 50, "xen_constructions": 400}

# ----------------------------------------------------------------------------------------------
prop("C17", level="exploration",
     title="Pointer guards span their accessor; on-demand mappings cover every access",
     technique="guard-extent monitor (all builds) + window monitor for on-demand Xen grant regions: the grant device is emulated through the interposed ioctl(2) (file offset = guest address), so every map/unmap request and every mmap/munmap of a temporary window is logged; per operation the touched byte range must lie inside the union of the windows requested during it, windows must be released in the right order (munmap, then unmap ioctl) with nothing left in /proc/self/maps, and the data must appear in the emulator file at the guest address; unguarded accessors run alone in forked children",
     rule="Part A: ptr_guard/ptr_guard_mut of slices, typed refs, array refs (+ to_slice, ref_at) for 8 element types of 1..16 bytes, counts {0,1,2,3,5,16,max}, through derivation chains of depth 0..3 on arena slices at every address mod 16. Part B (xen build): histories of 30 operations from a 17-entry catalogue (region write/read/write_obj/read_obj, read_volatile_from slice/cursor/file, write_volatile_to, slice write/read, typed refs of 1..16 bytes, element arrays of 1..16-byte elements copy_from/copy_to/load/store, copy_from<u32>/<u8>, explicitly held guards, derived sub-slices, guest-level write+read, zero-length forms) with offsets at page starts, just before page ends, crossing one and two page boundaries, on GRANT|NO_ADVANCE_MAP (50%), advance-mapped GRANT, FOREIGN and Xen-UNIX regions (guest base with and without bit 63); construction and drop balance for every kind; every derivation / conversion of a slice (offset, subslice, both halves of split_at, array from slice, to_slice of arrays / refs / ref_at) written, read and guarded; a window is released exactly once (a second munmap of the same range is flagged: with concurrent mappers it would tear down someone else's window); the environment refusing to build the window (grant ioctl fails / window mmap fails) x 6 access routes in forked children: refused by error or panic, never carried out at the placeholder address. distinct key = (operation, region kind, pages spanned, in-page offset class) and (guard kind, element type, count); all non-trivial",
     assumptions=["/dev/xen/gntdev and privcmd are emulated (index = first grant reference x page size); driver-specific failure modes are out of reach", "page rounding hides an undersized window that still lies within the same pages: element arrays and offsets are chosen to cross page boundaries", "get_atomic_ref / aligned_as_ref / aligned_as_mut / Bytes::store / Bytes::load on on-demand regions are recorded known findings (see known_findings.json)"],
     level_text="Event-log oracle over the emulated grant device and the syscall interposer for thousands of accesses, plus arithmetic guard checks; held-on-observed with five recorded known findings.",
     level_note="Trusts the emulator's index/offset contract and kernel mmap semantics.",
     design_ref="DESIGN.md §7 C17")


@plan("C17")
def plan_c17(tier, seed):
    if tier == "quick":
        return [Run("std-debug", "c17", ["seed=%d" % seed, "cases=1500"], timeout=600, crash_is_violation=True)] + \
            shards("xen-debug", "c17", 4, ["seed=%d" % seed, "cases=320"], timeout=900, crash_is_violation=True)
    runs = [Run("std-debug", "c17", ["seed=%d" % seed, "cases=100000"], timeout=3000, crash_is_violation=True),
            Run("std-release", "c17", ["seed=%d" % seed, "cases=100000"], timeout=3000, crash_is_violation=True)]
    runs += shards("xen-debug", "c17", 12, ["seed=%d" % seed, "cases=600000", "ops=40"], timeout=3400, crash_is_violation=True)
    runs += shards("xen-release", "c17", 4, ["seed=%d" % (seed + 1), "cases=200000", "ops=40"], timeout=3400, crash_is_violation=True)
    return runs


FLOORS["C17"] = {"ondemand_windows_observed": 2000, "ondemand_and_xen_ops": 5000, "distinct_nontrivial": 400}

# ----------------------------------------------------------------------------------------------
prop("C12", level="exploration",
     title="A mapping lives exactly as long as something can still reach it",
     technique="kernel-level event-log monitor: every mmap/munmap the library issues is recorded by a link-time syscall interposer while the harness keeps the owner set of every mapping (maps, derived maps, removed-region handles, clones, GuestMemoryAtomic snapshots and owned handles); after every step the observed munmaps must be exactly the mappings whose last owner just went away, with the exact (addr, len); a mapping made during a step that no resulting object owns (refused or abandoned construction) must be released again within the step with its exact extent; externally provided (build_raw) mappings are never unmapped; /proc/self/maps cross-check for named file mappings; reads through every live owner; Miri runs the same sequences on the allocation path (leak / double free / use-after-free); auxiliary compile-fail corpus for the static clause",
     rule="cases = owner histories. Enumerated completely: every drop order (4! = 24 each) of three owner shapes - insert/remove chain {M1{A,B}, M2=M1+C, M3=M2-A, handle(A)}, replaceable map {atomic, snapshot taken before a replacement, owned snapshot taken after it, clone of the first snapshot}, clones and shared Arcs {M1{A}, clone, handle(A), M3=from_arc_regions[A,B]} over anonymous, named-file and externally provided mappings. Random sequences of 6..30 steps: create 1..3 regions into a map, insert, remove (+keep handle), clone, GuestMemoryAtomic from clone, snapshot, into_inner, replace, drop of a random owner, and refused constructions of 9 kinds (file range past end-of-file, file offset overflow, unaligned file offset, MAP_FIXED, guest base + size beyond 2^64 [consumes an already mapped region], from_ranges with an overlapping range, from_regions with overlapping regions, from_ranges whose k-th mmap fails with an injected ENOMEM, insert_region of an overlapping last-reference Arc); each kind is also run 12 times on an empty world. 530 anonymous regions of 2 MiB + 4 KiB x i (kept alive, so that the placements sweep every offset within a 2 MiB frame, aligned ones included), then dropped one by one. All rules are stated on the NET effect of the mmap/munmap calls of a step (pieces of address space), not on the calls: an implementation may over-allocate and trim or release in several calls. distinct key = (shape, drop order), (step kind, owners alive) and (refused-construction kind, balanced?); all non-trivial",
     exhaustive_note="all 24 drop orders of each of the three owner shapes",
     assumptions=["the interposer sees every mmap/munmap issued through the libc crate (all of vm-memory's)", "the static clause ('must not compile') is not an execution: the compile-fail corpus (10 escaping programs with compiling twins) samples it and is reported separately under coverage.static_clause_corpus"],
     level_text="Event-log oracle over exhaustively enumerated drop orders and random owner histories, with Miri as leak/UAF oracle on the allocation path; held-on-observed. The static clause is only sampled by a compile-fail corpus.",
     level_note="Address reuse by the kernel is harmless because logs are judged after every single step.",
     design_ref="DESIGN.md §7 C12")


@plan("C12")
def plan_c12(tier, seed):
    if tier == "quick":
        runs = [Run("std-debug", "c12", ["seed=%d" % seed, "cases=1500"], timeout=600, crash_is_violation=True),
                Run("xen-debug", "c12", ["seed=%d" % seed, "cases=300"], timeout=600, crash_is_violation=True)]
        runs += shards("miri", "c12", 8, ["seed=%d" % seed, "cases=16", "maxsteps=10", "noenum"], timeout=900)
        runs.append(Run("miri", "c12", ["seed=%d" % seed, "cases=0"], timeout=900))
        return runs
    runs = shards("std-debug", "c12", 8, ["seed=%d" % seed, "cases=200000"], timeout=3400, crash_is_violation=True)
    runs += shards("std-release", "c12", 4, ["seed=%d" % (seed + 1), "cases=100000"], timeout=3400, crash_is_violation=True)
    runs += shards("xen-debug", "c12", 4, ["seed=%d" % (seed + 2), "cases=40000"], timeout=3400, crash_is_violation=True)
    runs += shards("miri", "c12", 16, ["seed=%d" % seed, "cases=1600", "maxsteps=14", "noenum"], timeout=3400)
    runs.append(Run("miri", "c12", ["seed=%d" % seed, "cases=0"], timeout=3400))
    return runs


def aux_c12(tier, seed):
    results, viols, inconc = core.compile_fail_corpus("std-debug")
    return ({"static_clause_corpus": {"programs": len(results), "results": results,
                                       "note": "auxiliary, outside the runtime-monitoring family: rustc verdicts on escaping-accessor programs and their non-escaping twins"}},
            viols, inconc)


AUX["C12"] = aux_c12
FLOORS["C12"] = {"drop_orders_enumerated": 72, "evaluations": 5000, "distinct_nontrivial": 100}

# ----------------------------------------------------------------------------------------------
prop("C06", level="exploration",
     title="Aligned 1/2/4/8-byte guest accesses are never torn",
     technique="three layered monitors: (1) cfg-guarded trace hook in the byte-copy helper - for every transfer the recorded primitive accesses must tile the transfer once, ascending, aligned to their width on both sides, and an aligned 1/2/4/8-byte transfer must be exactly one access of that width, never a bulk copy; complete grid over length x guest alignment x local alignment x entry point; (2) valgrind lackey memory trace of a probe binary: between marker stores exactly one machine access of width n to the guest location; (3) black-box writer/reader tearing detector; atomic store/load round trip and refusal of every misaligned offset",
     rule="cases = transfers. Hook grid (complete): n in 0..12 x guest address mod 8 x local address mod 8 x 29 entry points (write/read/write_slice/read_slice at slice, region and guest level; copy_from/copy_to<u8> on slices, on array refs and on array refs converted from slices; read_volatile_from(&[u8]), read_exact_volatile_from(Cursor), write_volatile_to(&mut [u8]), write_all_volatile_to(Vec); guest read_exact_volatile_from) + write_obj/read_obj of u8,u16,u32,u64,i32,usize at 8 guest alignments x 3 levels. Lackey: 35 entry points (every entry point of the hook grid, incl. the array-ref copy helpers called directly and on arrays converted from slices, the region- and guest-level buffer forms and all in-memory stream adapters, plus the whole-object and atomic forms) x {u8,u16,u32,u64} x 3 offsets on the release (quick) and debug+release (thorough) binaries. Tearing: u16/u32/u64 x {slice, region, guest} x 2*10^5 (quick) / 2*10^6 (thorough) reads each. Atomics: 6 types x 24 offsets x 3 orderings + guest level on an aligned base; 7 types x views whose base is skewed by 0..8 bytes (derived with offset / get_slice / split_at) x 16 offsets x 2 orderings for store, load and get_atomic_ref (acceptance must follow the alignment of the address; each batch runs in a forked child because a wrongly accepted misaligned reference aborts a checked build). Vec sinks whose spare capacity is smaller than the transfer (they must grow); local buffers that lie in the same memory directly below / directly above the guest bytes (ranges touch without overlapping). distinct key = (entry point, direction, n, guest mod 8, local mod 8, judged-single | tiling); all non-trivial",
     exhaustive_note="hook grid: every (n <= 12, guest mod 8, local mod 8) for every entry point that funnels into the copy helper",
     assumptions=["on x86-64 a single mov of width n is the observable; a change that keeps one machine access but drops `volatile` at the language level is observationally identical (stated in DESIGN.md §9)", "transfers that straddle two mappings and guest addresses whose host address is not aligned are not in the judged class", "whole-object forms: the local value's address is taken from the trace (it is naturally aligned by construction)"],
     level_text="Hook-level oracle over a completely enumerated alignment grid, cross-checked at machine level (lackey) and by a concurrent tearing detector; held-on-observed.",
     level_note="The hook sees what the helper decides; lackey sees what the binary does; neither can see the language-level `volatile` qualifier.",
     design_ref="DESIGN.md §7 C06")


@plan("C06")
def plan_c06(tier, seed):
    if tier == "quick":
        return [Run("std-debug", "c06", ["seed=%d" % seed, "tear=200000"], timeout=600, crash_is_violation=True),
                Run("std-release", "c06", ["seed=%d" % seed, "tear=400000"], timeout=600, crash_is_violation=True)]
    return [Run("std-debug", "c06", ["seed=%d" % seed, "tear=20000000", "sb=30000000"], timeout=3000, crash_is_violation=True),
            Run("std-release", "c06", ["seed=%d" % seed, "tear=60000000", "sb=100000000"], timeout=3000, crash_is_violation=True),
            Run("xen-debug", "c06", ["seed=%d" % seed, "tear=400000"], timeout=3000, crash_is_violation=True)]


def aux_c06(tier, seed):
    cov, viols, inc = {}, [], []
    for variant in (("std-release",) if tier == "quick" else ("std-release", "std-debug")):
        c, v, i = core.lackey_probe(variant)
        cov.update(c)
        viols += v
        inc += i
    return cov, viols, inc


AUX["C06"] = aux_c06
FLOORS["C06"] = {"judged_single_access_transfers": 3000, "tearing_reads": 1_000_000, "distinct_nontrivial": 10_000, "ordering_litmus_control_forbidden_outcomes": 1}

# ----------------------------------------------------------------------------------------------
prop("C08", level="model_checking",
     title="A dirty mark is never lost when marking races with harvesting the bitmap",
     technique="stateless model checking of the real code under a controlled scheduler: a cfg-guarded shim (hook H2) puts a yield point in front of every atomic operation on the bitmap words, exactly one managed thread runs between two yield points, and ALL interleavings of each catalogue program are executed (DFS over choice strings with prefix replay); each execution's API-boundary history is checked for per-page linearizability against a boolean with set / clear / test-and-clear / read plus a quiescent final read; seeded random schedules for larger programs; free-running threads natively, under TSan and under Miri many-seeds",
     rule="states = scheduler decision points, transitions = atomic steps granted; programs: 12 hand-written catalogue programs of 2..3 threads on pages that share one 64-bit word or span two (two markers + harvester, marker range vs harvester, markers + clone, marker spanning words, marker vs reset_range vs harvester, set_bit vs reset_bit, marker vs two harvesters, mark_dirty vs harvest vs is_bit_set, three markers, marker vs reset(), re-mark after harvest, range mark vs range reset) plus a systematic family of 44 programs (each of 8 operations X - reset_range, reset_bit, set_bit, mark_range, mark_dirty, harvest, reset(), wide reset_range - issued on an already dirty page while a second thread performs two further read-modify-writes on the same word, in 5 shapes: two marks, mark then harvest, harvest then mark, mark then unmark, same page twice; 4 three-thread variants with a marker and a harvester; and 20 programs that start from a value-dependent initial state set up before the threads run - the first word fully dirty, fully dirty but one page, two words fully dirty - with two harvesters, harvest vs reset+re-mark, harvest vs re-mark+harvest, reset()/reset_range/clone vs harvest+re-mark) - 14 LONG-range programs (a mark / reset / mark_dirty range over three words, 72 atomic steps, against one or two foreign steps in its first, last or an interior word) and 12 programs on a ten-word bitmap with the same bit position dirty in several words of one 8-word group (harvest / reset() / clone against a mark in the first, fifth or ninth word or a mark range across words) - every interleaving of each is executed (221 527 schedules); one random program in three also starts from a fully dirty word; random 3-thread programs of up to 12 calls under seeded PCT-style schedules; 2x10^3..10^5 free-running histories. An execution is non-trivial when two different threads touch the same word back-to-back",
     exhaustive_note="all interleavings (at the granularity of whole atomic operations, sequentially consistent) of the 90 catalogue programs",
     assumptions=["interleavings are explored at atomic-operation granularity under sequential consistency; weaker-than-SC effects are left to Miri's weak-memory emulation and TSan", "the linearizability checker (60 lines, brute force with memoisation, <= 24 operations per page) is trusted", "reset() is modelled as a per-page clear (it is documented as not harvesting)"],
     level_text="Exhaustive exploration of all interleavings of bounded concurrent programs executed on the real implementation (not a model), with a linearizability oracle per execution; sampling beyond the catalogue.",
     level_note="Bounded programs only; the yield points exist only in --cfg vm_memory_verif builds (the shim forwards to std's AtomicU64 with the caller's ordering).",
     cov_map={"states": ["scheduler_decision_points"], "transitions": ["decision_alternatives_seen"],
              "traces_validated_against_impl": ["schedules_explored", "sampled_schedules", "free_histories"]},
     design_ref="DESIGN.md §7 C08")


@plan("C08")
def plan_c08(tier, seed):
    if tier == "quick":
        runs = shards("std-debug", "c08", 12, ["mode=dfs", "seed=%d" % seed], timeout=900)
        runs.append(Run("std-debug", "c08", ["mode=sample", "seed=%d" % seed, "cases=3000"], timeout=600))
        runs.append(Run("std-release", "c08", ["mode=free", "seed=%d" % seed, "iters=20000"], timeout=600))
        runs.append(Run("miri", "c08", ["mode=free", "seed=%d" % seed, "iters=4"], timeout=2400, miri_flags="-Zmiri-many-seeds=0..16"))
        return runs
    runs = shards("std-debug", "c08", 12, ["mode=dfs", "seed=%d" % seed], timeout=3000)
    runs += shards("std-release", "c08", 12, ["mode=dfs", "seed=%d" % seed], timeout=3000)
    runs += shards("std-debug", "c08", 8, ["mode=sample", "seed=%d" % seed, "cases=200000"], timeout=3400)
    runs += shards("std-release", "c08", 4, ["mode=free", "seed=%d" % seed, "iters=400000"], timeout=3400)
    runs += shards("tsan", "c08", 4, ["mode=free", "seed=%d" % (seed + 1), "iters=200000"], timeout=3400)
    for rate in ("", " -Zmiri-preemption-rate=0.05", " -Zmiri-preemption-rate=0.2"):
        # (sized to finish in a few minutes on an idle machine; on a machine that also ran a mutation
        # round and the quick tier these three runs took ~55 min with 160 seeds x 8 histories)
        runs.append(Run("miri", "c08", ["mode=free", "seed=%d" % seed, "iters=6"], timeout=6000, miri_flags="-Zmiri-many-seeds=0..96" + rate))
    return runs


# (the number of schedules depends on how many atomic steps the implementation takes per operation:
# the floor that must hold is "every catalogue program was explored to the end"; the schedule
# counts are kept low enough that an implementation with fewer steps per range still passes)
FLOORS["C08"] = {"programs_exhausted": 145, "schedules_explored": 15_000, "schedules_with_cross_thread_contention_on_one_word": 5_000, "free_histories": 5000}

# ----------------------------------------------------------------------------------------------
prop("C11", level="exploration",
     title="A memory-map snapshot stays whole and usable while the map is being replaced",
     technique="event-log monitor with generation tags and a logical clock: every published map is {base region, tag region whose first/last bytes encode its generation}; in half of the histories the tag region's guest address encodes the generation too (each replacement changes the layout), in the other half every generation keeps the same layout and only the backing memory changes; readers stamp a clock before memory(), updaters after replace() returns; offline checks: whole (list and tag bytes agree on one generation), stable while held (guard, clone, into_inner, across replacements), real-time order, per-reader monotonicity, in-lock counter <= 1, final generation == completed replacements, Weak handles of replaced maps die exactly when unreferenced; sequential model check over several cloned handles, oversubscribed native stress, TSan, Miri many-seeds (preempts inside lock/replace/arc-swap)",
     rule="cases = histories. Sequential: 10..60 steps over 3 cloned handles (snapshot, owned snapshot, clone of snapshot, lock+replace deriving the next generation by remove+insert, a replacement issued from a destructor while the thread is unwinding from a panic (poisoned lock recovered the std way), lock+unlock, clone of a handle, clone_from between handles, further replaceable memories created from an owned snapshot, drop) and one history of 2^16 + 2^15 + 7 replacements alternating between two maps through two handles (checked after every single one), with a model of the current generation and of which generations must be alive. Stress: rounds of 24 readers x 200 snapshots + 8 updaters x 40 replacements (every third round all threads share ONE handle by reference, no clone alive) (Miri: 2+2 threads, 3/2 operations) with yields at the harness boundary. distinct key = (mode, reader action, replacements spanned while held, generation lag); non-trivial = the snapshot was held across >= 1 replacement or re-read",
     assumptions=["no hook inside src/atomic.rs / arc-swap: native runs sample schedules, the narrow windows inside replace()/lock() are reached by Miri's scheduler for small programs only", "tag bytes are written with atomic store(Release) before publishing and read with load(Acquire), so guest bytes are not a race for TSan"],
     level_text="Offline trace checks over sampled schedules (native oversubscription, TSan, Miri) plus a deterministic sequential model check; held-on-observed.",
     level_note="Schedules are sampled, not enumerated.",
     design_ref="DESIGN.md §7 C11")


@plan("C11")
def plan_c11(tier, seed):
    if tier == "quick":
        return [Run("std-debug", "c11", ["mode=all", "seed=%d" % seed, "cases=1500", "rounds=40"], timeout=600),
                Run("std-release", "c11", ["mode=stress", "seed=%d" % (seed + 1), "rounds=150"], timeout=600),
                Run("miri", "c11", ["mode=stress", "seed=%d" % seed, "rounds=1"], timeout=900, miri_flags="-Zmiri-many-seeds=0..16"),
                Run("miri", "c11", ["mode=seq", "seed=%d" % seed, "cases=3"], timeout=900)]
    runs = [Run("std-debug", "c11", ["mode=all", "seed=%d" % seed, "cases=100000", "rounds=2000"], timeout=3400)]
    runs += shards("std-release", "c11", 4, ["mode=stress", "seed=%d" % (seed + 1), "rounds=20000"], timeout=3400)
    runs.append(Run("tsan", "c11", ["mode=stress", "seed=%d" % (seed + 2), "rounds=2000"], timeout=3400))
    for rate in ("", " -Zmiri-preemption-rate=0.05", " -Zmiri-preemption-rate=0.2"):
        runs.append(Run("miri", "c11", ["mode=stress", "seed=%d" % seed, "rounds=1"], timeout=3400, miri_flags="-Zmiri-many-seeds=0..128" + rate))
    runs += shards("miri", "c11", 8, ["mode=seq", "seed=%d" % seed, "cases=64"], timeout=3400)
    return runs


FLOORS["C11"] = {"stress_events": 50_000, "snapshots_held_across_replacements": 1000, "distinct_nontrivial": 15}

# ----------------------------------------------------------------------------------------------
# Dimensions added to the workloads in round 6 of the mutation campaign (DESIGN.md §13); appended
# to the coverage rule text of the property whose monitor carries them.
_ROUND6 = {
    "C03": "big file-backed region: a write whose interior pages equal the current contents while only its first / last bytes differ.",
    "C04": "almost-zero transfers: lengths 4095..8199, 8 local x 8 guest misalignments: a buffer that is zero except one byte (each of its first 9 and last 17 positions) written over zero memory, and an all-zero buffer written over memory that is zero except one byte.",
    "C05": "regions whose bitmap object was enlarged or cloned before being handed to the region; the harvest litmus has a harness-side CONTROL (a marker that skips the read-modify-write when the bit reads as set) which must lose at least one write per run (coverage floor), otherwise the run is inconclusive.",
    "C06": "store-buffering ordering litmus on real threads (1.5 x 10^6 rounds): two threads each store through the sequentially consistent guest store and then load the other's location; both loads returning the old value is a violation; a harness-side CONTROL with Release/Acquire on plain atomics runs a third as many rounds and must show the forbidden outcome at least once (coverage floor), otherwise the run is inconclusive.",
    "C07": "guest memories with 17 regions (lowest above address 0) and 65 sparse regions up to the top of the address space.",
    "C08": "programs in which a mark completes a word (63 of 64 bits dirty at the start) against harvesters and resets.",
    "C09": "page-count thresholds 2^12, 2^16, 2^18, 2^18 + 64, 2^20: bitmaps created just below / at / above each and small marked bitmaps ENLARGED across it, followed by a full read-out.",
    "C10": "regions flagged as hugetlbfs-backed: removal with the size rounded up to 4 KiB / 2 MiB / 1 GiB must be refused like any other inexact size.",
    "C11": "a replacement whose new map describes the same guest ranges over the SAME host memory through fresh region objects (build_raw windows, fresh bitmaps): snapshots through every handle must show the new region objects.",
    "C12": "externally provided mappings in four states (read-write, PROT_NONE, read-only, shared file) x 11 descriptive flag words (locked, populate, huge pages, fixed, grows-down, none, all bits) x 4 descriptive protections x build_raw / builder routes: whatever the constructor answers, no munmap / MAP_FIXED mmap may touch the mapping, msync still finds it mapped and its /proc/self/maps permissions are unchanged.",
    "C13": "Vec<u8> sinks in capacity states (capacity 16 B .. 2 MiB around 1 MiB; spare room 0, < n, = n, > n).",
    "C14": "a real signal (handler without SA_RESTART, pthread_kill at the transferring thread) delivered while the thread is blocked between two fragments of an exact transfer on UnixStream, TcpStream, an OwnedFd of a socket and a pipe (reading), and while write_all blocks on a socket with a 4 KiB send buffer (writing); the handler-ran count is reported.",
    "C15": "a backing file that is descriptor 0 of the process.",
    "C18": "empty local buffers whose pointer lies at the start of, inside and at the end of the guest bytes they are 'copied' with.",
    "C19": "operands 2^k - d, 2^k, 2^k + d for every k in 0..64 and small d.",
    "C20": "clone_from over a partner holding a different value.",
}
for _pid, _txt in _ROUND6.items():
    META[_pid]["rule"] = META[_pid]["rule"].rstrip() + " Round-6 additions: " + _txt

# Dimensions added in round 7 of the mutation campaign (DESIGN.md §13)
_ROUND7 = {
    "C01": "caller-defined implementations of the safe extension trait AtomicAccess whose value type is narrower / wider than / as wide as the atomic it is accessed through (u8 through AtomicU64, u16 through AtomicU32, u64 through AtomicU8): at slice, region and guest level the access must fit the parent and be aligned FOR THE ATOMIC, and nothing beyond the parent (region tail, next region, canaries) may change.",
    "C02": "region COUNTS around 2^16 (65 535, 65 536, 65 537, 65 600 regions in adjacent pairs separated by holes): every query at addresses around regions with small, middle and >= 2^16 indices, the last 80 regions, 200 random ones, and on a collection derived by removing a high-index region.",
    "C03": "every 16th mmap-backed history ends with a fork(): the child, holding the same memory object, re-reads every region through read, write_all_volatile_to, read_obj and get_slice.copy_to and compares with the model.",
    "C04": "HOST-address bits above 31: a container straddling an address whose low 32 bits are zero, lengths 1..17, 24, 33, local buffer ordinary / exactly 4 GiB above / 4 GiB +- 8 above; write, read, write_slice, write_obj/read_obj/load/get_ref of every width, compared through raw reads.",
    "C06": "the hook grid is repeated with the guest bytes straddling an address whose low 32 bits are zero and the local buffer exactly 4 GiB (+-8, +1) above them (equal modulo 2^32 yet disjoint).",
    "C08": "40 programs in which a range mark / mark_dirty / reset starts inside a 70-, 100- or 130-page bitmap (page count not a multiple of 64) and ends beyond it (by 1000 pages, up to usize::MAX) against harvests and clones: no result may show a page at or beyond the page count. Coverage floors are on programs explored to the end; the schedule-count floors are deliberately low, because the number of schedules depends on how many atomic steps the implementation takes.",
    "C09": "bitmaps of 2^32-64, 2^32, 2^32+64 and 2^33 pages with EVERY page dirty at once (marked by 16 threads), harvested once: all pages reported, nothing left, in the release build and in the release build with overflow checks.",
    "C10": "six regions that alias one another in host memory (raw windows over one mapping: same host address behind several guest addresses, nested, overlapping): every single removal, every second removal and re-insertion in the other order compared with the set model by guest range and region-object identity.",
    "C11": "lock identity: after a.clone_from(&b) / b.clone_into(&mut a) (a having belonged to another memory) an updater holding the lock through one handle keeps an updater asking through the other outside (probe in both directions, the asker records whether the holder was still inside), and 600 counter-style replacements through both handles from four threads lose nothing.",
    "C13": "adapters the library MAY provide: for 9 std sink types in 13 start states and 10 std source types (Cursor<Vec<u8>>, Cursor<Box<[u8]>>, Cursor<[u8; N]>, VecDeque<u8>, Sink, Empty, Repeat, Take, Chain, BufReader, BufWriter, LineWriter, Box<..>) the harness detects at compile time whether ReadVolatile / WriteVolatile is implemented and, if so, drives it side by side with std over four call scripts and compares results, bytes and final state (positions, contents).",
    "C14": "the scripted-stream enumeration is repeated with the library built WITHOUT its default `rawfd` feature (build variant std-debug-norawfd).",
    "C15": "Xen build: guest base + size against 2^64 for every mapping type (unix anonymous / file, foreign, grant on demand, grant in advance) x 3 sizes x 7 distances.",
    "C16": "typed copy_from into a window whose length is not a multiple of the element size (or shorter than one element) from a buffer holding more elements than fit.",
    "C17": "three on-demand grant regions of three different domains in one guest memory accessed alternately from one thread with windows of equal and different sizes: every map request must name the domain and pages of the region touched.",
    "C18": "the Stdout sink in the states a long-running process leaves it in (unfinished line pending in std's buffer, reader of descriptor 1 gone, both): 7 zero-count entry points each return Ok and emit nothing on the descriptor (forked child with descriptor 1 on a pipe).",
    "C20": "the monitor is also interpreted by Miri for a BIG-ENDIAN target (s390x-unknown-linux-gnu, sysroot built offline from rust-src) and for the host, on a thinned-out value set, including a varied first operation.",
}
for _pid, _txt in _ROUND7.items():
    META[_pid]["rule"] = META[_pid]["rule"].rstrip() + " Round-7 additions: " + _txt

# Dimensions added in round 8 of the mutation campaign (DESIGN.md §13)
_ROUND8 = {
    "C01": "caller-defined ByteValued types aligned to 16, 64, 4096 and 8192 bytes (beyond a page) and u128, through aligned_as_ref / aligned_as_mut / get_ref directly on an MmapRegion whose base is a chosen multiple of 4 KiB (region base % 64 KiB = 0, 4 K, 8 K, 12 K) and on its slices; a caller-defined AtomicInteger of 16 bytes aligned to 16 (value type u64) through get_atomic_ref / store / load - in a forked child, so that an abort inside the library is an observation.",
    "C02": "maps of 9..257 regions whose START addresses are equally spaced while the last region is longer than the spacing.",
    "C03": "one memory object shared by reference between six threads, each doing 500 000 verified accesses (write, read, write_obj, read_obj, address queries) in its own region.",
    "C04": "zero-sized element types ([u8;0], [u64;0], [u128;0]) with element counts 0 .. usize::MAX through slice-level and array-level copy_to / copy_from (forked child with a CPU limit): the count reported is the buffer length (slice level) or min(buffer, array length).",
    "C05": "where the bitmap is (or wraps) an AtomicBitmap the marked set is read by PAGE INDEX (is_bit_set) and must agree with the address-based view; weak-memory litmus under Miri (32 / 576 seeds): a tracked 8-byte write whose pages span two bitmap words against a harvester that reads the bytes of every page it found dirty.",
    "C06": "a caller-defined 16-byte atomic aligned to 16: every misaligned offset refused, every aligned fitting one accepted, at slice, region and guest level (forked child).",
    "C07": "four short HISTORIES in the call table: lookup, hot-unplug of an exact region (also after touching that region's last byte, also with guest-chosen base/size) or hot-plug at a guest-chosen base, then lookups and accesses in the resulting map.",
    "C08": "free-running threads on tiny bitmaps (2..6 pages): 8000 racing set_bit / reset_bit / get_and_reset calls followed, without any harvest or reset in between, by a SEQUENTIAL epilogue that marks every page, reads every page, harvests and reads again.",
    "C09": "in builds with overflow checks: an enlarge whose new byte size overflows usize (8 shapes, page sizes 1 .. 2^62) panics; after catching the panic the bitmap must be the set it was (page count, byte size, marks) for all later operations including a later valid enlarge.",
    "C11": "1.5 million handles cloned while another thread replaces the map continuously (keeping the last 8 maps alive); holding the update lock, the fresh handle and the original must show the same map.",
    "C12": "a caller-defined NewBitmap whose constructor panics for the k-th region of from_ranges / for from_range with and without a backing file: after the unwinding nothing the construction mapped is left.",
    "C13": "Xen build: File / UnixStream / OwnedFd adapters reading into and writing from buffers that live in an on-demand grant region (6 offset/length shapes incl. page-crossing and 5000 bytes), compared with std on ordinary buffers; no window left mapped.",
    "C14": "forwarding implementations the library may provide (&mut S, Box<S> for a caller stream S): detected at compile time; where provided, all 2-step scripts x 4 targets x 2 entries x 3 counts run through them under the same oracle.",
    "C15": "the builder used step by step with the file length changed (shrunk / grown / same) between with_file_offset() and build(), three call orders: the verdict follows the file as it is at build().",
    "C17": "a pointer guard kept alive while its region (or the whole guest memory) is dropped, the region holding the last handle of the device file: window still mapped and readable while the guard lives, released through the device when it is dropped, no panic.",
    "C18": "idle descriptors as streams of zero-count transfers: non-blocking and receive-timeout Unix stream sockets, a non-blocking TCP stream, a file at EOF - Ok without waiting, nothing consumed or sent.",
    "C19": "a fifth build: release code generated for the build host's full instruction set (-Ctarget-cpu=native).",
    "C20": "two further interpreted hosts: powerpc64le (quick and thorough) and aarch64 (thorough).",
}
for _pid, _txt in _ROUND8.items():
    META[_pid]["rule"] = META[_pid]["rule"].rstrip() + " Round-8 additions: " + _txt

# properties that are (currently) not claimed, with the reason recorded in MANIFEST.json
NOT_CLAIMED = {}
