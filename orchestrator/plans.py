"""Per-property plans: which monitors run in which build variant at which tier, the coverage rule
text, the claimed level and the assumptions. MANIFEST.json is generated from META (tools/gen_manifest.py)."""
from .core import Run

META = {}
PLANS = {}
FLOORS = {}


def prop(pid, **kw):
    META[pid] = kw


def plan(pid):
    def deco(f):
        PLANS[pid] = f
        return f
    return deco


def shards(variant, monitor, n, args, **kw):
    return [Run(variant, monitor, args + ["shard=%d/%d" % (i, n)], **kw) for i in range(n)]


# ----------------------------------------------------------------------------------------------
prop("C19", level="exploration",
     title="Address arithmetic reports overflow instead of wrapping",
     technique="reference-model monitor: every checked/overflowing/align/bit/order operation of GuestAddress and MemoryRegionAddress compared with exact 128-bit arithmetic over an enumerated boundary cross product plus random 64-bit operands, in overflow-checked and unchecked builds",
     rule="cases = (address type, operation, a, b) with a,b from the complete cross product of {0..16, 2^32+-16, 2^63+-16, 2^64-16..2^64-1} (99x99 pairs x 2 types), all 64 power-of-two alignments for each operand, plus seeded random 64-bit pairs (uniform, near-equal, near-complement, shifted); distinct key = (type, operation, boundary class of a, boundary class of b, outcome some/none/fit/wrap) and for align (type, class of a, k, outcome); all keys are non-trivial (each involves a boundary class or an outcome class)",
     exhaustive_note="the 99x99 boundary cross product and all 64 alignments per operand are enumerated completely; the 64-bit space itself is sampled",
     assumptions=["u128/i128 arithmetic of rustc is the trusted oracle", "unchecked_* helpers are only judged where the exact result fits (documented to follow Rust overflow behaviour otherwise)"],
     level_text="Runtime oracle over an exhaustively enumerated boundary grid plus ~10^6 (quick) / 10^8 (thorough) random operand pairs in two build profiles; held-on-observed, not a proof over all 2^128 pairs.",
     level_note="Trusts rustc's 128-bit integer arithmetic and the harness generators; the unchecked_* forms are judged only when the exact result fits.",
     design_ref="DESIGN.md §7 C19")


@plan("C19")
def plan_c19(tier, seed):
    n = 1_000_000 if tier == "quick" else 40_000_000
    runs = []
    for v in ("std-debug", "std-release"):
        if tier == "quick":
            runs.append(Run(v, "c19", ["seed=%d" % seed, "random=%d" % n], timeout=300))
        else:
            for i in range(8):
                runs.append(Run(v, "c19", ["seed=%d" % (seed * 1000 + i), "random=%d" % (n // 8)], timeout=1200))
    return runs


FLOORS["C19"] = {"evaluations": 500_000, "distinct_nontrivial": 500}

# ----------------------------------------------------------------------------------------------
prop("C20", level="exploration",
     title="Endian-tagged integers keep their declared byte order for every value",
     technique="reference-model monitor: wrapper conversions, in-memory bytes, equality and guest-memory wire format compared with std to_le_bytes/to_be_bytes; 16-bit types exhaustive, 32-bit exhaustive in the thorough tier, 64-bit structured + random",
     rule="cases = (wrapper, value, comparison partner) ; 16-bit wrappers: all 2^16 values x 5 partners (exhaustive); 32-bit: 2^24 structured + random (quick) / all 2^32 (thorough); 64-bit/size: every value with <=2 distinct byte values for 8 byte pairs, walking ones/zeros, byte position markers, palindromes + seeded random; memory-level write_obj/read_obj checks at unaligned offsets in a VolatileSlice and a GuestMemoryMmap; distinct key = (width, value pattern class / high byte / byte value at position, symmetric-under-byteswap?) - a key is non-trivial because each names a byte pattern whose byte order is observable",
     exhaustive_note="Le16/Be16: all 65536 values in every tier; Le32/Be32: all 2^32 values in the thorough tier",
     assumptions=["std's to_le_bytes/to_be_bytes define the wire format", "host is little-endian x86-64 (the big-endian host half of 'regardless of the host' cannot be executed here)"],
     level_text="Exhaustive for the 16-bit wrappers, exhaustive for the 32-bit wrappers in the thorough tier, structured+random sampling for 64-bit and pointer-sized wrappers; held-on-observed.",
     level_note="Oracle is std's byte-order conversion on this little-endian host; a big-endian host cannot be run in this sandbox.",
     design_ref="DESIGN.md §7 C20")


@plan("C20")
def plan_c20(tier, seed):
    if tier == "quick":
        return [Run("std-release", "c20", ["seed=%d" % seed, "tier=quick"], timeout=300),
                Run("std-debug", "c20", ["seed=%d" % seed, "tier=quick", "random32=200000", "random64=300000"], timeout=300)]
    return [Run("std-release", "c20", ["seed=%d" % seed, "tier=thorough"], timeout=3000),
            Run("std-debug", "c20", ["seed=%d" % seed, "tier=quick"], timeout=900)]


FLOORS["C20"] = {"evaluations": 10_000_000, "distinct_nontrivial": 1000}

# properties that are (currently) not claimed, with the reason recorded in MANIFEST.json
NOT_CLAIMED = {}
