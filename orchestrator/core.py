"""Orchestrator core: builds harness variants from /repo's working tree, runs monitors as child
processes under watchdogs, classifies their output three-valued, matches known findings,
assembles the evidence file."""
import fcntl
import hashlib
import json
import os
import re
import shutil
import signal
import subprocess
import sys
import threading
import time
from concurrent.futures import ThreadPoolExecutor

VERIF = os.path.dirname(os.path.dirname(os.path.abspath(__file__)))
HARNESS = os.path.join(VERIF, "harness")
BUILD = os.path.join(VERIF, ".build")
REPLAYS = os.path.join(VERIF, "replays")
EVIDENCE = os.path.join(VERIF, "evidence")
REPO = "/repo"

# Development aid (mutation campaign): VERIF_REPO=<scratch worktree> runs the same checks against
# another checkout of the library without touching /repo, /verif/evidence or the regular build
# directories. The registered commands never set it.
_ALT = os.environ.get("VERIF_REPO")
if _ALT and os.path.abspath(_ALT) != "/repo":
    REPO = os.path.abspath(_ALT)
    # VERIF_HARNESS_SRC=<dir with src/ and compile_fail/>: use a frozen copy of the harness sources
    # (e.g. a git worktree of an earlier /verif commit) instead of the live ones
    _src_root = os.path.abspath(os.environ.get("VERIF_HARNESS_SRC", HARNESS))
    _tag = "alt-" + hashlib.sha1((REPO + "|" + (_src_root if _src_root != HARNESS else "")).encode()).hexdigest()[:8]
    BUILD = os.path.join(VERIF, ".build", _tag)
    _h = os.path.join(BUILD, "harness")
    os.makedirs(_h, exist_ok=True)
    with open(os.path.join(HARNESS, "Cargo.toml")) as _f:
        _toml = _f.read().replace('path = "/repo"', 'path = "%s"' % REPO)
    if not os.path.exists(os.path.join(_h, "Cargo.toml")) or open(os.path.join(_h, "Cargo.toml")).read() != _toml:
        with open(os.path.join(_h, "Cargo.toml"), "w") as _f:
            _f.write(_toml)
    for _n in ("src", "compile_fail"):
        _l = os.path.join(_h, _n)
        if not os.path.islink(_l):
            os.symlink(os.path.join(_src_root, _n), _l)
    if not os.path.exists(os.path.join(_h, "Cargo.lock")):
        shutil.copy(os.path.join(HARNESS, "Cargo.lock"), os.path.join(_h, "Cargo.lock"))
    HARNESS = _h
    REPLAYS = os.path.join(BUILD, "replays")
    EVIDENCE = os.path.join(BUILD, "evidence")
GUARD = "--cfg vm_memory_verif"
TARGET = "x86_64-unknown-linux-gnu"

ENV_BASE = dict(os.environ)
ENV_BASE.update({"CARGO_NET_OFFLINE": "true", "CARGO_TERM_COLOR": "never"})

# name -> spec
VARIANTS = {
    "std-debug": dict(toolchain=None, profile="dev", features="interpose", rustflags=GUARD),
    "std-release": dict(toolchain=None, profile="release", features="interpose", rustflags=GUARD),
    # the two "mixed" configurations of (debug assertions, overflow checks)
    "std-release-ovf": dict(toolchain=None, profile="release", features="interpose", rustflags=GUARD + " -Coverflow-checks=on"),
    "std-debug-wrap": dict(toolchain=None, profile="dev", features="interpose", rustflags=GUARD + " -Coverflow-checks=off"),
    # the library built WITHOUT its default `rawfd` feature (only the monitors that need no file /
    # socket adapters are compiled in: c14's scripted streams)
    "std-debug-norawfd": dict(toolchain=None, profile="dev", features="interpose", no_default_features=True, rustflags=GUARD),
    # code generation for the build host's full instruction set (BMI, AVX, ... where present):
    # target-feature dependent code paths (cfg(target_feature), intrinsics) are compiled in
    "std-release-native": dict(toolchain=None, profile="release", features="interpose", rustflags=GUARD + " -Ctarget-cpu=native"),
    "xen-debug": dict(toolchain=None, profile="dev", features="xen,interpose", rustflags=GUARD),
    "xen-release": dict(toolchain=None, profile="release", features="xen,interpose", rustflags=GUARD),
    "asan": dict(toolchain="nightly", profile="dev", features="", target=TARGET,
                 rustflags=GUARD + " -Zsanitizer=address -Cforce-frame-pointers=yes"),
    "tsan": dict(toolchain="nightly", profile="release", features="", target=TARGET, build_std=True,
                 rustflags=GUARD + " -Zsanitizer=thread"),
    "miri": dict(toolchain="nightly", profile="dev", features="", miri=True, rustflags=GUARD),
    # a BIG-ENDIAN host: Miri interpreting the s390x build (the sysroot is built offline from rust-src)
    "miri-be": dict(toolchain="nightly", profile="dev", features="", miri=True, target="s390x-unknown-linux-gnu", rustflags=GUARD),
    # further supported architectures as hosts: powerpc64le (little-endian member of an architecture
    # family that is otherwise big-endian) and aarch64
    "miri-ppc64le": dict(toolchain="nightly", profile="dev", features="", miri=True, target="powerpc64le-unknown-linux-gnu", rustflags=GUARD),
    "miri-aarch64": dict(toolchain="nightly", profile="dev", features="", miri=True, target="aarch64-unknown-linux-gnu", rustflags=GUARD),
}


def log(msg):
    sys.stderr.write(msg + "\n")
    sys.stderr.flush()


class Inconclusive(Exception):
    pass


def variant_dir(v):
    return os.path.join(BUILD, v)


def bin_path(v):
    spec = VARIANTS[v]
    prof = "release" if spec["profile"] == "release" else "debug"
    d = variant_dir(v)
    if spec.get("target"):
        d = os.path.join(d, spec["target"])
    return os.path.join(d, prof, "vmv")


def cargo_cmd(v, sub):
    spec = VARIANTS[v]
    cmd = ["cargo"]
    if spec.get("toolchain"):
        cmd.append("+" + spec["toolchain"])
    cmd += sub
    cmd += ["--offline", "--manifest-path", os.path.join(HARNESS, "Cargo.toml"),
            "--target-dir", variant_dir(v)]
    if spec["profile"] == "release":
        cmd.append("--release")
    if spec.get("no_default_features"):
        cmd.append("--no-default-features")
    if spec.get("features"):
        cmd += ["--features", spec["features"]]
    if spec.get("target"):
        cmd += ["--target", spec["target"]]
    if spec.get("build_std"):
        cmd += ["-Zbuild-std"]
    return cmd


def variant_env(v, extra=None):
    env = dict(ENV_BASE)
    env["RUSTFLAGS"] = VARIANTS[v]["rustflags"]
    if extra:
        env.update(extra)
    return env


_built = {}
_built_lock = threading.Lock()


def build(v):
    """Build variant v from /repo's current working tree (incremental). Raises Inconclusive."""
    with _built_lock:
        if v in _built:
            if _built[v] is not True:
                raise Inconclusive(_built[v])
            return
    os.makedirs(BUILD, exist_ok=True)
    lockf = open(os.path.join(BUILD, v + ".lock"), "w")
    fcntl.flock(lockf, fcntl.LOCK_EX)
    try:
        spec = VARIANTS[v]
        t0 = time.time()
        if spec.get("miri"):
            cmd = cargo_cmd(v, ["miri", "build"]) if False else None
            # `cargo miri run` builds on demand; do a cheap setup/build pass so that parallel
            # shards do not all compile at once.
            cmd = cargo_cmd(v, ["miri", "run"]) + ["--", "noop"]
            env = variant_env(v, {"MIRIFLAGS": "-Zmiri-disable-isolation"})
        else:
            cmd = cargo_cmd(v, ["build"])
            env = variant_env(v)
        p = subprocess.run(cmd, env=env, stdout=subprocess.PIPE, stderr=subprocess.STDOUT,
                           text=True, timeout=1800)
        if p.returncode != 0:
            tail = "\n".join(p.stdout.splitlines()[-40:])
            msg = "build of variant %s failed (exit %d):\n%s" % (v, p.returncode, tail)
            with _built_lock:
                _built[v] = msg
            raise Inconclusive(msg)
        log("[build] %s ok in %.1fs" % (v, time.time() - t0))
        with _built_lock:
            _built[v] = True
    except subprocess.TimeoutExpired:
        msg = "build of variant %s timed out" % v
        with _built_lock:
            _built[v] = msg
        raise Inconclusive(msg)
    finally:
        fcntl.flock(lockf, fcntl.LOCK_UN)
        lockf.close()


class Run:
    """One monitor process."""

    def __init__(self, variant, monitor, args=None, timeout=600, miri_flags=None, tool=None,
                 env=None, label=None, crash_is_violation=False, expect_done=True):
        self.variant = variant
        self.monitor = monitor
        self.args = list(args or [])
        self.timeout = timeout
        self.miri_flags = miri_flags
        self.tool = tool  # None | "memcheck" | "lackey"
        self.env = env or {}
        self.label = label or ("%s:%s %s" % (variant, monitor, " ".join(self.args)))
        self.crash_is_violation = crash_is_violation
        self.expect_done = expect_done
        # results
        self.rc = None
        self.stats = []
        self.viols = []
        self.notes = []
        self.samples = []
        self.keys = set()
        self.last_case = None
        self.done = False
        self.timed_out = False
        self.stderr_tail = ""
        self.wall = 0.0
        self.sanitizer_reports = []
        self.raw_stdout_path = None

    def command(self):
        if VARIANTS[self.variant].get("miri"):
            return cargo_cmd(self.variant, ["miri", "run"]) + ["--", self.monitor] + self.args
        exe = bin_path(self.variant)
        base = [exe, self.monitor] + self.args
        if self.tool == "memcheck":
            return ["valgrind", "--tool=memcheck", "--error-exitcode=97", "--quiet",
                    "--leak-check=no", "--track-origins=no"] + base
        return base

    def environment(self):
        env = variant_env(self.variant, self.env)
        if VARIANTS[self.variant].get("miri"):
            flags = "-Zmiri-disable-isolation"
            if self.miri_flags:
                flags += " " + self.miri_flags
            env["MIRIFLAGS"] = flags
        if self.variant == "asan":
            env.setdefault("ASAN_OPTIONS", "halt_on_error=1:abort_on_error=1:detect_leaks=0")
            env.setdefault("VMV_ARENA", "heap")
        if self.variant == "tsan":
            env.setdefault("TSAN_OPTIONS", "halt_on_error=1:exitcode=66")
        env.setdefault("RUST_BACKTRACE", "0")
        return env

    def execute(self):
        t0 = time.time()
        cmd = self.command()
        try:
            p = subprocess.Popen(cmd, env=self.environment(), stdout=subprocess.PIPE,
                                 stderr=subprocess.PIPE, text=True, errors="replace",
                                 cwd=HARNESS, start_new_session=True)
        except OSError as e:
            self.rc = -999
            self.stderr_tail = "cannot start: %s" % e
            return self
        err_chunks = []

        def drain_err():
            for ln in p.stderr:
                err_chunks.append(ln)
                if len(err_chunks) > 4000:
                    del err_chunks[:2000]

        te = threading.Thread(target=drain_err, daemon=True)
        te.start()

        def kill():
            self.timed_out = True
            try:
                os.killpg(p.pid, signal.SIGKILL)
            except OSError:
                pass

        timer = threading.Timer(self.timeout, kill)
        timer.start()
        try:
            for ln in p.stdout:
                self.parse_line(ln.rstrip("\n"))
        finally:
            p.wait()
            timer.cancel()
            te.join(timeout=5)
        self.rc = p.returncode
        self.wall = time.time() - t0
        err = "".join(err_chunks)
        self.stderr_tail = "\n".join(err.splitlines()[-60:])
        self.scan_sanitizers(err)
        return self

    def parse_line(self, ln):
        if ln.startswith("CASE "):
            self.last_case = ln[5:]
        elif ln.startswith("VIOL "):
            try:
                self.viols.append(json.loads(ln[5:]))
            except ValueError:
                self.viols.append({"sig": "unparsable", "detail": ln[5:300]})
        elif ln.startswith("NOTE "):
            try:
                self.notes.append(json.loads(ln[5:]))
            except ValueError:
                pass
        elif ln.startswith("STAT "):
            try:
                self.stats.append(json.loads(ln[5:]))
            except ValueError:
                pass
        elif ln.startswith("SAMPLE "):
            try:
                self.samples.append(json.loads(ln[7:]))
            except ValueError:
                pass
        elif ln.startswith("KEYS"):
            for k in ln.split()[1:]:
                self.keys.add(self.monitor + ":" + k)
        elif ln == "DONE":
            self.done = True

    def scan_sanitizers(self, err):
        # Miri
        for m in re.finditer(r"^error: (Undefined Behavior|unsupported operation|memory leaked|"
                             r"the evaluated program (?:leaked|deadlocked|aborted)|abnormal termination|"
                             r"post-monomorphization error|.*[Dd]ata race)[^\n]*", err, re.M):
            line = m.group(0)
            # find first in-repo frame after it
            tail = err[m.end():m.end() + 6000]
            fr = re.search(r"(" + re.escape(REPO) + r"/src/[\w/]+\.rs):(\d+)", tail)
            hf = re.search(r"(src/[\w/]+\.rs):(\d+)", tail)
            where = fr.group(1).replace(REPO + "/", "") if fr else (hf.group(1) if hf else "?")
            self.sanitizer_reports.append(dict(tool="miri", what=re.sub(r"alloc\d+|0x[0-9a-f]+|\d+", "N", line)[:200],
                                               where=where, raw=line[:400]))
        # ASan / TSan
        for m in re.finditer(r"ERROR: AddressSanitizer: ([\w-]+)", err):
            tail = err[m.end():m.end() + 8000]
            fr = re.search(r"(" + re.escape(REPO) + r"/src/[\w/]+\.rs):(\d+)", tail)
            self.sanitizer_reports.append(dict(tool="asan", what=m.group(1),
                                               where=fr.group(1).replace(REPO + "/", "") if fr else "?",
                                               raw=m.group(0)))
        for m in re.finditer(r"WARNING: ThreadSanitizer: ([\w -]+)", err):
            tail = err[m.end():m.end() + 8000]
            fr = re.search(r"(" + re.escape(REPO) + r"/src/[\w/]+\.rs):(\d+)", tail)
            self.sanitizer_reports.append(dict(tool="tsan", what=m.group(1).strip(),
                                               where=fr.group(1).replace(REPO + "/", "") if fr else "?",
                                               raw=m.group(0)))
        if self.tool == "memcheck":
            for m in re.finditer(r"==\d+== (Invalid (?:read|write) of size \d+|Conditional jump or move depends on uninitialised|"
                                 r"Use of uninitialised value|Syscall param [^\n]* uninitialised)", err):
                self.sanitizer_reports.append(dict(tool="memcheck", what=re.sub(r"\d+", "N", m.group(1)), where="?", raw=m.group(0)))


def run_all(runs, jobs=16):
    # build first (serially per variant, distinct variants in parallel)
    variants = sorted(set(r.variant for r in runs))
    with ThreadPoolExecutor(max_workers=max(1, min(4, len(variants)))) as ex:
        futs = {v: ex.submit(build, v) for v in variants}
        errs = []
        for v, f in futs.items():
            try:
                f.result()
            except Inconclusive as e:
                errs.append(str(e))
        if errs:
            raise Inconclusive("; ".join(errs))
    with ThreadPoolExecutor(max_workers=jobs) as ex:
        list(ex.map(lambda r: r.execute(), runs))
    return runs


def load_known():
    p = os.path.join(VERIF, "known_findings.json")
    if not os.path.exists(p):
        return []
    with open(p) as f:
        return json.load(f).get("findings", [])


def sig_matches(pattern, sig):
    return pattern == sig


def write_replay(prop, idx, run, viol):
    os.makedirs(REPLAYS, exist_ok=True)
    path = os.path.join(REPLAYS, "%s-%d.json" % (prop, idx))
    args = [a for a in run.args if not a.startswith("only=")]
    case = viol.get("case")
    rep = dict(property=prop, variant=run.variant, monitor=run.monitor, args=args, case=case,
               tool=run.tool, miri_flags=run.miri_flags, signature=viol.get("sig"),
               detail=viol.get("detail"), command=" ".join(run.command()))
    with open(path, "w") as f:
        json.dump(rep, f, indent=1)
    return path


class PseudoRun:
    """Stands for an auxiliary (non-monitor) step in violation reports."""

    def __init__(self, label):
        self.label = label
        self.variant = "aux"
        self.monitor = label
        self.args = []
        self.tool = None
        self.miri_flags = None

    def command(self):
        return [self.label]


def judge(prop, tier, seed, runs, meta, t0, floors=None, extra_cov=None, extra_viols=None, extra_inconclusive=None):
    """Assemble verdict + evidence. Returns exit code."""
    known = [k for k in load_known() if k.get("property") == prop]
    violations = []   # (sig, run, viol)
    inconclusive = list(extra_inconclusive or [])
    for ev in (extra_viols or []):
        violations.append((ev["sig"], PseudoRun("auxiliary-step"), ev))
    foreign = 0
    for r in runs:
        for v in r.viols:
            # a monitor may serve two properties (C05/C16): only signatures of this property count
            if not str(v.get("sig", "")).startswith(prop + "/"):
                foreign += 1
                continue
            violations.append((v.get("sig", "?"), r, v))
        for s in r.sanitizer_reports:
            sig = "%s/%s/%s/%s" % (prop, s["tool"], s["what"], s["where"])
            violations.append((sig, r, dict(sig=sig, case=None, detail=s)))
        if r.timed_out:
            inconclusive.append("watchdog fired for %s after %ds (last case: %s)" % (r.label, r.timeout, (r.last_case or "")[:200]))
            continue
        crashed = r.rc is not None and r.rc != 0 and not r.done
        if crashed and not r.sanitizer_reports:
            signame = ""
            if r.rc < 0:
                try:
                    signame = signal.Signals(-r.rc).name
                except ValueError:
                    signame = "SIG%d" % -r.rc
            if r.crash_is_violation and r.rc < 0 and signame in ("SIGSEGV", "SIGBUS", "SIGABRT", "SIGFPE", "SIGILL"):
                op = ""
                try:
                    lc = r.last_case or ""
                    j = json.loads(lc.split(" ", 1)[1]) if " " in lc else {}
                    op = j.get("op", "") if isinstance(j, dict) else ""
                except ValueError:
                    pass
                sig = "%s/crash/%s/%s/%s" % (prop, signame, r.monitor, op)
                case = None
                try:
                    case = int((r.last_case or "").split(" ", 1)[0])
                except ValueError:
                    pass
                violations.append((sig, r, dict(sig=sig, case=case, detail=dict(last_case=r.last_case, stderr=r.stderr_tail[-600:]))))
            else:
                inconclusive.append("%s ended abnormally (rc=%s %s) without a verdict; stderr tail: %s" % (r.label, r.rc, signame, r.stderr_tail[-800:]))
        elif r.expect_done and not r.done and not r.sanitizer_reports:
            inconclusive.append("%s produced no DONE marker (rc=%s); stderr tail: %s" % (r.label, r.rc, r.stderr_tail[-800:]))

    # coverage aggregation
    evaluations = 0
    keys = set()
    per_monitor = {}
    samples = []
    notes = {}
    for r in runs:
        keys |= r.keys
        for s in r.stats:
            evaluations += int(s.get("evaluations", 0))
            pm = per_monitor.setdefault(r.variant + ":" + r.monitor + (":" + r.tool if r.tool else ""), dict(evaluations=0, counters={}, processes=0, key_examples=[]))
            pm["evaluations"] += int(s.get("evaluations", 0))
            pm["processes"] += 1
            for k, v in (s.get("counters") or {}).items():
                try:
                    v = int(v)
                except (TypeError, ValueError):
                    continue
                if k.startswith("max_"):
                    pm["counters"][k] = max(pm["counters"].get(k, v), v)
                else:
                    pm["counters"][k] = pm["counters"].get(k, 0) + v
            for k, v in (s.get("notes") or {}).items():
                notes[k] = notes.get(k, 0) + int(v)
            if not pm["key_examples"]:
                pm["key_examples"] = (s.get("key_examples") or [])[:12]
        for sm in r.samples:
            if len(samples) < 10:
                samples.append(sm)

    # coverage floors: a run that observed too little is inconclusive
    floors = floors or {}
    for name, minimum in floors.items():
        have = 0
        if name == "evaluations":
            have = evaluations
        elif name == "distinct_nontrivial":
            have = len(keys)
        else:
            for pm in per_monitor.values():
                have += pm["counters"].get(name, 0)
        if have < minimum:
            inconclusive.append("coverage floor not reached: %s = %d < %d" % (name, have, minimum))

    # known-finding matching
    out_lines = []
    kf_hit = {}
    new_viol = []
    for sig, r, v in violations:
        matched = None
        for k in known:
            if k.get("status") == "known" and sig_matches(k["signature"], sig):
                matched = k
                break
        if matched:
            kf_hit.setdefault(matched["signature"], [matched, 0])[1] += 1
        else:
            new_viol.append((sig, r, v))
    for sigk, (k, n) in sorted(kf_hit.items()):
        out_lines.append("KNOWN-FINDING: property=%s %s [signature %s, observed %d time(s) in this run]" % (prop, k["what"], sigk, n))
    seen = set()
    replay_paths = []
    for i, (sig, r, v) in enumerate(new_viol):
        if sig in seen:
            continue
        seen.add(sig)
        path = write_replay(prop, len(seen), r, v)
        replay_paths.append(path)
        out_lines.append("VIOLATION property=%s replay=%s" % (prop, path))
        out_lines.append("  signature: %s" % sig)
        out_lines.append("  detail: %s" % json.dumps(v.get("detail"))[:1500])
        out_lines.append("  from: %s" % r.label)
    for m in inconclusive:
        out_lines.append("INCONCLUSIVE: " + m)

    wall = time.time() - t0
    cov = dict(evaluations=int(evaluations), distinct_nontrivial=len(keys), rule=meta["rule"],
               samples=samples if samples else [{"note": "no samples emitted"}],
               per_monitor=per_monitor,
               not_judged_observations=notes,
               tools=sorted(set((r.variant + ("+" + r.tool if r.tool else "")) for r in runs)),
               processes=len(runs), violations_of_other_properties_ignored=foreign)
    if meta.get("exhaustive_note"):
        cov["exhaustive_subspace"] = meta["exhaustive_note"]
    # level-specific keys computed from named counters (e.g. model_checking: states/transitions)
    for key, names in (meta.get("cov_map") or {}).items():
        tot = 0
        for pm in per_monitor.values():
            for nm in names:
                tot += pm["counters"].get(nm, 0)
        cov[key] = int(tot)
    if extra_cov:
        cov.update(extra_cov)
    ev = dict(property_id=prop, tier=tier, seed=int(seed), level=meta["level"], coverage=cov,
              assumptions=meta.get("assumptions", []), wall_s=round(wall, 2),
              violations=len(seen),
              known_findings_observed=[dict(signature=s, count=n) for s, (k, n) in sorted(kf_hit.items())],
              inconclusive=inconclusive,
              verdict=("violated" if seen else ("inconclusive" if inconclusive else "held-on-observed")))
    os.makedirs(EVIDENCE, exist_ok=True)
    tmp = os.path.join(EVIDENCE, prop + ".json.tmp")
    with open(tmp, "w") as f:
        json.dump(ev, f, indent=1, sort_keys=False)
    os.replace(tmp, os.path.join(EVIDENCE, prop + ".json"))

    for ln in out_lines:
        print(ln)
    print("SUMMARY property=%s tier=%s seed=%s verdict=%s evaluations=%d distinct_nontrivial=%d known_findings=%d wall=%.1fs"
          % (prop, tier, seed, ev["verdict"], evaluations, len(keys), len(kf_hit), wall))
    sys.stdout.flush()
    if seen:
        return 1
    if inconclusive:
        return 2
    return 0


# ------------------------------------------------------------------------------------------
# auxiliary: compile-fail corpus for the static clause of C12 (outside the runtime family;
# reported separately in the evidence)
BORROWCK_CODES = ("E0597", "E0505", "E0515", "E0716", "E0499", "E0502", "E0506", "E0713", "E0521")


def compile_fail_corpus(variant="std-debug"):
    """Returns (results, violations, inconclusive). Each escaping program must fail with a
    borrow-check error, its non-escaping twin must compile."""
    import glob
    import tempfile
    build(variant)
    deps = os.path.join(variant_dir(variant), "debug", "deps")
    rlibs = sorted(glob.glob(os.path.join(deps, "libvm_memory-*.rlib")), key=os.path.getmtime)
    if not rlibs:
        return [], [], ["compile-fail corpus: no vm_memory rlib found in %s" % deps]
    rlib = rlibs[-1]
    corpus = os.path.join(HARNESS, "compile_fail")
    results, viols, inconc = [], [], []
    names = sorted(set(f[:-7] for f in os.listdir(corpus) if f.endswith("_bad.rs")))
    tmpd = tempfile.mkdtemp(prefix="vmv-cf-", dir=BUILD)
    try:
        for n in names:
            out = {}
            for kind in ("ok", "bad"):
                src = os.path.join(corpus, "%s_%s.rs" % (n, kind))
                p = subprocess.run(["rustc", "--edition", "2021", "--crate-type", "bin", "--emit=metadata",
                                    "-o", os.path.join(tmpd, n + "_" + kind), "-L", "dependency=" + deps,
                                    "--extern", "vm_memory=" + rlib, "--error-format=short", src],
                                   stdout=subprocess.PIPE, stderr=subprocess.STDOUT, text=True, timeout=300)
                codes = sorted(set(re.findall(r"error\[(E\d+)\]", p.stdout)))
                out[kind] = dict(rc=p.returncode, codes=codes, tail=p.stdout.strip().splitlines()[-3:])
            results.append(dict(program=n, ok_compiles=out["ok"]["rc"] == 0, bad_error_codes=out["bad"]["codes"]))
            if out["ok"]["rc"] != 0:
                inconc.append("compile-fail corpus: non-escaping twin %s_ok.rs does not compile (%s)" % (n, out["ok"]["tail"]))
                continue
            if out["bad"]["rc"] == 0:
                viols.append(dict(sig="C12/static/escaping-accessor-compiles/%s" % n, case=None,
                                  detail=dict(program=os.path.join(corpus, n + "_bad.rs"),
                                              meaning="a program that lets an accessor outlive its parent compiled")))
            elif not any(c in BORROWCK_CODES for c in out["bad"]["codes"]):
                inconc.append("compile-fail corpus: %s_bad.rs fails, but not with a borrow-check error (%s)" % (n, out["bad"]["codes"]))
    finally:
        shutil.rmtree(tmpd, ignore_errors=True)
    return results, viols, inconc


# ------------------------------------------------------------------------------------------
# C06 oracle 2: machine-level access widths from valgrind lackey
def lackey_probe(variant):
    """Run `vmv c06 probe` under valgrind lackey and judge every scripted transfer.
    Returns (coverage dict, violations, inconclusive)."""
    import tempfile
    build(variant)
    exe = bin_path(variant)
    os.makedirs(BUILD, exist_ok=True)
    fd, logp = tempfile.mkstemp(prefix="lackey-", suffix=".log", dir=BUILD)
    os.close(fd)
    try:
        try:
            p = subprocess.run(["valgrind", "--tool=lackey", "--trace-mem=yes", "--log-file=" + logp, exe, "c06", "probe"],
                               stdout=subprocess.PIPE, stderr=subprocess.PIPE, text=True, timeout=900, cwd=HARNESS)
        except (OSError, subprocess.TimeoutExpired) as e:
            return {}, [], ["lackey probe (%s) did not run: %s" % (variant, e)]
        if p.returncode != 0:
            return {}, [], ["lackey probe (%s) exited with %d: %s" % (variant, p.returncode, p.stderr[-400:])]
        marker = None
        xfers = []
        areas = []
        for ln in p.stdout.splitlines():
            if ln.startswith("LACKEY marker="):
                kv = dict(x.split("=") for x in ln.split()[1:])
                marker = int(kv["marker"])
                areas = [(int(kv["arena"]), int(kv["arena_len"])), (int(kv["region"]), int(kv["region_len"]))]
            elif ln.startswith("XFER "):
                _, i, kind, addr, n, entry = ln.split(" ", 5)
                xfers.append((int(i), kind, int(addr), int(n), entry))
        if marker is None or not xfers:
            return {}, [], ["lackey probe (%s) printed no transfer table" % variant]
        # walk the trace: marker stores delimit the windows, in order
        windows = []
        cur = None
        mk = "%x" % marker
        nlines = 0
        with open(logp, errors="replace") as f:
            for ln in f:
                nlines += 1
                if len(ln) < 4 or ln[0] != " " or ln[1] not in "SLM":
                    continue
                try:
                    a_s, sz_s = ln[3:].strip().split(",")
                    a = int(a_s, 16)
                    sz = int(sz_s)
                except ValueError:
                    continue
                if ln[1] == "S" and sz == 4 and a == marker:
                    cur = []
                    continue
                if ln[1] == "S" and sz == 4 and a == marker + 4:
                    if cur is not None:
                        windows.append(cur)
                    cur = None
                    continue
                if cur is not None:
                    for (b, l) in areas:
                        if a < b + l and b < a + sz:
                            cur.append((ln[1], a, sz))
                            break
        viols, judged = [], 0
        samples = []
        if len(windows) != len(xfers):
            return {}, [], ["lackey probe (%s): %d marker windows for %d transfers" % (variant, len(windows), len(xfers))]
        for (i, kind, addr, n, entry), acc in zip(xfers, windows):
            if kind == "A":
                # atomic store: a plain mov (S) or an xchg, which valgrind models as a load followed
                # by a compare-and-swap (L + M) - every access must still be exactly (addr, n)
                ok = 1 <= len(acc) <= 3 and all(a[1] == addr and a[2] == n for a in acc) and any(a[0] in "SM" for a in acc)
            else:
                ok = len(acc) == 1 and acc[0][0] == kind and acc[0][1] == addr and acc[0][2] == n
            judged += 1
            if len(samples) < 4:
                samples.append(dict(entry=entry, expected="%s %#x,%d" % (kind, addr, n), observed=["%s %#x,%d" % a for a in acc]))
            if not ok:
                viols.append(dict(sig="C06/lackey/%s/%s" % (variant.split("-")[-1], re.sub(r"\[.*?\]", "", entry)), case=i,
                                  detail=dict(entry=entry, expected="%s %#x,%d" % (kind, addr, n),
                                              observed=["%s %#x,%d" % a for a in acc][:12], variant=variant)))
        cov = {"lackey_" + variant.replace("-", "_"): dict(transfers_judged=judged, trace_lines=nlines, samples=samples)}
        return cov, viols, []
    finally:
        try:
            os.unlink(logp)
        except OSError:
            pass
