#!/bin/bash
# MANIFEST.hooks.baseline_off_cmd: the repository's own test-suite with the guard OFF.
cd /repo && unset RUSTFLAGS && exec cargo test --workspace --no-fail-fast --offline
