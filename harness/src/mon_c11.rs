//! C11 — a memory-map snapshot stays whole and usable while the map is being replaced.
//!
//! Oracle: generation tags + a logical clock. Map generation g is {R0, T_g}: a fixed base region
//! plus a tag region at an address that encodes g whose first bytes hold g (written before the
//! map is published). Offline checks over the recorded events:
//!   whole      every snapshot's region list is exactly {R0, T_g} for one g and the tag bytes say g
//!   stable     a held snapshot (and its clone / owned handle) shows the same g, still readable,
//!              after further replacements
//!   real-time  a snapshot started after replacement g completed shows a generation >= g
//!   monotonic  per reader, generations never go backwards
//!   exclusive  an in-lock counter never exceeds 1; final generation == number of completed
//!              replacements (no lost update)
//!   lifetime   replaced maps die (Weak handles) exactly when no snapshot holds them
//! Exploration: sequential histories over several handles (`mode=seq`), free-running threads
//! (`mode=stress`: native oversubscribed / TSan / Miri many-seeds).

use crate::common::out::{self, J};
use crate::common::prng::Rng;
use crate::common::{guarded, panic_sig, Args};
use std::sync::atomic::{AtomicU64, AtomicUsize, Ordering};
use std::sync::{Arc, Mutex, Weak};
use vm_memory::{
    Bytes, GuestAddress, GuestAddressSpace, GuestMemory, GuestMemoryAtomic, GuestMemoryMmap, GuestMemoryRegion, GuestRegionMmap,
};

type Map = GuestMemoryMmap<()>;
type Reg = GuestRegionMmap<()>;

const TBASE: u64 = 0x10_0000;
const TSTEP: u64 = 0x1000;
const RSZ: usize = if cfg!(miri) { 64 } else { 4096 };

fn v(sig: &str, d: J) {
    out::viol(&format!("C11/{}", sig), d);
}

/// `same`: every generation's tag region sits at the SAME guest address with the same size (a
/// replacement that keeps the layout and only swaps the backing memory); otherwise the address
/// encodes the generation as well.
fn taddr(g: u64, same: bool) -> u64 {
    if same {
        TBASE
    } else {
        TBASE + g * TSTEP
    }
}

fn tag_region(g: u64, same: bool) -> Arc<Reg> {
    let r = GuestRegionMmap::<()>::from_range(GuestAddress(taddr(g, same)), RSZ, None).expect("tag region");
    r.store::<u64>(g, vm_memory::MemoryRegionAddress(0), Ordering::Release).expect("tag store");
    r.store::<u64>(!g, vm_memory::MemoryRegionAddress((RSZ - 8) as u64), Ordering::Release).expect("tag store");
    Arc::new(r)
}

fn initial_map(same: bool) -> (Map, Weak<Reg>) {
    let r0 = Arc::new(GuestRegionMmap::<()>::from_range(GuestAddress(0), RSZ, None).unwrap());
    let t0 = tag_region(0, same);
    let w = Arc::downgrade(&t0);
    (Map::from_arc_regions(vec![r0, t0]).unwrap(), w)
}

/// What a snapshot shows: Ok(generation) if it is exactly {R0, T_g} with tag bytes g.
fn observe(m: &Map, same: bool) -> Result<u64, String> {
    let regs: Vec<(u64, u64)> = m.iter().map(|r| (r.start_addr().0, r.len())).collect();
    if regs.len() != 2 || regs[0] != (0, RSZ as u64) || regs[1].1 != RSZ as u64 || regs[1].0 < TBASE || (regs[1].0 - TBASE) % TSTEP != 0 {
        return Err(format!("region list is not one published map: {:x?}", regs));
    }
    let a = m.load::<u64>(GuestAddress(regs[1].0), Ordering::Acquire).map_err(|e| format!("tag unreadable: {:?}", e))?;
    let b = m.load::<u64>(GuestAddress(regs[1].0 + RSZ as u64 - 8), Ordering::Acquire).map_err(|e| format!("tag unreadable: {:?}", e))?;
    // same-layout mode: the tag bytes alone carry the generation; otherwise the address must agree
    let g = if same { if regs[1].0 != TBASE { return Err(format!("tag region at {:#x} in a same-layout history", regs[1].0)); } a } else { (regs[1].0 - TBASE) / TSTEP };
    if a != g || b != !g {
        return Err(format!("list says generation {} but tag bytes say {} / {}", g, a, !b));
    }
    // base region reachable too
    m.load::<u8>(GuestAddress(RSZ as u64 - 1), Ordering::Relaxed).map_err(|e| format!("base region unreadable: {:?}", e))?;
    Ok(g)
}

#[derive(Debug, Clone)]
enum Ev {
    Pub { gen: u64, t_pub: u64, by: usize },
    Snap { reader: usize, t0: u64, gen: Result<u64, String>, restable: Option<Result<u64, String>>, how: &'static str, spanned: u64 },
}

struct Shared {
    same: bool,
    atomic: GuestMemoryAtomic<Map>,
    clock: AtomicU64,
    in_lock: AtomicUsize,
    max_in_lock: AtomicUsize,
    completed: AtomicU64,
    weaks: Mutex<Vec<(u64, Weak<Reg>)>>,
}

fn updater(sh: &Shared, at: &GuestMemoryAtomic<Map>, id: usize, n: u64, r: &mut Rng, evs: &mut Vec<Ev>) {
    for _ in 0..n {
        let guard = at.lock().unwrap();
        let c = sh.in_lock.fetch_add(1, Ordering::SeqCst) + 1;
        sh.max_in_lock.fetch_max(c, Ordering::SeqCst);
        let cur = at.memory();
        let g = match observe(&cur, sh.same) {
            Ok(g) => g,
            Err(e) => {
                evs.push(Ev::Snap { reader: 1000 + id, t0: 0, gen: Err(e), restable: None, how: "updater-view", spanned: 0 });
                sh.in_lock.fetch_sub(1, Ordering::SeqCst);
                return;
            }
        };
        if r.chance(1, 3) {
            std::thread::yield_now();
        }
        let t = tag_region(g + 1, sh.same);
        sh.weaks.lock().unwrap().push((g + 1, Arc::downgrade(&t)));
        let (without, _old) = cur.remove_region(GuestAddress(taddr(g, sh.same)), RSZ as u64).expect("remove current tag region");
        let next = without.insert_region(t).expect("insert next tag region");
        drop(cur);
        drop(_old);
        sh.in_lock.fetch_sub(1, Ordering::SeqCst);
        guard.replace(next);
        let t_pub = sh.clock.fetch_add(1, Ordering::SeqCst);
        sh.completed.fetch_add(1, Ordering::SeqCst);
        evs.push(Ev::Pub { gen: g + 1, t_pub, by: id });
        if r.chance(1, 2) {
            std::thread::yield_now();
        }
    }
}

fn reader(sh: &Shared, at: &GuestMemoryAtomic<Map>, id: usize, n: u64, r: &mut Rng, evs: &mut Vec<Ev>) {
    for _ in 0..n {
        let t0 = sh.clock.fetch_add(1, Ordering::SeqCst);
        let snap = at.memory();
        let gen = observe(&snap, sh.same);
        let before = sh.completed.load(Ordering::SeqCst);
        let (how, restable) = match r.below(5) {
            0 => ("drop-immediately", None),
            1 => {
                for _ in 0..r.below(6) {
                    std::thread::yield_now();
                }
                ("hold", Some(observe(&snap, sh.same)))
            }
            2 => {
                let c = snap.clone();
                drop(snap);
                for _ in 0..r.below(6) {
                    std::thread::yield_now();
                }
                ("clone-then-drop-original", Some(observe(&c, sh.same)))
            }
            3 => {
                let owned: Arc<Map> = snap.into_inner();
                for _ in 0..r.below(6) {
                    std::thread::yield_now();
                }
                ("into_inner", Some(observe(&owned, sh.same)))
            }
            _ => {
                // spin until at least one more replacement completed (bounded), then re-read
                let mut spins = 0;
                while sh.completed.load(Ordering::SeqCst) == before && spins < 200 {
                    std::thread::yield_now();
                    spins += 1;
                }
                ("hold-across-replacement", Some(observe(&snap, sh.same)))
            }
        };
        let spanned = sh.completed.load(Ordering::SeqCst) - before;
        evs.push(Ev::Snap { reader: id, t0, gen, restable, how, spanned });
    }
}

fn judge(evs: &[Ev], sh: &Shared, mode: &str) {
    let mut pubs: Vec<(u64, u64)> = vec![];
    for e in evs {
        if let Ev::Pub { gen, t_pub, .. } = e {
            pubs.push((*gen, *t_pub));
        }
    }
    // exclusivity + no lost update
    let maxl = sh.max_in_lock.load(Ordering::SeqCst);
    if maxl > 1 {
        v(&format!("{}/two-updaters-inside-the-lock", mode), jobj! {"max_in_lock" => maxl});
    }
    let fin = observe(&sh.atomic.memory(), sh.same);
    let completed = sh.completed.load(Ordering::SeqCst);
    match &fin {
        Ok(g) if *g == completed => {}
        other => v(&format!("{}/lost-replacement", mode), jobj! {"final" => J::dbg(other), "completed_replacements" => completed}),
    }
    let mut gens: Vec<u64> = pubs.iter().map(|p| p.0).collect();
    gens.sort();
    if gens != (1..=completed).collect::<Vec<u64>>() {
        v(&format!("{}/published-generations-not-consecutive", mode), jobj! {"published" => J::dbg(&gens)});
    }
    let mut last_of: std::collections::HashMap<usize, u64> = std::collections::HashMap::new();
    // events of one reader are in program order in `evs` (appended per thread, concatenated)
    for e in evs {
        if let Ev::Snap { reader, t0, gen, restable, how, spanned } = e {
            let g = match gen {
                Ok(g) => *g,
                Err(msg) => {
                    v(&format!("{}/snapshot-not-whole", mode), jobj! {"reader" => *reader, "how" => *how, "problem" => msg.clone()});
                    continue;
                }
            };
            if let Some(r2) = restable {
                match r2 {
                    Ok(g2) if *g2 == g => {}
                    other => v(&format!("{}/held-snapshot-changed", mode), jobj! {"reader" => *reader, "how" => *how, "first" => g, "later" => J::dbg(other), "replacements_spanned" => *spanned}),
                }
            }
            // real-time order
            let must = pubs.iter().filter(|(_, tp)| *tp < *t0).map(|(g, _)| *g).max().unwrap_or(0);
            if g < must {
                v(&format!("{}/snapshot-older-than-a-completed-replacement", mode), jobj! {"reader" => *reader, "saw" => g, "completed_before_start" => must});
            }
            if *reader < 1000 {
                if let Some(prev) = last_of.get(reader) {
                    if g < *prev {
                        v(&format!("{}/reader-generation-went-backwards", mode), jobj! {"reader" => *reader, "prev" => *prev, "now" => g});
                    }
                }
                last_of.insert(*reader, g);
            }
            out::key(&format!("{}{}|{}|spanned{}|lag{}", mode, if sh.same { "-samelayout" } else { "" }, how, (*spanned).min(3), (completed.saturating_sub(g)).min(3)), *spanned > 0 || restable.is_some());
            if *spanned > 0 {
                out::count("snapshots_held_across_replacements", 1);
            }
        }
    }
    // lifetime of replaced maps: only the current tag region may still be alive
    let weaks = sh.weaks.lock().unwrap();
    for (g, w) in weaks.iter() {
        let alive = w.upgrade().is_some();
        if alive != (*g == completed) {
            v(&format!("{}/replaced-map-lifetime", mode), jobj! {"generation" => *g, "alive" => alive, "current" => completed});
        }
    }
}

fn stress(args: &Args) {
    let rounds = args.u64("rounds", 40);
    let nr = args.u64("readers", if cfg!(miri) { 2 } else { 24 }) as usize;
    let nu = args.u64("updaters", if cfg!(miri) { 2 } else { 8 }) as usize;
    let rops = args.u64("rops", if cfg!(miri) { 3 } else { 200 });
    let uops = args.u64("uops", if cfg!(miri) { 2 } else { 40 });
    let mut total_ops = 0u64;
    for round in 0..rounds {
        let same = round % 2 == 1;
        let (m, w0) = initial_map(same);
        let sh = Arc::new(Shared {
            same,
            atomic: GuestMemoryAtomic::new(m),
            clock: AtomicU64::new(1),
            in_lock: AtomicUsize::new(0),
            max_in_lock: AtomicUsize::new(0),
            completed: AtomicU64::new(0),
            weaks: Mutex::new(vec![(0, w0)]),
        });
        let mut hs = vec![];
        for i in 0..nu {
            let sh = sh.clone();
            let seed = args.seed();
            hs.push(std::thread::spawn(move || {
                let mut r = Rng::new(seed, "c11-u", round * 100 + i as u64);
                let mut evs = vec![];
                // each thread works through its own clone of the handle - or, every third round,
                // all threads share the ONE handle by reference (no clone alive anywhere)
                if round % 3 == 2 {
                    updater(&sh, &sh.atomic, i, uops, &mut r, &mut evs);
                } else {
                    let mine = sh.atomic.clone();
                    updater(&sh, &mine, i, uops, &mut r, &mut evs);
                }
                evs
            }));
        }
        for i in 0..nr {
            let sh = sh.clone();
            let seed = args.seed();
            hs.push(std::thread::spawn(move || {
                let mut r = Rng::new(seed, "c11-r", round * 100 + i as u64);
                let mut evs = vec![];
                if round % 3 == 2 {
                    reader(&sh, &sh.atomic, i, rops, &mut r, &mut evs);
                } else {
                    let mine = sh.atomic.clone();
                    reader(&sh, &mine, i, rops, &mut r, &mut evs);
                }
                evs
            }));
        }
        let mut evs = vec![];
        for h in hs {
            evs.extend(h.join().expect("worker thread"));
        }
        total_ops += evs.len() as u64;
        judge(&evs, &sh, "stress");
        if round == 0 {
            let pubs = evs.iter().filter(|e| matches!(e, Ev::Pub { .. })).count();
            out::sample(jobj! {"mode" => "stress", "readers" => nr, "updaters" => nu, "published" => pubs, "first_events" => J::A(evs.iter().take(6).map(|e| J::dbg(e)).collect())});
        }
    }
    out::eval(total_ops);
    out::count("stress_events", total_ops as i128);
}

/// Sequential histories over several handles. Handles are clones of one another, are re-pointed
/// with `clone_from`, or belong to further independent replaceable memories ("cells") created
/// from an owned snapshot (so that two cells can hold the very same `Arc<Map>` for a while).
/// Model: the current generation of each cell, and the cell each handle is bound to.
fn sequential(args: &Args) {
    for case in args.cases(500) {
        let mut r = Rng::new(args.seed(), "c11-seq", case);
        let same = case % 2 == 1;
        let (m, w0) = initial_map(same);
        let root = GuestMemoryAtomic::new(m);
        let mut handles: Vec<(GuestMemoryAtomic<Map>, usize)> = (0..3).map(|_| (root.clone(), 0usize)).collect();
        drop(root);
        let mut cells: Vec<u64> = vec![0];
        let mut next_gen = 0u64;
        let mut weaks: Vec<(u64, Weak<Reg>)> = vec![(0, w0)];
        // held snapshots: (generation at snapshot time, kind)
        enum Held {
            Guard(vm_memory::GuestMemoryLoadGuard<Map>),
            Owned(Arc<Map>),
        }
        let mut held: Vec<(u64, Held)> = vec![];
        let steps = r.range(10, 60);
        let mut trace: Vec<String> = vec![];
        #[allow(unused_assignments)]
        let mut poisoned = false;
        for _ in 0..steps {
            let hi = r.usize_below(handles.len());
            let cell = handles[hi].1;
            let cur = cells[cell];
            match r.below(14) {
                0..=2 => {
                    let s = handles[hi].0.memory();
                    match observe(&s, same) {
                        Ok(g) if g == cur => {}
                        other => {
                            v("seq/snapshot-is-not-the-current-map", jobj! {"current" => cur, "cell" => cell, "saw" => J::dbg(&other), "trace" => trace.clone()});
                            return;
                        }
                    }
                    held.push((cur, Held::Guard(s)));
                    trace.push(format!("snapshot@{}", cur));
                }
                3 => {
                    let s = handles[hi].0.memory().into_inner();
                    held.push((cur, Held::Owned(s)));
                    trace.push(format!("owned-snapshot@{}", cur));
                }
                4 => {
                    if let Some((g, Held::Guard(s))) = held.last() {
                        let c = s.clone();
                        let g = *g;
                        held.push((g, Held::Guard(c)));
                        trace.push(format!("clone-of-snapshot@{}", g));
                    }
                }
                5..=7 => {
                    let h = &handles[hi].0;
                    // (a lock poisoned by the deliberate panic below is recovered the std way)
                    let guard = h.lock().unwrap_or_else(|e| e.into_inner());
                    let curm = h.memory();
                    next_gen += 1;
                    let t = tag_region(next_gen, same);
                    weaks.push((next_gen, Arc::downgrade(&t)));
                    let (without, old) = curm.remove_region(GuestAddress(taddr(cur, same)), RSZ as u64).unwrap();
                    let next = without.insert_region(t).unwrap();
                    drop(old);
                    drop(curm);
                    guard.replace(next);
                    cells[cell] = next_gen;
                    trace.push(format!("replace->{}", next_gen));
                }
                8 if r.chance(1, 3) => {
                    // a replacement issued while the thread is unwinding from a panic (from the
                    // destructor of a rollback guard that holds the lock): it completes like any other
                    let h = &handles[hi].0;
                    let guard = h.lock().unwrap_or_else(|e| e.into_inner());
                    let curm = h.memory();
                    next_gen += 1;
                    let t = tag_region(next_gen, same);
                    weaks.push((next_gen, Arc::downgrade(&t)));
                    let (without, old) = curm.remove_region(GuestAddress(taddr(cur, same)), RSZ as u64).unwrap();
                    let next = without.insert_region(t).unwrap();
                    drop(old);
                    drop(curm);
                    struct Rollback<'a>(Option<vm_memory::atomic::GuestMemoryExclusiveGuard<'a, Map>>, Option<Map>);
                    impl Drop for Rollback<'_> {
                        fn drop(&mut self) {
                            if let (Some(g), Some(m)) = (self.0.take(), self.1.take()) {
                                g.replace(m);
                            }
                        }
                    }
                    let res = std::panic::catch_unwind(std::panic::AssertUnwindSafe(|| {
                        let _rb = Rollback(Some(guard), Some(next));
                        panic!("vmv: deliberate panic while holding the update lock");
                    }));
                    assert!(res.is_err());
                    cells[cell] = next_gen;
                    poisoned = true;
                    trace.push(format!("replace-while-unwinding->{}", next_gen));
                }
                8 => {
                    // lock without replacing: must not change anything
                    let g = handles[hi].0.lock().unwrap_or_else(|e| e.into_inner());
                    drop(g);
                    trace.push("lock+unlock".into());
                }
                9 => {
                    if handles.len() < 8 {
                        let c = handles[hi].0.clone();
                        handles.push((c, cell));
                        trace.push("clone-handle".into());
                    }
                }
                10 => {
                    // an independent replaceable memory holding the very same Arc<Map>
                    if cells.len() < 4 && handles.len() < 8 {
                        let arc = handles[hi].0.memory().into_inner();
                        let fresh: GuestMemoryAtomic<Map> = GuestMemoryAtomic::from(arc);
                        cells.push(cur);
                        handles.push((fresh, cells.len() - 1));
                        trace.push(format!("new-cell-from-owned-snapshot@{}", cur));
                    }
                }
                11 | 12 => {
                    // re-point one handle at another's memory
                    let src = r.usize_below(handles.len());
                    if src != hi {
                        let s = handles[src].0.clone();
                        handles[hi].0.clone_from(&s);
                        handles[hi].1 = handles[src].1;
                        trace.push(format!("clone_from(cell{}->cell{})", cell, handles[src].1));
                    }
                }
                _ => {
                    if !held.is_empty() {
                        let i = r.usize_below(held.len());
                        held.remove(i);
                        trace.push("drop-snapshot".into());
                    }
                }
            }
            out::eval(1);
            // every handle shows the current map of the cell it is bound to
            for (k, (h, c)) in handles.iter().enumerate() {
                let o = observe(&h.memory(), same);
                if o != Ok(cells[*c]) {
                    v("seq/handle-does-not-show-its-memory's-current-map", jobj! {"handle" => k, "cell" => *c, "expected" => cells[*c], "saw" => J::dbg(&o), "trace" => trace.clone()});
                    return;
                }
            }
            // every held snapshot still shows its generation
            for (g, hd) in &held {
                let o = match hd {
                    Held::Guard(s) => observe(s, same),
                    Held::Owned(s) => observe(s, same),
                };
                if o != Ok(*g) {
                    v("seq/held-snapshot-changed", jobj! {"expected" => *g, "saw" => J::dbg(&o), "trace" => trace.clone()});
                    return;
                }
            }
            // lifetime: a generation is alive iff it is the current map of a cell that still has a
            // handle, or a snapshot of it is held
            for (g, w) in &weaks {
                let want = handles.iter().any(|(_, c)| cells[*c] == *g) || held.iter().any(|(hg, _)| hg == g);
                if w.upgrade().is_some() != want {
                    v("seq/replaced-map-lifetime", jobj! {"generation" => *g, "alive" => w.upgrade().is_some(), "expected_alive" => want, "trace" => trace.clone()});
                    return;
                }
            }
            out::key(&format!("seq{}|{}|held{}|cells{}", if same { "-samelayout" } else { "" }, trace.last().map(|s| s.split('@').next().unwrap_or("").split("->").next().unwrap_or("").split('(').next().unwrap_or("")).unwrap_or(""), held.len().min(4), cells.len().min(3)), true);
        }
        if out::want_sample() && case % 50 == 0 {
            out::sample(jobj! {"mode" => "seq", "trace" => trace.clone()});
        }
    }
}

/// A replacement whose new map describes the SAME guest ranges backed by the SAME host memory, but
/// through fresh region objects (externally provided windows over the existing mappings, e.g. to
/// attach fresh dirty bitmaps): it is a different map and must be published like any other.
#[cfg(not(feature = "xen"))]
fn replacement_aliasing_the_same_memory() {
    use vm_memory::bitmap::Bitmap;
    use vm_memory::{GuestMemoryRegion, MmapRegion};
    type TMap = vm_memory::GuestMemoryMmap<vm_memory::bitmap::AtomicBitmap>;
    let first: TMap = TMap::from_ranges(&[(GuestAddress(0x1000), 0x2000), (GuestAddress(0x10000), 0x1000)]).unwrap();
    let keep_alive = first.clone(); // owns the mappings for the whole test
    let at = GuestMemoryAtomic::new(first);
    let other = at.clone();
    for round in 0..6u64 {
        let cur = at.memory();
        // dirty something through the current map
        let _ = cur.write_obj::<u8>(round as u8 + 1, GuestAddress(0x1000 + round * 0x400));
        let mut regs = vec![];
        for r in keep_alive.iter() {
            // SAFETY: a window over a mapping that `keep_alive` keeps mapped.
            let raw = unsafe { MmapRegion::<vm_memory::bitmap::AtomicBitmap>::build_raw(r.as_ptr(), r.len() as usize, libc::PROT_READ | libc::PROT_WRITE, libc::MAP_ANONYMOUS | libc::MAP_PRIVATE) }.unwrap();
            regs.push(Arc::new(vm_memory::GuestRegionMmap::new(raw, r.start_addr()).unwrap()));
        }
        let ptrs: Vec<usize> = regs.iter().map(|a| Arc::as_ptr(a) as usize).collect();
        let next = TMap::from_arc_regions(regs).unwrap();
        drop(cur);
        (if round % 2 == 0 { &at } else { &other }).lock().unwrap().replace(next);
        for (hn, h) in [("handle", &at), ("clone", &other)] {
            let snap = h.memory();
            let now: Vec<usize> = snap.iter().map(|r| r as *const _ as usize).collect();
            let fresh_bitmaps_clean = snap.iter().all(|r| !r.bitmap().dirty_at(round as usize * 0x400));
            if now != ptrs || !fresh_bitmaps_clean {
                v("alias/snapshot-after-a-completed-replacement-shows-the-old-map", jobj! {"round" => round, "through" => hn, "region_objects_are_the_new_ones" => now == ptrs, "bitmaps_are_the_fresh_ones" => fresh_bitmaps_clean});
                return;
            }
        }
    }
    out::key("replacement-aliasing-the-same-host-memory", true);
    out::eval(6);
}

/// WHICH lock a handle takes after it was re-pointed: `a.clone_from(&b)` / `b.clone_into(&mut a)`
/// make `a` a handle of b's memory - its updaters must exclude b's updaters (and no longer those of
/// the memory it used to belong to). Probed deterministically (an updater holding the lock through
/// one handle, another thread asking through the other: it must not get in while the first is
/// inside) and with a counter derived from the current map under the lock.
fn lock_identity_after_clone_from() {
    use std::sync::atomic::{AtomicBool, AtomicU64, Ordering};
    let mk = |n: u64| -> Map {
        let regs: Vec<(GuestAddress, usize)> = (0..n).map(|i| (GuestAddress(0x10_0000 * (i + 1)), 0x1000)).collect();
        Map::from_ranges(&regs).expect("map")
    };
    for how in ["clone_from", "clone_into", "clone_from-of-a-clone"] {
        let m1 = GuestMemoryAtomic::new(mk(1));
        let m2 = GuestMemoryAtomic::new(mk(2));
        let mut a = m1.clone();
        match how {
            "clone_from" => a.clone_from(&m2),
            "clone_into" => m2.clone_into(&mut a),
            _ => {
                let c = m2.clone();
                a.clone_from(&c);
            }
        }
        // sanity: a shows m2's map, m1 is untouched
        if a.memory().num_regions() != 2 || m1.memory().num_regions() != 1 {
            v("lock-identity/re-pointed-handle-shows-the-wrong-map", jobj! {"how" => how});
            return;
        }
        // (1) probes, both directions
        for (dir, holder, asker) in [("held-through-the-re-pointed-handle", a.clone(), m2.clone()), ("held-through-the-original-handle", m2.clone(), a.clone())] {
            let inside = Arc::new(AtomicBool::new(false));
            let got_in = Arc::new(AtomicBool::new(false));
            let guard = holder.lock().unwrap();
            inside.store(true, Ordering::SeqCst);
            let (i2, g2) = (inside.clone(), got_in.clone());
            let th = std::thread::spawn(move || {
                let _g = asker.lock().unwrap();
                // we are inside the update lock now: was the first updater still inside?
                if i2.load(Ordering::SeqCst) {
                    g2.store(true, Ordering::SeqCst);
                }
            });
            std::thread::sleep(std::time::Duration::from_millis(if cfg!(miri) { 1 } else { 60 }));
            inside.store(false, Ordering::SeqCst);
            drop(guard);
            let _ = th.join();
            if got_in.load(Ordering::SeqCst) {
                v("lock-identity/two-updaters-of-one-memory-inside-the-lock", jobj! {"how" => how, "direction" => dir});
                return;
            }
        }
        // (2) counter: every update installs a map with one region more than the current one
        if !cfg!(miri) {
            let per = 150u64;
            let done = Arc::new(AtomicU64::new(0));
            let hs: Vec<_> = [a.clone(), m2.clone(), a.clone(), m2.clone()]
                .into_iter()
                .map(|h| {
                    let done = done.clone();
                    std::thread::spawn(move || {
                        for _ in 0..per {
                            let g = h.lock().unwrap();
                            let cur = h.memory().num_regions() as u64;
                            let regs: Vec<(GuestAddress, usize)> = (0..cur + 1).map(|i| (GuestAddress(0x1000 * (i + 1)), 0x1000)).collect();
                            g.replace(Map::from_ranges(&regs).expect("map"));
                            done.fetch_add(1, Ordering::Relaxed);
                        }
                    })
                })
                .collect();
            for h in hs {
                let _ = h.join();
            }
            let fin = m2.memory().num_regions() as u64;
            if fin != 2 + 4 * per {
                v("lock-identity/lost-replacement", jobj! {"how" => how, "completed_replacements" => done.load(Ordering::Relaxed), "final_generation" => fin, "expected" => 2 + 4 * per});
                return;
            }
        }
        out::key(&format!("lock-identity|{}", how), true);
        out::eval(1);
    }
}

/// Handles CREATED while replacements are in flight: one thread replaces continuously (keeping the
/// last few maps alive, as snapshot holders would), another clones fresh handles and - holding the
/// update lock, so that no replacement can be in flight and every earlier one has completed -
/// compares what the fresh handle shows with what the original handle shows.
fn fresh_handles_during_replacements(clones: u64) {
    use std::sync::atomic::{AtomicBool, Ordering};
    let mk = |n: u64| -> Map {
        let regs: Vec<(GuestAddress, usize)> = (0..n).map(|i| (GuestAddress(0x10_0000 * (i + 1)), 0x1000)).collect();
        Map::from_ranges(&regs).expect("map")
    };
    let at = GuestMemoryAtomic::new(mk(1));
    let stop = Arc::new(AtomicBool::new(false));
    let upd = {
        let (at, stop) = (at.clone(), stop.clone());
        let pool: Vec<Map> = (1..=6).map(mk).collect();
        std::thread::spawn(move || {
            let mut keep: std::collections::VecDeque<_> = std::collections::VecDeque::new();
            let mut k = 0u64;
            while !stop.load(Ordering::Relaxed) {
                keep.push_back(at.memory());
                if keep.len() > 8 {
                    keep.pop_front();
                }
                // a fresh map object each time (clones of a map share regions, not identity)
                at.lock().unwrap().replace(pool[(k % 6) as usize].clone());
                k += 1;
            }
            k
        })
    };
    let mut stale = None;
    for i in 0..clones {
        let h = at.clone();
        let g = at.lock().unwrap();
        let (a, b) = (h.memory(), at.memory());
        let same = a.num_regions() == b.num_regions() && a.iter().zip(b.iter()).all(|(x, y)| std::ptr::eq(x, y));
        drop(g);
        if !same {
            stale = Some((i, a.num_regions(), b.num_regions()));
            break;
        }
    }
    stop.store(true, Ordering::Relaxed);
    let replacements = upd.join().unwrap_or(0);
    if let Some((i, seen, current)) = stale {
        v("fresh-handle/shows-an-older-map-after-the-replacement-completed", jobj! {"clone_number" => i, "regions_seen_through_the_fresh_handle" => seen, "regions_of_the_current_map" => current, "replacements_so_far" => replacements});
    }
    out::key("fresh-handles-during-replacements", true);
    out::count("fresh_handles_checked", clones as i128);
    out::count("replacements_while_cloning", replacements as i128);
    out::eval(clones);
}

/// Very long update histories on one replaceable memory (counters wrap at 2^16): after EVERY one
/// of 2^16 + 2^15 completed replacements the next snapshot shows the map just installed (the maps
/// alternate between two and three regions, so a single skipped or stale publication is visible).
fn long_update_history() {
    let mk = |n: u64| -> Map {
        let regs: Vec<(GuestAddress, usize)> = (0..n).map(|i| (GuestAddress(0x10_0000 * (i + 1)), 0x1000)).collect();
        Map::from_ranges(&regs).expect("map")
    };
    let (two, three) = (mk(2), mk(3));
    let at = GuestMemoryAtomic::new(two.clone());
    let other = at.clone();
    let total = (1u64 << 16) + (1 << 15) + 7;
    for k in 1..=total {
        let next = if k % 2 == 1 { three.clone() } else { two.clone() };
        let h = if k % 3 == 0 { &other } else { &at };
        h.lock().unwrap().replace(next);
        let want = if k % 2 == 1 { 3 } else { 2 };
        let (a, b) = (at.memory().num_regions(), other.memory().num_regions());
        if a != want || b != want {
            v("long-history/snapshot-after-a-completed-replacement-shows-another-map", jobj! {"replacement_number" => k, "regions_seen" => a, "regions_seen_through_clone" => b, "regions_installed" => want});
            return;
        }
    }
    out::key("long-update-history|2^16+2^15", true);
    out::eval(total);
    out::count("long_history_replacements", total as i128);
}

/// The trivial address spaces (`&M`, `Rc<M>`, `Arc<M>`): a "snapshot" is the map itself.
fn plain_address_spaces() {
    use vm_memory::GuestAddressSpace;
    let (m, _w) = initial_map(false);
    let want = observe(&m, false);
    let by_ref = (&m).memory();
    if observe(by_ref, false) != want {
        v("plain/&M", J::Null);
    }
    let rc = std::rc::Rc::new(m);
    let s1 = rc.memory();
    if observe(&s1, false) != want || !std::rc::Rc::ptr_eq(&rc, &s1) {
        v("plain/Rc<M>", J::Null);
    }
    drop(s1);
    let m = std::rc::Rc::try_unwrap(rc).ok().expect("unique");
    let arc = Arc::new(m);
    let s2 = arc.memory();
    if observe(&s2, false) != want || !Arc::ptr_eq(&arc, &s2) {
        v("plain/Arc<M>", J::Null);
    }
    out::key("plain-address-spaces", true);
    out::eval(3);
}

pub fn run(args: &Args) {
    out::set_quiet_cases(true);
    let mode = args.str("mode", "all");
    if mode != "stress" {
        if let Err(p) = guarded(plain_address_spaces) {
            v(&format!("panic/plain/{}", panic_sig(&p)), J::s(p));
        }
        #[cfg(not(feature = "xen"))]
        if !cfg!(miri) {
            if let Err(p) = guarded(replacement_aliasing_the_same_memory) {
                v(&format!("panic/alias/{}", panic_sig(&p)), J::s(p));
            }
        }
        if !cfg!(miri) {
            if let Err(p) = guarded(|| fresh_handles_during_replacements(args.u64("fresh", 1_500_000))) {
                v(&format!("panic/fresh-handles/{}", panic_sig(&p)), J::s(p));
            }
        }
        if let Err(p) = guarded(lock_identity_after_clone_from) {
            v(&format!("panic/lock-identity/{}", panic_sig(&p)), J::s(p));
        }
        if !cfg!(miri) {
            if let Err(p) = guarded(long_update_history) {
                v(&format!("panic/long-history/{}", panic_sig(&p)), J::s(p));
            }
        }
    }
    if mode == "seq" || mode == "all" {
        if let Err(p) = guarded(|| sequential(args)) {
            v(&format!("panic/seq/{}", panic_sig(&p)), J::s(p));
        }
    }
    if mode == "stress" || mode == "all" {
        stress(args);
    }
}
