//! Line protocol between a monitor process and the orchestrator, plus coverage bookkeeping.
//!
//! Lines (stdout, line buffered):
//!   CASE <n> <json>      announced *before* a case runs (witness if the process dies)
//!   VIOL <json>          an oracle failure: {"sig","case","detail"}
//!   NOTE <json>          observations that are recorded but deliberately not judged
//!   STAT <json>          counters at the end of the run
//!   KEYS <hex> ...       hashed coverage keys (non-trivial ones only)
//!   SAMPLE <json>        a few actual cases
//!   DONE                 the monitor reached its end (absence => crashed / killed)

use std::cell::RefCell;
use std::collections::{BTreeMap, HashSet};
use std::fmt::Write as _;
use std::io::Write as _;

#[derive(Clone, Debug)]
pub enum J {
    Null,
    B(bool),
    I(i128),
    S(String),
    A(Vec<J>),
    O(Vec<(String, J)>),
}

impl J {
    pub fn s<T: AsRef<str>>(t: T) -> J {
        J::S(t.as_ref().to_string())
    }
    pub fn dbg<T: std::fmt::Debug>(t: &T) -> J {
        J::S(format!("{:?}", t))
    }
    pub fn render(&self, out: &mut String) {
        match self {
            J::Null => out.push_str("null"),
            J::B(b) => {
                let _ = write!(out, "{}", b);
            }
            J::I(i) => {
                // JSON numbers beyond 2^53 lose precision in some readers: emit big ones as strings
                if *i > (1i128 << 53) || *i < -(1i128 << 53) {
                    let _ = write!(out, "\"{}\"", i);
                } else {
                    let _ = write!(out, "{}", i);
                }
            }
            J::S(s) => {
                out.push('"');
                for c in s.chars() {
                    match c {
                        '"' => out.push_str("\\\""),
                        '\\' => out.push_str("\\\\"),
                        '\n' => out.push_str("\\n"),
                        '\r' => out.push_str("\\r"),
                        '\t' => out.push_str("\\t"),
                        c if (c as u32) < 0x20 => {
                            let _ = write!(out, "\\u{:04x}", c as u32);
                        }
                        c => out.push(c),
                    }
                }
                out.push('"');
            }
            J::A(v) => {
                out.push('[');
                for (i, x) in v.iter().enumerate() {
                    if i > 0 {
                        out.push(',');
                    }
                    x.render(out);
                }
                out.push(']');
            }
            J::O(v) => {
                out.push('{');
                for (i, (k, x)) in v.iter().enumerate() {
                    if i > 0 {
                        out.push(',');
                    }
                    J::S(k.clone()).render(out);
                    out.push(':');
                    x.render(out);
                }
                out.push('}');
            }
        }
    }
    pub fn to_string(&self) -> String {
        let mut s = String::new();
        self.render(&mut s);
        s
    }
}

macro_rules! impl_from_int {
    ($($t:ty),*) => {$(impl From<$t> for J { fn from(v: $t) -> J { J::I(v as i128) } })*};
}
impl_from_int!(u8, u16, u32, u64, usize, i8, i16, i32, i64, isize, u128, i128);
impl From<bool> for J {
    fn from(v: bool) -> J {
        J::B(v)
    }
}
impl From<&str> for J {
    fn from(v: &str) -> J {
        J::S(v.to_string())
    }
}
impl From<String> for J {
    fn from(v: String) -> J {
        J::S(v)
    }
}
impl From<&String> for J {
    fn from(v: &String) -> J {
        J::S(v.clone())
    }
}
impl<T: Into<J>> From<Vec<T>> for J {
    fn from(v: Vec<T>) -> J {
        J::A(v.into_iter().map(Into::into).collect())
    }
}
impl<T: Into<J>> From<Option<T>> for J {
    fn from(v: Option<T>) -> J {
        match v {
            Some(x) => x.into(),
            None => J::Null,
        }
    }
}

pub fn line(kind: &str, j: &J) {
    let mut s = String::with_capacity(128);
    s.push_str(kind);
    s.push(' ');
    j.render(&mut s);
    s.push('\n');
    let so = std::io::stdout();
    let mut l = so.lock();
    let _ = l.write_all(s.as_bytes());
    let _ = l.flush();
}

pub fn fnv(s: &str) -> u64 {
    let mut h: u64 = 0xcbf29ce484222325;
    for b in s.as_bytes() {
        h ^= *b as u64;
        h = h.wrapping_mul(0x100000001b3);
    }
    h
}

#[derive(Default)]
pub struct Cov {
    pub monitor: String,
    pub cur_case: u64,
    pub evaluations: u64,
    pub keys: HashSet<u64>,
    pub trivial_keys: HashSet<u64>,
    pub key_examples: BTreeMap<String, u64>,
    pub samples: Vec<J>,
    pub max_samples: usize,
    pub viol_count: u64,
    pub viol_by_sig: BTreeMap<String, u64>,
    pub note_by_sig: BTreeMap<String, u64>,
    pub counters: BTreeMap<String, i128>,
    pub quiet_cases: bool,
}

thread_local! {
    pub static COV: RefCell<Cov> = RefCell::new(Cov { max_samples: 6, ..Default::default() });
}

pub fn init(monitor: &str) {
    COV.with(|c| {
        let mut c = c.borrow_mut();
        c.monitor = monitor.to_string();
    });
}

/// Announce a case before running it.
pub fn case(n: u64, desc: J) {
    let quiet = COV.with(|c| {
        let mut c = c.borrow_mut();
        c.cur_case = n;
        c.evaluations += 1;
        c.quiet_cases
    });
    if !quiet {
        let mut s = String::new();
        let _ = write!(s, "CASE {} ", n);
        desc.render(&mut s);
        s.push('\n');
        let so = std::io::stdout();
        let mut l = so.lock();
        let _ = l.write_all(s.as_bytes());
        let _ = l.flush();
    }
}

pub fn set_quiet_cases(q: bool) {
    COV.with(|c| c.borrow_mut().quiet_cases = q);
}

/// Count an evaluation without announcing it (cheap inner-loop cases).
pub fn eval(n: u64) {
    COV.with(|c| c.borrow_mut().evaluations += n);
}

pub fn set_case(n: u64) {
    COV.with(|c| c.borrow_mut().cur_case = n);
}

/// Record a coverage key; `nontrivial` decides which set it lands in.
pub fn key(k: &str, nontrivial: bool) {
    COV.with(|c| {
        let mut c = c.borrow_mut();
        let h = fnv(k);
        if nontrivial {
            if c.keys.insert(h) && c.key_examples.len() < 40 {
                c.key_examples.insert(k.to_string(), 1);
            }
        } else {
            c.trivial_keys.insert(h);
        }
    });
}

pub fn count(name: &str, by: i128) {
    COV.with(|c| {
        *c.borrow_mut().counters.entry(name.to_string()).or_insert(0) += by;
    });
}

pub fn set_max(name: &str, v: i128) {
    COV.with(|c| {
        let mut c = c.borrow_mut();
        let e = c.counters.entry(name.to_string()).or_insert(v);
        if v > *e {
            *e = v;
        }
    });
}

pub fn sample(j: J) {
    COV.with(|c| {
        let mut c = c.borrow_mut();
        if c.samples.len() < c.max_samples {
            c.samples.push(j);
        }
    });
}

pub fn want_sample() -> bool {
    COV.with(|c| {
        let c = c.borrow();
        c.samples.len() < c.max_samples
    })
}

/// Report an oracle failure. At most 4 are printed per signature; all are counted.
pub fn viol(sig: &str, detail: J) {
    let (n, case, mon) = COV.with(|c| {
        let mut c = c.borrow_mut();
        c.viol_count += 1;
        let e = c.viol_by_sig.entry(sig.to_string()).or_insert(0);
        *e += 1;
        (*e, c.cur_case, c.monitor.clone())
    });
    if n <= 4 {
        line(
            "VIOL",
            &jobj! {"sig" => sig, "monitor" => mon, "case" => case, "detail" => detail},
        );
    }
}

/// An observation that is recorded but not judged.
pub fn note(sig: &str, detail: J) {
    let (n, case) = COV.with(|c| {
        let mut c = c.borrow_mut();
        let e = c.note_by_sig.entry(sig.to_string()).or_insert(0);
        *e += 1;
        (*e, c.cur_case)
    });
    if n <= 2 {
        line("NOTE", &jobj! {"sig" => sig, "case" => case, "detail" => detail});
    }
}

pub fn finish() {
    COV.with(|c| {
        let c = c.borrow();
        for s in &c.samples {
            line("SAMPLE", s);
        }
        // keys in chunks
        let ks: Vec<u64> = c.keys.iter().cloned().collect();
        for chunk in ks.chunks(400) {
            let mut s = String::from("KEYS");
            for k in chunk {
                let _ = write!(s, " {:x}", k);
            }
            println!("{}", s);
        }
        let mut counters: Vec<(String, J)> = c
            .counters
            .iter()
            .map(|(k, v)| (k.clone(), J::I(*v)))
            .collect();
        counters.sort_by(|a, b| a.0.cmp(&b.0));
        let viols: Vec<(String, J)> = c
            .viol_by_sig
            .iter()
            .map(|(k, v)| (k.clone(), J::I(*v as i128)))
            .collect();
        let notes: Vec<(String, J)> = c
            .note_by_sig
            .iter()
            .map(|(k, v)| (k.clone(), J::I(*v as i128)))
            .collect();
        let ex: Vec<J> = c.key_examples.keys().take(25).map(|k| J::s(k)).collect();
        line(
            "STAT",
            &jobj! {
                "monitor" => c.monitor.clone(),
                "evaluations" => c.evaluations,
                "distinct_nontrivial" => c.keys.len(),
                "distinct_trivial" => c.trivial_keys.len(),
                "violations" => c.viol_count,
                "viol_by_sig" => J::O(viols),
                "notes" => J::O(notes),
                "counters" => J::O(counters),
                "key_examples" => J::A(ex),
            },
        );
    });
    println!("DONE");
    let _ = std::io::stdout().flush();
}
