//! Run a closure in a forked child so that a crash (signal, abort) or a runaway loop is an
//! observation of the parent instead of the end of the monitor.

#[derive(Debug, Clone, PartialEq, Eq)]
pub enum Exit {
    /// Child returned normally; payload bytes it wrote.
    Ok(Vec<u8>),
    /// Child panicked (message).
    Panic(String),
    /// Child was killed by a signal.
    Signal(i32),
    /// Child exceeded its CPU-time budget (RLIMIT_CPU => SIGXCPU/SIGKILL).
    CpuLimit,
    /// fork/pipe failed or unexpected exit code.
    Harness(String),
}

#[cfg(not(miri))]
pub fn run<F: FnOnce() -> Vec<u8>>(cpu_seconds: u64, f: F) -> Exit {
    use std::io::Write;
    let _ = std::io::stdout().flush();
    let mut fds = [0i32; 2];
    // SAFETY: plain pipe(2).
    if unsafe { libc::pipe(fds.as_mut_ptr()) } != 0 {
        return Exit::Harness("pipe failed".into());
    }
    // SAFETY: the monitors that use this are single threaded at the time of the fork.
    let pid = unsafe { libc::fork() };
    if pid < 0 {
        return Exit::Harness("fork failed".into());
    }
    if pid == 0 {
        // child
        unsafe {
            libc::close(fds[0]);
            let lim = libc::rlimit { rlim_cur: cpu_seconds, rlim_max: cpu_seconds + 2 };
            libc::setrlimit(libc::RLIMIT_CPU, &lim);
        }
        let res = std::panic::catch_unwind(std::panic::AssertUnwindSafe(f));
        let (tag, payload): (u8, Vec<u8>) = match res {
            Ok(v) => (0, v),
            Err(e) => {
                let msg = super::panic_message(&e);
                (1, msg.into_bytes())
            }
        };
        let mut buf = vec![tag];
        buf.extend_from_slice(&payload);
        let mut off = 0;
        while off < buf.len() {
            // SAFETY: writing from a live buffer.
            let n = unsafe { libc::write(fds[1], buf[off..].as_ptr() as *const _, buf.len() - off) };
            if n <= 0 {
                break;
            }
            off += n as usize;
        }
        // SAFETY: leave without running atexit handlers / flushing the parent's buffered stdout twice.
        unsafe { libc::_exit(0) };
    }
    // parent
    unsafe { libc::close(fds[1]) };
    let mut data = Vec::new();
    let mut tmp = [0u8; 4096];
    loop {
        // SAFETY: reading into a live buffer.
        let n = unsafe { libc::read(fds[0], tmp.as_mut_ptr() as *mut _, tmp.len()) };
        if n > 0 {
            data.extend_from_slice(&tmp[..n as usize]);
        } else if n == 0 {
            break;
        } else if std::io::Error::last_os_error().kind() == std::io::ErrorKind::Interrupted {
            continue;
        } else {
            break;
        }
    }
    unsafe { libc::close(fds[0]) };
    let mut status = 0i32;
    loop {
        // SAFETY: waiting for our own child.
        let r = unsafe { libc::waitpid(pid, &mut status, 0) };
        if r == pid {
            break;
        }
        if r < 0 && std::io::Error::last_os_error().kind() != std::io::ErrorKind::Interrupted {
            return Exit::Harness("waitpid failed".into());
        }
    }
    if libc::WIFSIGNALED(status) {
        let sig = libc::WTERMSIG(status);
        if sig == libc::SIGXCPU || sig == libc::SIGKILL {
            return Exit::CpuLimit;
        }
        return Exit::Signal(sig);
    }
    if libc::WIFEXITED(status) && libc::WEXITSTATUS(status) == 0 && !data.is_empty() {
        return match data[0] {
            0 => Exit::Ok(data[1..].to_vec()),
            _ => Exit::Panic(String::from_utf8_lossy(&data[1..]).to_string()),
        };
    }
    Exit::Harness(format!("child exit status {:#x}, {} payload bytes", status, data.len()))
}

#[cfg(miri)]
pub fn run<F: FnOnce() -> Vec<u8>>(_cpu_seconds: u64, f: F) -> Exit {
    match std::panic::catch_unwind(std::panic::AssertUnwindSafe(f)) {
        Ok(v) => Exit::Ok(v),
        Err(e) => Exit::Panic(super::panic_message(&e)),
    }
}

pub fn signal_name(s: i32) -> &'static str {
    match s {
        libc::SIGSEGV => "SIGSEGV",
        libc::SIGBUS => "SIGBUS",
        libc::SIGABRT => "SIGABRT",
        libc::SIGFPE => "SIGFPE",
        libc::SIGILL => "SIGILL",
        libc::SIGTRAP => "SIGTRAP",
        _ => "SIG?",
    }
}
