//! Address-space windows whose HOST addresses have chosen high bits: two small read-write windows
//! exactly 4 GiB apart, the first one centred on an address whose low 32 bits are zero. (Host
//! addresses are normally picked by the kernel; bits 32 and up of a buffer's address, and the
//! relation between two buffers modulo 2^32, are otherwise never varied.)

pub struct TwoWindows {
    base: *mut u8,
    len: usize,
    /// address with low 32 bits zero; [a - HALF, a + HALF) is readable and writable
    pub a: usize,
    /// a + 4 GiB; [b - HALF, b + HALF) is readable and writable
    pub b: usize,
}

pub const HALF: usize = 16 * 1024;
const G4: usize = 1 << 32;

impl TwoWindows {
    #[cfg(not(miri))]
    pub fn new() -> Option<TwoWindows> {
        let len = 2 * G4 + 4 * HALF;
        // SAFETY: fresh PROT_NONE reservation, never committed except for the two windows.
        let p = unsafe { libc::mmap(std::ptr::null_mut(), len, libc::PROT_NONE, libc::MAP_PRIVATE | libc::MAP_ANONYMOUS | libc::MAP_NORESERVE, -1, 0) };
        if p == libc::MAP_FAILED {
            return None;
        }
        let base = p as usize;
        let a = (base + 2 * HALF).div_ceil(G4) * G4;
        let b = a + G4;
        assert!(a - HALF >= base && b + HALF <= base + len);
        for w in [a, b] {
            // SAFETY: inside the reservation.
            let rc = unsafe { libc::mprotect((w - HALF) as *mut libc::c_void, 2 * HALF, libc::PROT_READ | libc::PROT_WRITE) };
            if rc != 0 {
                // SAFETY: our own reservation.
                unsafe { libc::munmap(p, len) };
                return None;
            }
        }
        Some(TwoWindows { base: p as *mut u8, len, a, b })
    }
    #[cfg(miri)]
    pub fn new() -> Option<TwoWindows> {
        None
    }
    pub fn fill(&self, v: u8) {
        for w in [self.a, self.b] {
            for i in 0..2 * HALF {
                // SAFETY: inside a read-write window.
                unsafe { ((w - HALF + i) as *mut u8).write_volatile(v) };
            }
        }
    }
    pub fn read(&self, addr: usize, n: usize) -> Vec<u8> {
        // SAFETY: callers stay inside a window.
        (0..n).map(|i| unsafe { ((addr + i) as *const u8).read_volatile() }).collect()
    }
    pub fn write(&self, addr: usize, data: &[u8]) {
        for (i, b) in data.iter().enumerate() {
            // SAFETY: callers stay inside a window.
            unsafe { ((addr + i) as *mut u8).write_volatile(*b) };
        }
    }
}

impl Drop for TwoWindows {
    fn drop(&mut self) {
        #[cfg(not(miri))]
        // SAFETY: our own reservation.
        unsafe {
            libc::munmap(self.base as *mut libc::c_void, self.len);
        }
        let _ = (self.base, self.len);
    }
}
