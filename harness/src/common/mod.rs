pub mod arena;
pub mod bigspace;
pub mod fork;
pub mod gen;
pub mod interpose;
pub mod out;
pub mod prng;

use std::any::Any;
use std::cell::RefCell;
use std::collections::HashMap;

thread_local! {
    static LAST_PANIC: RefCell<Option<String>> = RefCell::new(None);
}

/// Install a panic hook that records "message @ file:line" instead of printing it.
pub fn install_quiet_panic_hook() {
    std::panic::set_hook(Box::new(|info| {
        let loc = info
            .location()
            .map(|l| format!("{}:{}", l.file(), l.line()))
            .unwrap_or_default();
        let msg = if let Some(s) = info.payload().downcast_ref::<&str>() {
            s.to_string()
        } else if let Some(s) = info.payload().downcast_ref::<String>() {
            s.clone()
        } else {
            "<non-string panic>".to_string()
        };
        LAST_PANIC.with(|p| *p.borrow_mut() = Some(format!("{} @ {}", msg, loc)));
    }));
}

pub fn panic_message(e: &Box<dyn Any + Send>) -> String {
    if let Some(m) = LAST_PANIC.with(|p| p.borrow_mut().take()) {
        return m;
    }
    if let Some(s) = e.downcast_ref::<&str>() {
        s.to_string()
    } else if let Some(s) = e.downcast_ref::<String>() {
        s.clone()
    } else {
        "<non-string panic>".to_string()
    }
}

/// Run `f`, converting a panic into `Err(message @ location)`.
pub fn guarded<T, F: FnOnce() -> T>(f: F) -> Result<T, String> {
    match std::panic::catch_unwind(std::panic::AssertUnwindSafe(f)) {
        Ok(v) => Ok(v),
        Err(e) => Err(panic_message(&e)),
    }
}

/// Strip the location's line number from a panic message so that signatures are stable against
/// unrelated edits of the file ("msg @ src/x.rs:123" -> "msg @ src/x.rs").
pub fn panic_sig(msg: &str) -> String {
    let m = match msg.rfind(':') {
        Some(i) if msg[i + 1..].chars().all(|c| c.is_ascii_digit()) && i + 1 < msg.len() => &msg[..i],
        _ => msg,
    };
    // keep signatures short and free of concrete numbers
    let mut out = String::new();
    let mut last_digit = false;
    for c in m.chars() {
        if c.is_ascii_digit() {
            if !last_digit {
                out.push('N');
            }
            last_digit = true;
        } else {
            out.push(c);
            last_digit = false;
        }
    }
    // repo-relative path
    out.replace("/repo/", "")
}

#[derive(Clone, Debug, Default)]
pub struct Args {
    pub monitor: String,
    pub kv: HashMap<String, String>,
}

impl Args {
    pub fn parse() -> Args {
        let mut it = std::env::args().skip(1);
        let monitor = it.next().unwrap_or_default();
        let mut kv = HashMap::new();
        for a in it {
            if let Some((k, v)) = a.split_once('=') {
                kv.insert(k.to_string(), v.to_string());
            } else {
                kv.insert(a, "1".to_string());
            }
        }
        Args { monitor, kv }
    }
    pub fn u64(&self, k: &str, default: u64) -> u64 {
        self.kv.get(k).and_then(|v| v.parse().ok()).unwrap_or(default)
    }
    pub fn str(&self, k: &str, default: &str) -> String {
        self.kv.get(k).cloned().unwrap_or_else(|| default.to_string())
    }
    pub fn flag(&self, k: &str) -> bool {
        self.kv.contains_key(k)
    }
    pub fn seed(&self) -> u64 {
        self.u64("seed", 1)
    }
    /// Number of cases for this shard and the case indices it should run: (start, step, total)
    pub fn shard(&self) -> (u64, u64) {
        let s = self.str("shard", "0/1");
        let (i, n) = s.split_once('/').unwrap_or(("0", "1"));
        (i.parse().unwrap_or(0), n.parse().unwrap_or(1).max(1))
    }
    pub fn only_case(&self) -> Option<u64> {
        self.kv.get("only").and_then(|v| v.parse().ok())
    }
    /// Iterator over the case numbers of this shard.
    pub fn cases(&self, default_total: u64) -> Vec<u64> {
        if let Some(c) = self.only_case() {
            return vec![c];
        }
        let total = self.u64("cases", default_total);
        let (i, n) = self.shard();
        (0..total).filter(|c| c % n == i).collect()
    }
}
