//! Link-time interposition of mmap / munmap / read / write / ioctl (cargo feature `interpose`).
//!
//! Defining these symbols in the harness binary makes every call that vm-memory (or any other
//! Rust code in this process) issues through the `libc` crate land here first: an in-process
//! syscall *monitor* (event log) and *fault injector* (per-fd scripts, mmap failure) without
//! ptrace. The real work is done with raw `syscall(2)`.

#![allow(clippy::missing_safety_doc)]

use std::collections::VecDeque;
use std::sync::atomic::{AtomicBool, AtomicU64, Ordering};
use std::sync::Mutex;

#[derive(Clone, Debug, PartialEq, Eq)]
pub enum Ev {
    Mmap { addr: usize, len: usize, prot: i32, flags: i32, fd: i32, off: i64, ret: usize, errno: i32 },
    Munmap { addr: usize, len: usize, ret: i32, errno: i32 },
    Read { fd: i32, req: usize, ret: isize, errno: i32, injected: bool },
    Write { fd: i32, req: usize, ret: isize, errno: i32, injected: bool },
    Ioctl { fd: i32, req: u64, ret: i32, handled: bool },
}

/// Behaviour of one intercepted read/write call on a scripted fd.
#[derive(Clone, Copy, Debug, PartialEq, Eq)]
pub enum Beh {
    /// let the call through unchanged
    Full,
    /// let the call through with the length capped to k
    Short(usize),
    /// return 0 without touching the fd
    Zero,
    /// fail with EINTR
    Eintr,
    /// fail with the given errno
    Err(i32),
}

pub static ARMED: AtomicBool = AtomicBool::new(false);
static SEQ: AtomicU64 = AtomicU64::new(0);
static LOG: Mutex<Vec<Ev>> = Mutex::new(Vec::new());
static SCRIPT: Mutex<Option<(i32, VecDeque<Beh>)>> = Mutex::new(None);
static FAIL_MMAP: AtomicU64 = AtomicU64::new(0);
static FAIL_MMAP_AFTER: AtomicU64 = AtomicU64::new(u64::MAX);

/// Handler for ioctl requests (Xen emulator): returns Some(ret) if it handled the request.
pub type IoctlHandler = fn(fd: i32, req: u64, arg: *mut libc::c_void) -> Option<i32>;
static IOCTL_HANDLER: Mutex<Option<IoctlHandler>> = Mutex::new(None);

pub fn set_ioctl_handler(h: Option<IoctlHandler>) {
    *IOCTL_HANDLER.lock().unwrap() = h;
}

pub fn arm() {
    LOG.lock().unwrap().clear();
    ARMED.store(true, Ordering::SeqCst);
}
pub fn disarm() -> Vec<Ev> {
    ARMED.store(false, Ordering::SeqCst);
    std::mem::take(&mut *LOG.lock().unwrap())
}
pub fn take_log() -> Vec<Ev> {
    std::mem::take(&mut *LOG.lock().unwrap())
}
pub fn peek_log() -> Vec<Ev> {
    LOG.lock().unwrap().clone()
}
/// Script the next read/write calls on `fd`.
pub fn set_script(fd: i32, s: Vec<Beh>) {
    *SCRIPT.lock().unwrap() = Some((fd, s.into()));
}
pub fn clear_script() -> usize {
    SCRIPT.lock().unwrap().take().map_or(0, |(_, q)| q.len())
}
/// Make the next `n` mmap calls fail with ENOMEM.
pub fn fail_next_mmaps(n: u64) {
    FAIL_MMAP.store(n, Ordering::SeqCst);
}

/// Let `k` more mmap calls through, then fail one with ENOMEM (u64::MAX: disabled).
pub fn fail_mmap_after(k: u64) {
    FAIL_MMAP_AFTER.store(k, Ordering::SeqCst);
}

fn log(e: Ev) {
    if ARMED.load(Ordering::Relaxed) {
        SEQ.fetch_add(1, Ordering::Relaxed);
        if let Ok(mut l) = LOG.try_lock() {
            if l.len() < 2_000_000 {
                l.push(e);
            }
        }
    }
}

fn errno() -> i32 {
    // SAFETY: errno location is always valid.
    unsafe { *libc::__errno_location() }
}
fn set_errno(e: i32) {
    // SAFETY: errno location is always valid.
    unsafe { *libc::__errno_location() = e };
}

fn next_beh(fd: i32) -> Option<Beh> {
    if !ARMED.load(Ordering::Relaxed) {
        return None;
    }
    let mut g = SCRIPT.try_lock().ok()?;
    match g.as_mut() {
        Some((sfd, q)) if *sfd == fd => q.pop_front(),
        _ => None,
    }
}

#[cfg(all(feature = "interpose", not(miri)))]
mod syms {
    use super::*;
    use libc::{c_int, c_ulong, c_void, off_t, size_t, ssize_t};

    #[no_mangle]
    pub unsafe extern "C" fn mmap(addr: *mut c_void, len: size_t, prot: c_int, flags: c_int, fd: c_int, off: off_t) -> *mut c_void {
        if ARMED.load(Ordering::Relaxed) && FAIL_MMAP.load(Ordering::Relaxed) > 0 {
            FAIL_MMAP.fetch_sub(1, Ordering::SeqCst);
            set_errno(libc::ENOMEM);
            log(Ev::Mmap { addr: addr as usize, len, prot, flags, fd, off, ret: usize::MAX, errno: libc::ENOMEM });
            return libc::MAP_FAILED;
        }
        if ARMED.load(Ordering::Relaxed) {
            let k = FAIL_MMAP_AFTER.load(Ordering::SeqCst);
            if k == 0 {
                FAIL_MMAP_AFTER.store(u64::MAX, Ordering::SeqCst);
                set_errno(libc::ENOMEM);
                log(Ev::Mmap { addr: addr as usize, len, prot, flags, fd, off, ret: usize::MAX, errno: libc::ENOMEM });
                return libc::MAP_FAILED;
            } else if k != u64::MAX {
                FAIL_MMAP_AFTER.store(k - 1, Ordering::SeqCst);
            }
        }
        let r = libc::syscall(libc::SYS_mmap, addr, len, prot, flags, fd, off);
        let e = if r == -1 { errno() } else { 0 };
        log(Ev::Mmap { addr: addr as usize, len, prot, flags, fd, off, ret: r as usize, errno: e });
        r as *mut c_void
    }

    #[no_mangle]
    pub unsafe extern "C" fn munmap(addr: *mut c_void, len: size_t) -> c_int {
        let r = libc::syscall(libc::SYS_munmap, addr, len) as c_int;
        let e = if r == -1 { errno() } else { 0 };
        log(Ev::Munmap { addr: addr as usize, len, ret: r, errno: e });
        r
    }

    #[no_mangle]
    pub unsafe extern "C" fn read(fd: c_int, buf: *mut c_void, count: size_t) -> ssize_t {
        let (count2, injected) = match next_beh(fd) {
            None | Some(Beh::Full) => (count, false),
            Some(Beh::Short(k)) => (count.min(k), true),
            Some(Beh::Zero) => {
                log(Ev::Read { fd, req: count, ret: 0, errno: 0, injected: true });
                return 0;
            }
            Some(Beh::Eintr) => {
                set_errno(libc::EINTR);
                log(Ev::Read { fd, req: count, ret: -1, errno: libc::EINTR, injected: true });
                return -1;
            }
            Some(Beh::Err(e)) => {
                set_errno(e);
                log(Ev::Read { fd, req: count, ret: -1, errno: e, injected: true });
                return -1;
            }
        };
        let r = libc::syscall(libc::SYS_read, fd, buf, count2) as ssize_t;
        let e = if r == -1 { errno() } else { 0 };
        if fd > 2 {
            log(Ev::Read { fd, req: count, ret: r, errno: e, injected });
        }
        r
    }

    #[no_mangle]
    pub unsafe extern "C" fn write(fd: c_int, buf: *const c_void, count: size_t) -> ssize_t {
        if fd <= 2 {
            return libc::syscall(libc::SYS_write, fd, buf, count) as ssize_t;
        }
        let (count2, injected) = match next_beh(fd) {
            None | Some(Beh::Full) => (count, false),
            Some(Beh::Short(k)) => (count.min(k), true),
            Some(Beh::Zero) => {
                log(Ev::Write { fd, req: count, ret: 0, errno: 0, injected: true });
                return 0;
            }
            Some(Beh::Eintr) => {
                set_errno(libc::EINTR);
                log(Ev::Write { fd, req: count, ret: -1, errno: libc::EINTR, injected: true });
                return -1;
            }
            Some(Beh::Err(e)) => {
                set_errno(e);
                log(Ev::Write { fd, req: count, ret: -1, errno: e, injected: true });
                return -1;
            }
        };
        let r = libc::syscall(libc::SYS_write, fd, buf, count2) as ssize_t;
        let e = if r == -1 { errno() } else { 0 };
        log(Ev::Write { fd, req: count, ret: r, errno: e, injected });
        r
    }

    #[no_mangle]
    pub unsafe extern "C" fn ioctl(fd: c_int, req: c_ulong, arg: *mut c_void) -> c_int {
        let h = IOCTL_HANDLER.try_lock().ok().and_then(|g| *g);
        if let Some(h) = h {
            if let Some(r) = h(fd, req as u64, arg) {
                log(Ev::Ioctl { fd, req: req as u64, ret: r, handled: true });
                return r;
            }
        }
        libc::syscall(libc::SYS_ioctl, fd, req, arg) as c_int
    }
}

pub fn available() -> bool {
    cfg!(all(feature = "interpose", not(miri)))
}

/// Net effect of a log of mmap/munmap events on the address space: the page-granular pieces that
/// the logged successful mmaps created and that the logged munmaps have not removed again.
/// (Rules about mappings are stated on this net effect, not on the number or sizes of the calls:
/// an implementation may over-allocate and trim, or release a mapping in several calls.)
#[derive(Clone, Debug, Default)]
pub struct Pieces {
    /// disjoint, sorted [start, end)
    pub v: Vec<(usize, usize)>,
}

fn page_up(x: usize) -> usize {
    x.div_ceil(4096) * 4096
}

impl Pieces {
    pub fn add(&mut self, start: usize, len: usize) {
        let (s, e) = (start, start + page_up(len.max(1)));
        // a new mapping replaces whatever was there
        self.remove(s, e - s);
        self.v.push((s, e));
        self.v.sort();
    }
    pub fn remove(&mut self, start: usize, len: usize) {
        let (s, e) = (start, start + page_up(len.max(1)));
        let mut out = vec![];
        for &(a, b) in &self.v {
            if b <= s || a >= e {
                out.push((a, b));
            } else {
                if a < s {
                    out.push((a, s));
                }
                if b > e {
                    out.push((e, b));
                }
            }
        }
        self.v = out;
    }
    pub fn apply(&mut self, log: &[Ev]) {
        for e in log {
            match e {
                Ev::Mmap { ret, len, errno: 0, .. } => self.add(*ret, *len),
                Ev::Munmap { addr, len, ret: 0, .. } => self.remove(*addr, *len),
                _ => {}
            }
        }
    }
    /// the parts of [start, start+len) that are covered
    pub fn covered(&self, start: usize, len: usize) -> Vec<(usize, usize)> {
        let (s, e) = (start, start + len);
        self.v.iter().filter(|(a, b)| *b > s && *a < e).map(|(a, b)| ((*a).max(s), (*b).min(e))).collect()
    }
    pub fn covers(&self, start: usize, len: usize) -> bool {
        let mut cur = start;
        let end = start + len;
        for (a, b) in self.covered(start, len) {
            if a > cur {
                return false;
            }
            cur = cur.max(b);
        }
        cur >= end
    }
    pub fn total(&self) -> usize {
        self.v.iter().map(|(a, b)| b - a).sum()
    }
}
