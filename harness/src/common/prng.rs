//! Deterministic PRNG: SplitMix64 seeding + xoshiro256**.

use super::out::fnv;

#[derive(Clone, Debug)]
pub struct Rng {
    s: [u64; 4],
}

fn splitmix(x: &mut u64) -> u64 {
    *x = x.wrapping_add(0x9E3779B97F4A7C15);
    let mut z = *x;
    z = (z ^ (z >> 30)).wrapping_mul(0xBF58476D1CE4E5B9);
    z = (z ^ (z >> 27)).wrapping_mul(0x94D049BB133111EB);
    z ^ (z >> 31)
}

impl Rng {
    pub fn raw(seed: u64) -> Rng {
        let mut x = seed;
        let s = [splitmix(&mut x), splitmix(&mut x), splitmix(&mut x), splitmix(&mut x)];
        Rng { s }
    }
    /// Stream for (global seed, monitor/stream name, case index).
    pub fn new(seed: u64, stream: &str, case: u64) -> Rng {
        Rng::raw(seed ^ fnv(stream).rotate_left(17) ^ case.wrapping_mul(0xD6E8FEB86659FD93))
    }
    pub fn next(&mut self) -> u64 {
        let r = self.s[1].wrapping_mul(5).rotate_left(7).wrapping_mul(9);
        let t = self.s[1] << 17;
        self.s[2] ^= self.s[0];
        self.s[3] ^= self.s[1];
        self.s[1] ^= self.s[2];
        self.s[0] ^= self.s[3];
        self.s[2] ^= t;
        self.s[3] = self.s[3].rotate_left(45);
        r
    }
    /// Uniform in 0..n (n > 0).
    pub fn below(&mut self, n: u64) -> u64 {
        debug_assert!(n > 0);
        ((self.next() as u128 * n as u128) >> 64) as u64
    }
    pub fn usize_below(&mut self, n: usize) -> usize {
        self.below(n as u64) as usize
    }
    /// Uniform in lo..=hi.
    pub fn range(&mut self, lo: u64, hi: u64) -> u64 {
        if hi <= lo {
            return lo;
        }
        let span = hi - lo;
        if span == u64::MAX {
            return self.next();
        }
        lo + self.below(span + 1)
    }
    pub fn chance(&mut self, num: u64, den: u64) -> bool {
        self.below(den) < num
    }
    pub fn pick<'a, T>(&mut self, xs: &'a [T]) -> &'a T {
        &xs[self.usize_below(xs.len())]
    }
    /// Payload bytes: mostly random, one time in ten structured (all zero, all ones, one repeated
    /// byte, zeros with a single non-zero byte, random then zero) - data-dependent code paths
    /// (zero detection, run-length tricks) see their trigger values.
    pub fn bytes(&mut self, n: usize) -> Vec<u8> {
        if n >= 2 && self.below(10) == 0 {
            return match self.below(5) {
                0 => vec![0u8; n],
                1 => vec![0xffu8; n],
                2 => vec![self.byte(); n],
                3 => {
                    let mut v = vec![0u8; n];
                    let i = self.usize_below(n);
                    v[i] = self.byte() | 1;
                    v
                }
                _ => {
                    let mut v = self.random_bytes(n);
                    for b in v.iter_mut().skip(n / 2) {
                        *b = 0;
                    }
                    v
                }
            };
        }
        self.random_bytes(n)
    }
    pub fn random_bytes(&mut self, n: usize) -> Vec<u8> {
        let mut v = Vec::with_capacity(n);
        while v.len() < n {
            let x = self.next().to_le_bytes();
            let k = (n - v.len()).min(8);
            v.extend_from_slice(&x[..k]);
        }
        v
    }
    pub fn byte(&mut self) -> u8 {
        self.next() as u8
    }
}
