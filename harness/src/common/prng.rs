//! Deterministic PRNG: SplitMix64 seeding + xoshiro256**.

use super::out::fnv;

#[derive(Clone, Debug)]
pub struct Rng {
    s: [u64; 4],
}

fn splitmix(x: &mut u64) -> u64 {
    *x = x.wrapping_add(0x9E3779B97F4A7C15);
    let mut z = *x;
    z = (z ^ (z >> 30)).wrapping_mul(0xBF58476D1CE4E5B9);
    z = (z ^ (z >> 27)).wrapping_mul(0x94D049BB133111EB);
    z ^ (z >> 31)
}

impl Rng {
    pub fn raw(seed: u64) -> Rng {
        let mut x = seed;
        let s = [splitmix(&mut x), splitmix(&mut x), splitmix(&mut x), splitmix(&mut x)];
        Rng { s }
    }
    /// Stream for (global seed, monitor/stream name, case index).
    pub fn new(seed: u64, stream: &str, case: u64) -> Rng {
        Rng::raw(seed ^ fnv(stream).rotate_left(17) ^ case.wrapping_mul(0xD6E8FEB86659FD93))
    }
    pub fn next(&mut self) -> u64 {
        let r = self.s[1].wrapping_mul(5).rotate_left(7).wrapping_mul(9);
        let t = self.s[1] << 17;
        self.s[2] ^= self.s[0];
        self.s[3] ^= self.s[1];
        self.s[1] ^= self.s[2];
        self.s[0] ^= self.s[3];
        self.s[2] ^= t;
        self.s[3] = self.s[3].rotate_left(45);
        r
    }
    /// Uniform in 0..n (n > 0).
    pub fn below(&mut self, n: u64) -> u64 {
        debug_assert!(n > 0);
        ((self.next() as u128 * n as u128) >> 64) as u64
    }
    pub fn usize_below(&mut self, n: usize) -> usize {
        self.below(n as u64) as usize
    }
    /// Uniform in lo..=hi.
    pub fn range(&mut self, lo: u64, hi: u64) -> u64 {
        if hi <= lo {
            return lo;
        }
        let span = hi - lo;
        if span == u64::MAX {
            return self.next();
        }
        lo + self.below(span + 1)
    }
    pub fn chance(&mut self, num: u64, den: u64) -> bool {
        self.below(den) < num
    }
    pub fn pick<'a, T>(&mut self, xs: &'a [T]) -> &'a T {
        &xs[self.usize_below(xs.len())]
    }
    pub fn bytes(&mut self, n: usize) -> Vec<u8> {
        let mut v = Vec::with_capacity(n);
        while v.len() < n {
            let x = self.next().to_le_bytes();
            let k = (n - v.len()).min(8);
            v.extend_from_slice(&x[..k]);
        }
        v
    }
    pub fn byte(&mut self) -> u8 {
        self.next() as u8
    }
}
