//! Parent buffers with hostile surroundings: PROT_NONE guard pages directly before/after the
//! buffer (placements L / R) or canary bytes all around it (placement C).
//! Under Miri the arena is a plain allocation (exact size for L/R so that Miri's own
//! out-of-bounds detection takes over; margins with canaries for C).

#[derive(Clone, Copy, Debug, PartialEq, Eq)]
pub enum Place {
    /// start of the buffer abuts the leading guard page
    L,
    /// end of the buffer abuts the trailing guard page
    R,
    /// somewhere in the middle at a chosen address modulo 16, canaries on both sides
    C(usize),
}

pub struct Arena {
    map_base: *mut u8,
    map_len: usize,
    data_base: *mut u8,
    data_len: usize,
    pub ptr: *mut u8,
    pub len: usize,
    pub place: Place,
    miri_layout: Option<std::alloc::Layout>,
}

const PAGE: usize = 4096;
const MARGIN: usize = 96;

#[inline]
fn canary(off: usize) -> u8 {
    (off.wrapping_mul(131).wrapping_add(0x5b)) as u8 | 1
}

impl Arena {
    #[cfg(not(miri))]
    pub fn new(len: usize, place: Place) -> Arena {
        use std::sync::OnceLock;
        static HEAP: OnceLock<bool> = OnceLock::new();
        // under AddressSanitizer the orchestrator selects plain heap allocations (exact size for
        // L/R placements) so that ASan's red zones are the out-of-bounds oracle
        if *HEAP.get_or_init(|| std::env::var("VMV_ARENA").map_or(false, |v| v == "heap")) {
            return Arena::new_heap(len, place);
        }
        let need = len + 2 * MARGIN + 32;
        let data_pages = need.div_ceil(PAGE).max(1);
        let data_len = data_pages * PAGE;
        let map_len = data_len + 2 * PAGE;
        // SAFETY: fresh anonymous mapping.
        let base = unsafe {
            libc::mmap(
                std::ptr::null_mut(),
                map_len,
                libc::PROT_NONE,
                libc::MAP_PRIVATE | libc::MAP_ANONYMOUS,
                -1,
                0,
            )
        };
        assert!(base != libc::MAP_FAILED, "arena mmap failed");
        let base = base as *mut u8;
        // SAFETY: inside the mapping just created.
        let data_base = unsafe { base.add(PAGE) };
        let rc = unsafe {
            libc::mprotect(data_base as *mut _, data_len, libc::PROT_READ | libc::PROT_WRITE)
        };
        assert_eq!(rc, 0);
        for i in 0..data_len {
            // SAFETY: data pages are RW.
            unsafe { data_base.add(i).write(canary(i)) };
        }
        let off = match place {
            Place::L => 0,
            Place::R => data_len - len,
            Place::C(m) => {
                let o = MARGIN;
                // choose address modulo 16 == m
                let cur = (data_base as usize + o) % 16;
                o + (16 + m % 16 - cur) % 16
            }
        };
        let ptr = unsafe { data_base.add(off) };
        Arena {
            map_base: base,
            map_len,
            data_base,
            data_len,
            ptr,
            len,
            place,
            miri_layout: None,
        }
    }

    #[cfg(miri)]
    pub fn new(len: usize, place: Place) -> Arena {
        Arena::new_heap(len, place)
    }

    pub fn new_heap(len: usize, place: Place) -> Arena {
        let (data_len, off) = match place {
            Place::L | Place::R => (len.max(1), 0),
            Place::C(m) => (len + 2 * MARGIN + 32, MARGIN + (m % 16)),
        };
        let layout = std::alloc::Layout::from_size_align(data_len, 16).unwrap();
        // SAFETY: non-zero size.
        let data_base = unsafe { std::alloc::alloc(layout) };
        assert!(!data_base.is_null());
        for i in 0..data_len {
            unsafe { data_base.add(i).write(canary(i)) };
        }
        let ptr = unsafe { data_base.add(off) };
        Arena {
            map_base: data_base,
            map_len: data_len,
            data_base,
            data_len,
            ptr,
            len,
            place,
            miri_layout: Some(layout),
        }
    }

    fn off(&self) -> usize {
        self.ptr as usize - self.data_base as usize
    }

    /// Fill the buffer itself.
    pub fn fill(&self, f: impl Fn(usize) -> u8) {
        for i in 0..self.len {
            // SAFETY: inside the buffer.
            unsafe { self.ptr.add(i).write_volatile(f(i)) };
        }
    }

    pub fn read_all(&self) -> Vec<u8> {
        let mut v = Vec::with_capacity(self.len);
        for i in 0..self.len {
            // SAFETY: inside the buffer.
            v.push(unsafe { self.ptr.add(i).read_volatile() });
        }
        v
    }

    pub fn write_at(&self, off: usize, data: &[u8]) {
        assert!(off + data.len() <= self.len);
        for (i, b) in data.iter().enumerate() {
            unsafe { self.ptr.add(off + i).write_volatile(*b) };
        }
    }

    /// First canary byte (offset relative to the buffer start, may be negative) that changed.
    pub fn check_canaries(&self) -> Option<isize> {
        let o = self.off();
        for i in 0..self.data_len {
            if i >= o && i < o + self.len {
                continue;
            }
            // SAFETY: data pages are readable.
            let b = unsafe { self.data_base.add(i).read_volatile() };
            if b != canary(i) {
                return Some(i as isize - o as isize);
            }
        }
        None
    }

    /// Restore canaries (after a reported violation, so that later checks stay meaningful).
    pub fn repaint(&self) {
        let o = self.off();
        for i in 0..self.data_len {
            if i >= o && i < o + self.len {
                continue;
            }
            unsafe { self.data_base.add(i).write_volatile(canary(i)) };
        }
    }

    pub fn contains(&self, addr: usize, n: usize) -> bool {
        let s = self.ptr as usize;
        addr >= s && addr as u128 + n as u128 <= s as u128 + self.len as u128
    }
}

impl Drop for Arena {
    fn drop(&mut self) {
        if let Some(layout) = self.miri_layout {
            // SAFETY: same layout as in new_heap().
            unsafe { std::alloc::dealloc(self.map_base, layout) };
            return;
        }
        #[cfg(not(miri))]
        // SAFETY: unmapping what new() mapped.
        unsafe {
            libc::munmap(self.map_base as *mut _, self.map_len);
        }
    }
}
