//! Boundary-biased generators. Every value comes with the name of its boundary class so that
//! monitors can count which classes were actually exercised.

use super::prng::Rng;

/// A `usize` argument (offset / length / count) for a container of `len` bytes that lives at
/// host address `base`.
pub fn edge_usize(r: &mut Rng, len: usize, base: usize) -> (usize, &'static str) {
    let w = r.below(100);
    match w {
        0..=7 => (*r.pick(&[0usize, 1, 2, 3, 7, 8, 9]), "tiny"),
        8..=29 => {
            // around len
            let d = r.below(19) as i64 - 9;
            let v = (len as i128 + d as i128).clamp(0, usize::MAX as i128) as usize;
            (v, if d < 0 { "len-" } else if d == 0 { "len" } else { "len+" })
        }
        30..=34 => (len / 2, "half"),
        35..=54 => {
            if len == 0 {
                (0, "inside")
            } else {
                (r.usize_below(len + 1), "inside")
            }
        }
        55..=58 => {
            let d = r.below(3) as i128 - 1;
            (((1i128 << 31) + d) as usize, "2^31")
        }
        59..=62 => {
            let d = r.below(3) as i128 - 1;
            (((1i128 << 32) + d) as usize, "2^32")
        }
        63..=68 => {
            let d = r.below(3) as i128 - 1;
            ((isize::MAX as i128 + d) as usize, "isize::MAX")
        }
        69..=72 => {
            let d = r.below(3) as i128 - 1;
            (((1i128 << 63) + d) as usize, "2^63")
        }
        73..=80 => (usize::MAX - r.usize_below(10), "usize::MAX"),
        81..=88 => {
            // pointer-overflowing: base + v wraps around (or just does not)
            let d = r.below(5) as i128 - 2;
            let v = (usize::MAX as i128 - base as i128 + d).clamp(0, usize::MAX as i128) as usize;
            (v, "ptr-overflow")
        }
        89..=92 => (r.usize_below(64), "small"),
        93..=96 => (pow2_near(r) as usize, "2^k+-d"),
        _ => (r.next() as usize, "random64"),
    }
}

/// A power of two (any bit position 1..63) plus or minus a small distance, or a multiple of a
/// power of two: values on which width-truncating arithmetic (u32 / i32 / 48-bit) and
/// size-threshold fast paths change behaviour.
pub fn pow2_near(r: &mut Rng) -> u64 {
    let k = 1 + r.below(63);
    let base = 1u64 << k;
    match r.below(8) {
        0 => base,
        1 => base - 1,
        2 => base.wrapping_add(1),
        3 => base.wrapping_add(r.below(66)),
        4 => base.wrapping_sub(r.below(66)),
        5 => base.wrapping_mul(1 + r.below(4)),
        6 => base.wrapping_add(1u64 << r.below(k)),
        _ => base.wrapping_add(r.below(1 << 12)),
    }
}

/// Is the class one of the "huge / overflowing" ones?
pub fn is_overflow_class(c: &str) -> bool {
    matches!(c, "2^31" | "2^32" | "isize::MAX" | "2^63" | "usize::MAX" | "ptr-overflow" | "random64" | "2^k+-d")
}

/// A guest address, biased towards the edges of the given regions (start, len) and the extremes.
pub fn edge_u64(r: &mut Rng, regions: &[(u64, u64)]) -> (u64, &'static str) {
    let w = r.below(100);
    match w {
        0..=49 if !regions.is_empty() => {
            let (s, l) = *r.pick(regions);
            let d = r.below(5) as i128 - 2;
            if r.chance(1, 2) {
                let v = (s as i128 + d).clamp(0, u64::MAX as i128) as u64;
                (v, "region-start")
            } else {
                let v = (s as i128 + l as i128 - 1 + d).clamp(0, u64::MAX as i128) as u64;
                (v, "region-end")
            }
        }
        50..=64 if !regions.is_empty() => {
            let (s, l) = *r.pick(regions);
            (s + r.below(l.max(1)), "region-inside")
        }
        65..=69 => (r.below(17), "zero"),
        70..=73 => (((1u128 << 32) as i128 + r.below(33) as i128 - 16) as u64, "2^32"),
        74..=77 => (((1u128 << 63) as i128 + r.below(33) as i128 - 16) as u64, "2^63"),
        78..=87 => (u64::MAX - r.below(17), "2^64"),
        88..=91 => (pow2_near(r), "2^k+-d"),
        _ => (r.next(), "random64"),
    }
}
