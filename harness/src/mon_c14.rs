//! C14 — stream transfers lose or duplicate nothing under short I/O, EINTR and errors.
//! Oracle: conservation over the event log of a scripted stream. Every script of per-call
//! behaviours up to a bounded length is enumerated (fault enumeration); real descriptors are
//! driven through the interposed read/write with the same scripts.

use crate::common::arena::{Arena, Place};
use crate::common::interpose::{self, Beh as IBeh};
use crate::common::out::{self, J};
use crate::common::prng::Rng;
use crate::common::{guarded, panic_sig, Args};
use std::io::ErrorKind;
use std::os::fd::AsRawFd;
use vm_memory::bitmap::BitmapSlice;
use vm_memory::guest_memory::Error as GErr;
use vm_memory::{
    Bytes, GuestAddress, GuestMemory, GuestMemoryMmap, GuestMemoryRegion, GuestRegionMmap,
    MemoryRegionAddress, ReadVolatile, VolatileMemoryError, VolatileSlice, WriteVolatile,
};

#[derive(Clone, Copy, Debug, PartialEq, Eq)]
enum Beh {
    Full,
    Short1,
    ShortK,
    Zero,
    Eintr,
    Eintr3,
    ErrIo,
    ErrWouldBlock,
    /// a long uninterrupted run of interruptions (not part of the enumerated alphabet)
    EintrStorm,
}
/// length of an interruption storm: well beyond any "give up after N retries" constant one would pick
const STORM: usize = (1 << 17) + 3;
const ALPHA: [Beh; 8] = [Beh::Full, Beh::Short1, Beh::ShortK, Beh::Zero, Beh::Eintr, Beh::Eintr3, Beh::ErrIo, Beh::ErrWouldBlock];
const K: usize = 3;

/// flatten Eintr3 into three Eintr
fn expand(script: &[Beh]) -> Vec<Beh> {
    let mut v = vec![];
    for b in script {
        if *b == Beh::Eintr3 {
            v.extend([Beh::Eintr; 3]);
        } else if *b == Beh::EintrStorm {
            v.extend(std::iter::repeat(Beh::Eintr).take(STORM));
        } else {
            v.push(*b);
        }
    }
    v
}

fn src_byte(k: usize) -> u8 {
    // unique within 251 positions; never equal to the memory pattern (which has the top bit set)
    (((k % 127) ^ (k / 127 % 64)) as u8) & 0x7f
}
fn mem_byte(k: usize) -> u8 {
    // position dependent beyond one 128-byte period (long runs): mixes the higher index bits in
    0x80 | ((((k ^ (k >> 7) ^ (k >> 13)) as u8).wrapping_mul(31)) & 0x7f)
}

#[derive(Debug, Clone)]
struct CallRec {
    req: usize,
    beh: Beh,
    moved: usize,
}

/// Scripted reader: source is the infinite byte string src_byte(0), src_byte(1), ...
struct SReader {
    script: Vec<Beh>,
    pos: usize,
    consumed: usize,
    calls: Vec<CallRec>,
}
impl ReadVolatile for SReader {
    fn read_volatile<B: BitmapSlice>(&mut self, buf: &mut VolatileSlice<B>) -> Result<usize, VolatileMemoryError> {
        let beh = if self.pos < self.script.len() { self.script[self.pos] } else { Beh::Full };
        self.pos += 1;
        let req = buf.len();
        let n = match beh {
            Beh::Full => req,
            Beh::Short1 => req.min(1),
            Beh::ShortK => req.min(K),
            Beh::Zero => 0,
            Beh::Eintr | Beh::Eintr3 | Beh::EintrStorm => {
                self.calls.push(CallRec { req, beh, moved: 0 });
                return Err(VolatileMemoryError::IOError(std::io::Error::from(ErrorKind::Interrupted)));
            }
            Beh::ErrIo => {
                self.calls.push(CallRec { req, beh, moved: 0 });
                return Err(VolatileMemoryError::IOError(std::io::Error::from_raw_os_error(libc::EIO)));
            }
            Beh::ErrWouldBlock => {
                self.calls.push(CallRec { req, beh, moved: 0 });
                return Err(VolatileMemoryError::IOError(std::io::Error::from(ErrorKind::WouldBlock)));
            }
        };
        let data: Vec<u8> = (0..n).map(|i| src_byte(self.consumed + i)).collect();
        buf.write_slice(&data, 0).expect("scripted reader: store into the offered buffer");
        self.consumed += n;
        self.calls.push(CallRec { req, beh, moved: n });
        Ok(n)
    }
}

struct SWriter {
    script: Vec<Beh>,
    pos: usize,
    received: Vec<u8>,
    /// first bytes of what was offered on each call (to check that the next offer starts at the
    /// next guest byte)
    offers: Vec<(usize, Vec<u8>)>,
    calls: Vec<CallRec>,
}
impl WriteVolatile for SWriter {
    fn write_volatile<B: BitmapSlice>(&mut self, buf: &VolatileSlice<B>) -> Result<usize, VolatileMemoryError> {
        let beh = if self.pos < self.script.len() { self.script[self.pos] } else { Beh::Full };
        self.pos += 1;
        let req = buf.len();
        let mut offered = vec![0u8; req];
        buf.read_slice(&mut offered, 0).expect("scripted writer: read the offered buffer");
        self.offers.push((self.received.len(), offered.clone()));
        let n = match beh {
            Beh::Full => req,
            Beh::Short1 => req.min(1),
            Beh::ShortK => req.min(K),
            Beh::Zero => 0,
            Beh::Eintr | Beh::Eintr3 | Beh::EintrStorm => {
                self.calls.push(CallRec { req, beh, moved: 0 });
                return Err(VolatileMemoryError::IOError(std::io::Error::from(ErrorKind::Interrupted)));
            }
            Beh::ErrIo => {
                self.calls.push(CallRec { req, beh, moved: 0 });
                return Err(VolatileMemoryError::IOError(std::io::Error::from_raw_os_error(libc::EIO)));
            }
            Beh::ErrWouldBlock => {
                self.calls.push(CallRec { req, beh, moved: 0 });
                return Err(VolatileMemoryError::IOError(std::io::Error::from(ErrorKind::WouldBlock)));
            }
        };
        self.received.extend_from_slice(&offered[..n]);
        self.calls.push(CallRec { req, beh, moved: n });
        Ok(n)
    }
}

#[derive(Debug, Clone, PartialEq)]
enum Outcome {
    Ok(usize),
    Partial { expected: usize, completed: usize },
    Io(ErrorKind),
    InvalidAddr,
    Other(String),
}

fn from_v(r: Result<usize, VolatileMemoryError>) -> Outcome {
    match r {
        Ok(n) => Outcome::Ok(n),
        Err(VolatileMemoryError::IOError(e)) => Outcome::Io(e.kind()),
        Err(VolatileMemoryError::PartialBuffer { expected, completed }) => Outcome::Partial { expected, completed },
        Err(VolatileMemoryError::OutOfBounds { .. }) => Outcome::InvalidAddr,
        Err(e) => Outcome::Other(format!("{:?}", e)),
    }
}
fn from_g(r: Result<usize, GErr>) -> Outcome {
    match r {
        Ok(n) => Outcome::Ok(n),
        Err(GErr::IOError(e)) => Outcome::Io(e.kind()),
        Err(GErr::PartialBuffer { expected, completed }) => Outcome::Partial { expected, completed },
        Err(GErr::InvalidGuestAddress(_)) | Err(GErr::InvalidBackendAddress) => Outcome::InvalidAddr,
        Err(e) => Outcome::Other(format!("{:?}", e)),
    }
}

#[derive(Clone, Copy, Debug, PartialEq, Eq)]
enum Entry {
    ReadUpTo,
    ReadExact,
    WriteUpTo,
    WriteAll,
}
#[derive(Clone, Copy, Debug, PartialEq, Eq)]
enum Target {
    Slice,
    Region,
    GuestTwoRegions,
    GuestEndsInHole,
}

/// The memory under test: a byte string `run` bytes long starting at the transfer address,
/// possibly followed by a hole. `read_mem` gives the bytes of [a, a+run), `do_*` run the call.
struct Rig {
    arena: Arena,
    gm: GuestMemoryMmap<()>,
    // guest layout: region A [0x1000, 0x1000+la), region B adjacent [.., +lb); hole after B
    la: usize,
    lb: usize,
    /// long-run variant: region A and the slice are longer than 64 KiB (transfer magnitude)
    big: bool,
}

impl Rig {
    fn new_big() -> Rig {
        let la = 0x11000usize + 24;
        let lb = 20usize;
        let ra = GuestRegionMmap::<()>::from_range(GuestAddress(0x1000), la, None).unwrap();
        let rb = GuestRegionMmap::<()>::from_range(GuestAddress(0x1000 + la as u64), lb, None).unwrap();
        Rig { arena: Arena::new(0x11000 + 40, Place::C(5)), gm: GuestMemoryMmap::from_regions(vec![ra, rb]).unwrap(), la, lb, big: true }
    }
    fn new() -> Rig {
        let la = 24usize;
        let lb = 20usize;
        let ra = GuestRegionMmap::<()>::from_range(GuestAddress(0x1000), la, None).unwrap();
        let rb = GuestRegionMmap::<()>::from_range(GuestAddress(0x1000 + la as u64), lb, None).unwrap();
        Rig { arena: Arena::new(40, Place::C(5)), gm: GuestMemoryMmap::from_regions(vec![ra, rb]).unwrap(), la, lb, big: false }
    }
    fn reset(&self) {
        self.arena.fill(mem_byte);
        for (ri, reg) in self.gm.iter().enumerate() {
            for i in 0..reg.len() as usize {
                unsafe { reg.as_ptr().add(i).write_volatile(mem_byte(i + 100 * ri)) };
            }
        }
    }
    /// (start offset within the target's linear byte string, run length available from there)
    fn geometry(&self, t: Target) -> (usize, usize) {
        match t {
            Target::Slice => (9, self.arena.len - 9),
            Target::Region => (5, self.la - 5),
            // starts 10 bytes before the end of region A: spans A and B
            // (long-run variant: starts 16 bytes into A, so that > 64 KiB lie inside one region)
            Target::GuestTwoRegions if self.big => (16, self.la - 16 + self.lb),
            Target::GuestTwoRegions => (self.la - 10, 10 + self.lb),
            Target::GuestEndsInHole => (self.la + self.lb - 6, 6),
        }
    }
    /// all bytes of the target's linear space (slice: arena; others: A followed by B)
    fn linear(&self, t: Target) -> Vec<u8> {
        match t {
            Target::Slice => self.arena.read_all(),
            _ => {
                let mut v = vec![];
                for reg in self.gm.iter() {
                    for i in 0..reg.len() as usize {
                        v.push(unsafe { reg.as_ptr().add(i).read_volatile() });
                    }
                }
                v
            }
        }
    }
    fn read_from<R: ReadVolatile>(&self, t: Target, e: Entry, src: &mut R, count: usize) -> Outcome {
        let (off, _) = self.geometry(t);
        match t {
            Target::Slice => {
                let s = unsafe { VolatileSlice::new(self.arena.ptr, self.arena.len) };
                if e == Entry::ReadUpTo {
                    from_v(s.read_volatile_from(off, src, count))
                } else {
                    from_v(s.read_exact_volatile_from(off, src, count).map(|()| count))
                }
            }
            Target::Region => {
                let reg = self.gm.iter().next().unwrap();
                let a = MemoryRegionAddress(off as u64);
                if e == Entry::ReadUpTo {
                    from_g(reg.read_volatile_from(a, src, count))
                } else {
                    from_g(reg.read_exact_volatile_from(a, src, count).map(|()| count))
                }
            }
            _ => {
                let a = GuestAddress(0x1000 + off as u64);
                if e == Entry::ReadUpTo {
                    from_g(self.gm.read_volatile_from(a, src, count))
                } else {
                    from_g(self.gm.read_exact_volatile_from(a, src, count).map(|()| count))
                }
            }
        }
    }
    fn write_to<W: WriteVolatile>(&self, t: Target, e: Entry, dst: &mut W, count: usize) -> Outcome {
        let (off, _) = self.geometry(t);
        match t {
            Target::Slice => {
                let s = unsafe { VolatileSlice::new(self.arena.ptr, self.arena.len) };
                if e == Entry::WriteUpTo {
                    from_v(s.write_volatile_to(off, dst, count))
                } else {
                    from_v(s.write_all_volatile_to(off, dst, count).map(|()| count))
                }
            }
            Target::Region => {
                let reg = self.gm.iter().next().unwrap();
                let a = MemoryRegionAddress(off as u64);
                if e == Entry::WriteUpTo {
                    from_g(reg.write_volatile_to(a, dst, count))
                } else {
                    from_g(reg.write_all_volatile_to(a, dst, count).map(|()| count))
                }
            }
            _ => {
                let a = GuestAddress(0x1000 + off as u64);
                if e == Entry::WriteUpTo {
                    from_g(self.gm.write_volatile_to(a, dst, count))
                } else {
                    from_g(self.gm.write_all_volatile_to(a, dst, count).map(|()| count))
                }
            }
        }
    }
}

fn v(sig: &str, t: Target, e: Entry, script: &[Beh], count: usize, d: J) {
    out::viol(
        &format!("C14/{:?}/{:?}/{}", e, t, sig),
        jobj! {"script" => J::dbg(&script), "count" => count, "detail" => d},
    );
}

fn hard(b: Beh) -> Option<ErrorKind> {
    match b {
        Beh::ErrIo => Some(std::io::Error::from_raw_os_error(libc::EIO).kind()),
        Beh::ErrWouldBlock => Some(ErrorKind::WouldBlock),
        _ => None,
    }
}

/// Judge one execution from the call log. `moved_total` = bytes the stream delivered/accepted.
fn judge(rig: &Rig, t: Target, e: Entry, script: &[Beh], count: usize, outc: &Outcome, calls: &[CallRec], before: &[u8], stream_bytes: &[u8], exact: bool, reading: bool) {
    let (off, run) = rig.geometry(t);
    let after = rig.linear(t);
    let moved: usize = calls.iter().map(|c| c.moved).sum();
    let limit = count.min(run);
    // I0: never more than requested / available
    if moved > limit {
        v("moved-more-than-requested", t, e, script, count, jobj! {"moved" => moved, "limit" => limit});
    }
    for c in calls {
        if c.req > limit.max(1) && c.req > count {
            v("offered-buffer-larger-than-count", t, e, script, count, jobj! {"req" => c.req});
        }
    }
    // I1/I2: conservation + frame
    if reading {
        for (i, b) in after.iter().enumerate() {
            let want = if i >= off && i < off + moved { src_byte(i - off) } else { before[i] };
            if *b != want {
                let what = if i >= off && i < off + moved { "consumed-bytes-not-stored-in-order" } else { "byte-outside-transferred-prefix-changed" };
                v(what, t, e, script, count, jobj! {"at" => i as i64 - off as i64, "got" => *b, "want" => want, "moved" => moved, "calls" => J::dbg(&calls)});
                break;
            }
        }
    } else {
        if after != before {
            v("guest-memory-changed-by-write-out", t, e, script, count, J::Null);
        }
        if stream_bytes.len() != moved || stream_bytes[..] != before[off..off + moved.min(before.len() - off)] {
            v("bytes-handed-to-writer-are-not-the-next-guest-bytes", t, e, script, count, jobj! {"received" => stream_bytes.len(), "moved" => moved, "calls" => J::dbg(&calls)});
        }
    }
    // I3: an interruption is never reported; I5: the first hard error ends the transfer and is reported
    if *outc == Outcome::Io(ErrorKind::Interrupted) {
        v("interrupted-reported-to-caller", t, e, script, count, J::dbg(&calls));
    }
    let consumed_hard: Vec<(usize, ErrorKind)> = calls.iter().enumerate().filter_map(|(i, c)| hard(c.beh).map(|k| (i, k))).collect();
    if let Some((i, k)) = consumed_hard.first() {
        if *i + 1 != calls.len() {
            v("transfer-continued-after-hard-error", t, e, script, count, J::dbg(&calls));
        }
        if *outc != Outcome::Io(*k) {
            v("hard-error-not-reported", t, e, script, count, jobj! {"got" => J::dbg(outc), "want_kind" => J::dbg(k), "calls" => J::dbg(&calls)});
        }
        return;
    }
    // I6: EINTR retried: an Eintr entry is never the last call unless nothing was left to do
    if let Some(last) = calls.last() {
        if matches!(last.beh, Beh::Eintr | Beh::Eintr3 | Beh::EintrStorm) {
            v("interruption-not-retried", t, e, script, count, J::dbg(&calls));
        }
    }
    // no hard error was consumed from here on
    let zero_seen = calls.iter().any(|c| c.beh == Beh::Zero && c.req > 0);
    match outc {
        Outcome::Ok(n) => {
            if exact {
                if moved != count || *n != count {
                    v("exact-form-ok-with-fewer-bytes", t, e, script, count, jobj! {"moved" => moved, "calls" => J::dbg(&calls)});
                }
            } else if *n != moved {
                v("up-to-form-count-differs-from-bytes-moved", t, e, script, count, jobj! {"returned" => *n, "moved" => moved, "calls" => J::dbg(&calls)});
            }
        }
        Outcome::Partial { expected, completed } => {
            if !exact || *expected != count || *completed != moved || moved == count {
                v("partial-buffer-report-wrong", t, e, script, count, jobj! {"got" => J::dbg(outc), "moved" => moved, "calls" => J::dbg(&calls)});
            }
        }
        Outcome::Io(k) => {
            // without a hard error in the log, an I/O error is legitimate only as the EOF /
            // write-zero report of an exact(-per-region) form that met a zero-length transfer
            let ok = zero_seen && ((reading && exact && *k == ErrorKind::UnexpectedEof) || (!reading && *k == ErrorKind::WriteZero && (exact || matches!(t, Target::GuestTwoRegions | Target::GuestEndsInHole))));
            if !ok {
                v("error-without-stream-error", t, e, script, count, jobj! {"got" => J::dbg(outc), "calls" => J::dbg(&calls)});
            }
            if moved == count && exact && count > 0 {
                v("exact-form-err-with-all-bytes-moved", t, e, script, count, J::dbg(&calls));
            }
        }
        Outcome::InvalidAddr => {
            // exact forms on slice/region level reject a range that does not fit before moving anything
            if !(exact && count > run && moved == 0 && matches!(t, Target::Slice | Target::Region)) {
                v("invalid-address-reported", t, e, script, count, jobj! {"moved" => moved, "run" => run});
            }
        }
        Outcome::Other(s) => v("unexpected-error", t, e, script, count, J::s(s)),
    }
    if exact && matches!(outc, Outcome::Ok(_)) && moved != count {
        v("exact-form-ok-with-fewer-bytes", t, e, script, count, jobj! {"moved" => moved});
    }
}

fn counts_for(run: usize) -> Vec<usize> {
    let mut c = vec![0usize, 1, 7, 8, 9, run - 1, run, run + 1];
    c.sort();
    c.dedup();
    c
}

fn run_one(rig: &Rig, t: Target, e: Entry, script: &[Beh], count: usize) {
    rig.reset();
    let before = rig.linear(t);
    let ex = expand(script);
    out::eval(1);
    match e {
        Entry::ReadUpTo | Entry::ReadExact => {
            let mut src = SReader { script: ex, pos: 0, consumed: 0, calls: vec![] };
            let outc = rig.read_from(t, e, &mut src, count);
            judge(rig, t, e, script, count, &outc, &src.calls, &before, &[], e == Entry::ReadExact, true);
            key(t, e, script, count, rig, &outc);
        }
        _ => {
            let mut dst = SWriter { script: ex, pos: 0, received: vec![], offers: vec![], calls: vec![] };
            let outc = rig.write_to(t, e, &mut dst, count);
            // every offer must start at the next guest byte
            let (off, _) = rig.geometry(t);
            for (acc, offered) in &dst.offers {
                let start = off + acc;
                if offered.len() > before.len() - start.min(before.len()) || offered[..] != before[start..start + offered.len()] {
                    v("offered-buffer-does-not-start-at-next-guest-byte", t, e, script, count, jobj! {"accepted_so_far" => *acc, "offered_len" => offered.len()});
                    break;
                }
            }
            judge(rig, t, e, script, count, &outc, &dst.calls, &before, &dst.received, e == Entry::WriteAll, false);
            key(t, e, script, count, rig, &outc);
        }
    }
}

/// Forwarding implementations the library MAY provide (`&mut S`, `Box<S>` for a stream `S`, as std
/// has them for Read / Write): detected at compile time by autoref-based method selection; where
/// they exist, the scripts run through them and are judged exactly like the direct runs.
mod forwarding {
    use super::*;
    pub struct W<T>(pub std::cell::RefCell<T>);
    pub trait ProvidedSink {
        fn drive_sink(&self, rig: &Rig, t: Target, e: Entry, count: usize) -> Option<Outcome>;
    }
    impl<T: WriteVolatile> ProvidedSink for W<T> {
        fn drive_sink(&self, rig: &Rig, t: Target, e: Entry, count: usize) -> Option<Outcome> {
            Some(rig.write_to(t, e, &mut *self.0.borrow_mut(), count))
        }
    }
    pub trait AbsentSink {
        fn drive_sink(&self, _rig: &Rig, _t: Target, _e: Entry, _count: usize) -> Option<Outcome> {
            None
        }
    }
    impl<T> AbsentSink for &W<T> {}
    pub trait ProvidedSource {
        fn drive_source(&self, rig: &Rig, t: Target, e: Entry, count: usize) -> Option<Outcome>;
    }
    impl<T: ReadVolatile> ProvidedSource for W<T> {
        fn drive_source(&self, rig: &Rig, t: Target, e: Entry, count: usize) -> Option<Outcome> {
            Some(rig.read_from(t, e, &mut *self.0.borrow_mut(), count))
        }
    }
    pub trait AbsentSource {
        fn drive_source(&self, _rig: &Rig, _t: Target, _e: Entry, _count: usize) -> Option<Outcome> {
            None
        }
    }
    impl<T> AbsentSource for &W<T> {}
}

/// One scripted execution through `&mut S` (boxed = false) or `Box<S>`; false if the library does
/// not provide that forwarding implementation.
fn run_one_forwarded(rig: &Rig, t: Target, e: Entry, script: &[Beh], count: usize, boxed: bool) -> bool {
    #[allow(unused_imports)]
    use forwarding::{AbsentSink, AbsentSource, ProvidedSink, ProvidedSource, W};
    rig.reset();
    let before = rig.linear(t);
    let ex = expand(script);
    match e {
        Entry::ReadUpTo | Entry::ReadExact => {
            let mut src = SReader { script: ex, pos: 0, consumed: 0, calls: vec![] };
            let outc = if boxed {
                let w = W(std::cell::RefCell::new(Box::new(src)));
                let o = (&w).drive_source(rig, t, e, count);
                src = *w.0.into_inner();
                o
            } else {
                let w = W(std::cell::RefCell::new(&mut src));
                (&w).drive_source(rig, t, e, count)
            };
            let Some(outc) = outc else { return false };
            out::eval(1);
            judge(rig, t, e, script, count, &outc, &src.calls, &before, &[], e == Entry::ReadExact, true);
        }
        _ => {
            let mut dst = SWriter { script: ex, pos: 0, received: vec![], offers: vec![], calls: vec![] };
            let outc = if boxed {
                let w = W(std::cell::RefCell::new(Box::new(dst)));
                let o = (&w).drive_sink(rig, t, e, count);
                dst = *w.0.into_inner();
                o
            } else {
                let w = W(std::cell::RefCell::new(&mut dst));
                (&w).drive_sink(rig, t, e, count)
            };
            let Some(outc) = outc else { return false };
            out::eval(1);
            judge(rig, t, e, script, count, &outc, &dst.calls, &before, &dst.received, e == Entry::WriteAll, false);
        }
    }
    true
}

fn forwarded_streams(shard: (u64, u64)) {
    if shard.0 != 0 {
        return;
    }
    let rig = Rig::new();
    let mut provided = 0u64;
    for boxed in [false, true] {
        'kind: for reading in [true, false] {
            for a in ALPHA.iter() {
                for b in ALPHA.iter().chain([&Beh::Full]) {
                    let script = [*a, *b];
                    for t in [Target::Slice, Target::Region, Target::GuestTwoRegions, Target::GuestEndsInHole] {
                        for e in if reading { [Entry::ReadUpTo, Entry::ReadExact] } else { [Entry::WriteUpTo, Entry::WriteAll] } {
                            let (_, run) = rig.geometry(t);
                            for count in [1usize, run.min(9), run] {
                                if !run_one_forwarded(&rig, t, e, &script, count, boxed) {
                                    out::key(&format!("forwarding|{}|{}|not-provided", if boxed { "Box<S>" } else { "&mut S" }, if reading { "source" } else { "sink" }), true);
                                    continue 'kind;
                                }
                                provided += 1;
                            }
                        }
                    }
                }
            }
            out::key(&format!("forwarding|{}|{}|provided", if boxed { "Box<S>" } else { "&mut S" }, if reading { "source" } else { "sink" }), true);
        }
    }
    out::count("forwarded_stream_executions", provided as i128);
}

fn key(t: Target, e: Entry, script: &[Beh], count: usize, rig: &Rig, outc: &Outcome) {
    let (_, run) = rig.geometry(t);
    let cc = if count == 0 { "0" } else if count < run { "<run" } else if count == run { "=run" } else { ">run" };
    let oc = match outc {
        Outcome::Ok(_) => "ok",
        Outcome::Partial { .. } => "partial",
        Outcome::Io(_) => "io",
        Outcome::InvalidAddr => "invalid",
        Outcome::Other(_) => "other",
    };
    out::key(&format!("{}{:?}|{:?}|{:?}|{}|{}", if rig.big { "long-run|" } else { "" }, e, t, script, cc, oc), !script.is_empty());
}

fn enumerate(maxlen: usize, shard: (u64, u64)) {
    let rig = Rig::new();
    let mut scripts: Vec<Vec<Beh>> = vec![vec![]];
    let mut frontier: Vec<Vec<Beh>> = vec![vec![]];
    for _ in 0..maxlen {
        let mut next = vec![];
        for s in &frontier {
            for b in ALPHA {
                let mut n = s.clone();
                n.push(b);
                next.push(n);
            }
        }
        scripts.extend(next.iter().cloned());
        frontier = next;
    }
    out::count("scripts_enumerated", scripts.len() as i128);
    let mut n = 0u64;
    for (si, script) in scripts.iter().enumerate() {
        if (si as u64) % shard.1 != shard.0 {
            continue;
        }
        for t in [Target::Slice, Target::Region, Target::GuestTwoRegions, Target::GuestEndsInHole] {
            let (_, run) = rig.geometry(t);
            for e in [Entry::ReadUpTo, Entry::ReadExact, Entry::WriteUpTo, Entry::WriteAll] {
                for count in counts_for(run) {
                    out::set_case(n);
                    let r = guarded(|| run_one(&rig, t, e, script, count));
                    if let Err(p) = r {
                        v(&format!("panic/{}", panic_sig(&p)), t, e, script, count, J::s(p));
                    }
                    n += 1;
                }
            }
        }
    }
    out::count("executions_enumerated", n as i128);
}

fn random_scripts(args: &Args) {
    let rig = Rig::new();
    for case in args.cases(2000) {
        let mut r = Rng::new(args.seed(), "c14", case);
        let len = 4 + r.usize_below(9);
        let script: Vec<Beh> = (0..len).map(|_| *r.pick(&ALPHA)).collect();
        let t = *r.pick(&[Target::Slice, Target::Region, Target::GuestTwoRegions, Target::GuestEndsInHole]);
        let e = *r.pick(&[Entry::ReadUpTo, Entry::ReadExact, Entry::WriteUpTo, Entry::WriteAll]);
        let (_, run) = rig.geometry(t);
        let count = r.usize_below(run + 3);
        out::set_case(case);
        if let Err(p) = guarded(|| run_one(&rig, t, e, &script, count)) {
            v(&format!("panic/{}", panic_sig(&p)), t, e, &script, count, J::s(p));
        }
    }
}

/// Transfer magnitude: runs longer than 64 KiB inside one slice / region / guest range, random
/// short scripts followed by well-behaved calls.
fn long_runs(args: &Args) {
    let rig = Rig::new_big();
    for case in 0..args.u64("longcases", 160) {
        if case % args.shard().1 != args.shard().0 {
            continue;
        }
        let mut r = Rng::new(args.seed(), "c14-long", case);
        let len = r.usize_below(5);
        let script: Vec<Beh> = (0..len).map(|_| *r.pick(&ALPHA)).collect();
        let t = *r.pick(&[Target::Slice, Target::Region, Target::GuestTwoRegions, Target::GuestTwoRegions]);
        let e = *r.pick(&[Entry::ReadUpTo, Entry::ReadExact, Entry::WriteUpTo, Entry::WriteAll]);
        let (_, run) = rig.geometry(t);
        let count = match r.below(8) {
            0 => run,
            1 => run - 1,
            2 => run + 1,
            3 => 0x10000,
            4 => 0x10001,
            5 => 0xffff,
            6 => 0x10000 + r.usize_below(run - 0x10000),
            _ => r.usize_below(run + 3),
        };
        out::set_case(500_000 + case);
        if let Err(p) = guarded(|| run_one(&rig, t, e, &script, count)) {
            v(&format!("panic/{}", panic_sig(&p)), t, e, &script, count, J::s(p));
        }
        out::count("long_run_executions", 1);
    }
}

/// Conservation with a real `Cursor` as the reader: whatever the outcome, the bytes the cursor
/// gave up (its position delta) are exactly the bytes stored in guest memory, in order - also when
/// an exact-form transfer fails because the cursor runs dry (nothing may be consumed and dropped).
fn cursor_conservation(args: &Args) {
    use std::io::Cursor;
    let rig = Rig::new();
    let mut n = 0u64;
    for t in [Target::Slice, Target::Region, Target::GuestTwoRegions, Target::GuestEndsInHole] {
        let (off, run) = rig.geometry(t);
        for e in [Entry::ReadUpTo, Entry::ReadExact] {
            for avail in [0usize, 1, 3, 8, run - 1, run, run + 1, run + 9] {
                for start in [0u64, 2] {
                    for count in [1usize, 3, 8, run - 1, run, run + 1] {
                        if (n % args.shard().1) != args.shard().0 {
                            n += 1;
                            continue;
                        }
                        n += 1;
                        rig.reset();
                        let before = rig.linear(t);
                        let data: Vec<u8> = (0..start as usize + avail).map(src_byte).collect();
                        let mut c = Cursor::new(&data[..]);
                        c.set_position(start);
                        let outc = rig.read_from(t, e, &mut c, count);
                        let consumed = (c.position() - start) as usize;
                        let after = rig.linear(t);
                        // stored bytes: the longest prefix at `off` that now holds the stream bytes
                        let mut stored = 0usize;
                        while stored < consumed.max(count).min(after.len() - off) && after[off + stored] == data.get(start as usize + stored).copied().unwrap_or(0xff) && after[off + stored] != before[off + stored] {
                            stored += 1;
                        }
                        let frame_ok = after.iter().enumerate().all(|(i, b)| (i >= off && i < off + stored) || *b == before[i]);
                        if consumed != stored || !frame_ok {
                            v("cursor/bytes-consumed-from-the-reader-differ-from-bytes-stored", t, e, &[], count, jobj! {"cursor_start" => start, "available" => avail, "consumed" => consumed, "stored_in_order" => stored, "outcome" => J::dbg(&outc), "frame_ok" => frame_ok});
                        }
                        let want = count.min(avail).min(run);
                        if let Outcome::Ok(k) = &outc {
                            if *k != stored || (e == Entry::ReadExact && stored != count) || (e == Entry::ReadUpTo && stored != want) {
                                v("cursor/ok-count-differs-from-bytes-stored", t, e, &[], count, jobj! {"returned" => *k, "stored" => stored, "available" => avail});
                            }
                        }
                        out::key(&format!("cursor|{:?}|{:?}|avail{}|count{}|{}", e, t, if avail < count { "<count" } else { ">=count" }, if count > run { ">run" } else { "<=run" }, matches!(outc, Outcome::Ok(_))), true);
                        out::eval(1);
                    }
                }
            }
        }
    }
    out::count("cursor_conservation_cases", n as i128);
}

/// "Interrupted any number of times in a row": storms of more than 10^5 consecutive interruptions,
/// at the start of a transfer and after partial progress, for every entry point and target.
fn interruption_storms(args: &Args) {
    let rig = Rig::new();
    let mut n = 0u64;
    for (si, script) in [vec![Beh::EintrStorm], vec![Beh::Short1, Beh::EintrStorm], vec![Beh::EintrStorm, Beh::ShortK, Beh::EintrStorm, Beh::ErrIo]].iter().enumerate() {
        for (ti, t) in [Target::Slice, Target::Region, Target::GuestTwoRegions, Target::GuestEndsInHole].into_iter().enumerate() {
            for (ei, e) in [Entry::ReadUpTo, Entry::ReadExact, Entry::WriteUpTo, Entry::WriteAll].into_iter().enumerate() {
                if ((si * 16 + ti * 4 + ei) as u64) % args.shard().1 != args.shard().0 {
                    continue;
                }
                let (_, run) = rig.geometry(t);
                out::set_case(600_000 + n);
                if let Err(p) = guarded(|| run_one(&rig, t, e, script, run.min(9))) {
                    v(&format!("panic/{}", panic_sig(&p)), t, e, script, run.min(9), J::s(p));
                }
                n += 1;
            }
        }
    }
    out::count("interruption_storm_executions", n as i128);
}

/// A real signal (handler installed without SA_RESTART) delivered to the transferring thread while
/// it is blocked in the kernel *between two fragments* of a transfer on a real stream socket or
/// pipe. The interruption is not an outcome: the exact forms complete with every byte in order.
#[cfg(all(not(miri), feature = "rawfd"))]
fn signals_between_fragments(args: &Args) {
    use std::io::{Read, Write};
    use std::os::unix::net::UnixStream;
    use std::sync::atomic::{AtomicU64, Ordering};
    static HANDLED: AtomicU64 = AtomicU64::new(0);
    extern "C" fn on_sig(_: libc::c_int) {
        HANDLED.fetch_add(1, Ordering::SeqCst);
    }
    if args.shard().0 != 0 {
        return;
    }
    // SAFETY: installing an async-signal-safe handler (one atomic add) for SIGUSR1.
    unsafe {
        let mut sa: libc::sigaction = std::mem::zeroed();
        sa.sa_sigaction = on_sig as *const () as usize;
        sa.sa_flags = 0; // no SA_RESTART: blocked calls come back interrupted / short
        libc::sigemptyset(&mut sa.sa_mask);
        libc::sigaction(libc::SIGUSR1, &sa, std::ptr::null_mut());
    }
    let me = unsafe { libc::pthread_self() } as usize;
    let pause = std::time::Duration::from_millis(25);
    let mut n = 0u64;
    let mut interrupted_runs = 0u64;
    #[derive(Clone, Copy, Debug)]
    enum Chan {
        Unix,
        Tcp,
        UnixAsOwnedFd,
        Pipe,
    }
    // ---- reading side: the message arrives in two (or three) parts with a signal in between
    let small = Rig::new();
    for chan in [Chan::Unix, Chan::Tcp, Chan::UnixAsOwnedFd, Chan::Pipe] {
        for t in [Target::Slice, Target::Region, Target::GuestTwoRegions] {
            for first in [1usize, 3] {
                let (off, run) = small.geometry(t);
                let count = run.min(8);
                if first >= count {
                    continue;
                }
                small.reset();
                let before = small.linear(t);
                let data: Vec<u8> = (0..count + 4).map(src_byte).collect();
                let h0 = HANDLED.load(Ordering::SeqCst);
                // (reader end, writer end)
                let send = |mut w: Box<dyn Write + Send>, data: Vec<u8>| {
                    std::thread::spawn(move || {
                        let _ = w.write_all(&data[..first]);
                        let _ = w.flush();
                        std::thread::sleep(pause);
                        // SAFETY: `me` is the main thread, alive for the whole program.
                        unsafe { libc::pthread_kill(me as libc::pthread_t, libc::SIGUSR1) };
                        std::thread::sleep(pause);
                        let _ = w.write_all(&data[first..]);
                        let _ = w.flush();
                        w
                    })
                };
                let (outc, rest) = match chan {
                    Chan::Unix | Chan::UnixAsOwnedFd => {
                        let (mut a, b) = UnixStream::pair().unwrap();
                        let th = send(Box::new(b), data.clone());
                        let outc = if matches!(chan, Chan::Unix) {
                            small.read_from(t, Entry::ReadExact, &mut a, count)
                        } else {
                            let mut fd: std::os::fd::OwnedFd = a.try_clone().unwrap().into();
                            small.read_from(t, Entry::ReadExact, &mut fd, count)
                        };
                        drop(th.join());
                        let mut rest = vec![];
                        let _ = a.read_to_end(&mut rest);
                        (outc, rest)
                    }
                    Chan::Tcp => {
                        let Ok(l) = std::net::TcpListener::bind("127.0.0.1:0") else {
                            out::note("c14-signals-no-loopback-tcp", J::s("TcpStream legs skipped".to_string()));
                            continue;
                        };
                        let b = std::net::TcpStream::connect(l.local_addr().unwrap()).unwrap();
                        let _ = b.set_nodelay(true);
                        let (mut a, _) = l.accept().unwrap();
                        let th = send(Box::new(b), data.clone());
                        let outc = small.read_from(t, Entry::ReadExact, &mut a, count);
                        drop(th.join());
                        let mut rest = vec![];
                        let _ = a.read_to_end(&mut rest);
                        (outc, rest)
                    }
                    Chan::Pipe => {
                        let mut fds = [0i32; 2];
                        // SAFETY: plain pipe(2).
                        assert_eq!(unsafe { libc::pipe(fds.as_mut_ptr()) }, 0);
                        use std::os::fd::FromRawFd;
                        // SAFETY: fresh descriptors owned from here on.
                        let (mut a, b) = unsafe { (std::fs::File::from_raw_fd(fds[0]), std::fs::File::from_raw_fd(fds[1])) };
                        let th = send(Box::new(b), data.clone());
                        let outc = small.read_from(t, Entry::ReadExact, &mut a, count);
                        drop(th.join());
                        let mut rest = vec![];
                        let _ = a.read_to_end(&mut rest);
                        (outc, rest)
                    }
                };
                let got_signal = HANDLED.load(Ordering::SeqCst) > h0;
                interrupted_runs += got_signal as u64;
                let after = small.linear(t);
                let stored_ok = after[off..off + count] == data[..count];
                let frame_ok = after.iter().enumerate().all(|(i, b)| (i >= off && i < off + count) || *b == before[i]);
                if !matches!(outc, Outcome::Ok(k) if k == count) || !stored_ok || !frame_ok || rest != data[count..] {
                    v(&format!("signal-between-fragments/{:?}/exact-read-did-not-complete", chan), t, Entry::ReadExact, &[], count, jobj! {"first_fragment" => first, "outcome" => J::dbg(&outc), "guest_holds_the_message" => stored_ok, "frame_ok" => frame_ok, "left_in_stream" => rest.len(), "expected_left" => data.len() - count, "signal_handler_ran" => got_signal});
                }
                out::key(&format!("signal-between-fragments|read|{:?}|{:?}|first{}|handler-ran={}", chan, t, first, got_signal), true);
                out::eval(1);
                n += 1;
            }
        }
    }
    // ---- writing side: a sink that blocks (tiny socket buffer), the peer drains a little, the
    // signal arrives while the writer is blocked mid-transfer, then the peer drains the rest
    let big = Rig::new_big();
    for t in [Target::Slice, Target::Region, Target::GuestTwoRegions] {
        let (off, run) = big.geometry(t);
        let count = run.min(0x11000);
        big.reset();
        let before = big.linear(t);
        let (mut a, b) = UnixStream::pair().unwrap();
        let sz: libc::c_int = 4096;
        // SAFETY: setsockopt on our own descriptors with a properly sized int.
        unsafe {
            libc::setsockopt(a.as_raw_fd(), libc::SOL_SOCKET, libc::SO_SNDBUF, &sz as *const _ as *const libc::c_void, 4);
            libc::setsockopt(b.as_raw_fd(), libc::SOL_SOCKET, libc::SO_RCVBUF, &sz as *const _ as *const libc::c_void, 4);
        }
        let h0 = HANDLED.load(Ordering::SeqCst);
        let th = std::thread::spawn(move || {
            let mut b = b;
            let mut got = vec![0u8; 1000];
            let _ = b.read_exact(&mut got);
            for _ in 0..3 {
                std::thread::sleep(pause);
                // SAFETY: as above.
                unsafe { libc::pthread_kill(me as libc::pthread_t, libc::SIGUSR1) };
                std::thread::sleep(pause);
                let mut more = vec![0u8; 3000];
                let _ = b.read_exact(&mut more);
                got.extend_from_slice(&more);
            }
            let _ = b.read_to_end(&mut got);
            got
        });
        let outc = big.write_to(t, Entry::WriteAll, &mut a, count);
        drop(a);
        let got = th.join().unwrap();
        let got_signal = HANDLED.load(Ordering::SeqCst) > h0;
        interrupted_runs += got_signal as u64;
        if !matches!(outc, Outcome::Ok(k) if k == count) || got != before[off..off + count] || big.linear(t) != before {
            let first_diff = got.iter().zip(before[off..].iter()).position(|(x, y)| x != y);
            v("signal-between-fragments/write-all-did-not-complete", t, Entry::WriteAll, &[], count, jobj! {"outcome" => J::dbg(&outc), "peer_received" => got.len(), "first_difference" => J::dbg(&first_diff), "signal_handler_ran" => got_signal});
        }
        out::key(&format!("signal-between-fragments|write|{:?}|handler-ran={}", t, got_signal), true);
        out::eval(1);
        n += 1;
    }
    // SAFETY: back to the default disposition... no: keep ignoring further SIGUSR1 (a late one must not kill us).
    unsafe { libc::signal(libc::SIGUSR1, libc::SIG_IGN) };
    out::count("signal_between_fragments_transfers", n as i128);
    out::count("signal_between_fragments_handler_ran", interrupted_runs as i128);
}

/// Real descriptors: the same scripts through the interposed read(2)/write(2) on a pipe.
#[cfg(feature = "rawfd")]
fn fd_replay(args: &Args) {
    if !interpose::available() {
        return;
    }
    let rig = Rig::new();
    let n = args.u64("fdcases", 600);
    let mut done = 0;
    for case in 0..n {
        let mut r = Rng::new(args.seed(), "c14-fd", case);
        let len = r.usize_below(4);
        let script: Vec<Beh> = (0..len).map(|_| *r.pick(&ALPHA)).collect();
        let t = *r.pick(&[Target::Slice, Target::Region, Target::GuestTwoRegions, Target::GuestEndsInHole]);
        let reading = r.chance(1, 2);
        let exact = r.chance(1, 2);
        let (off, run) = rig.geometry(t);
        let count = *r.pick(&counts_for(run));
        rig.reset();
        let before = rig.linear(t);
        let ibeh: Vec<IBeh> = expand(&script)
            .iter()
            .map(|b| match b {
                Beh::Full => IBeh::Full,
                Beh::Short1 => IBeh::Short(1),
                Beh::ShortK => IBeh::Short(K),
                Beh::Zero => IBeh::Zero,
                Beh::Eintr | Beh::Eintr3 | Beh::EintrStorm => IBeh::Eintr,
                Beh::ErrIo => IBeh::Err(libc::EIO),
                Beh::ErrWouldBlock => IBeh::Err(libc::EAGAIN),
            })
            .collect();
        let res = guarded(|| {
            if reading {
                // a file holding the source pattern (plenty of it)
                let mut f = crate::models::world::temp_file(0);
                use std::io::{Seek, Write};
                let data: Vec<u8> = (0..200).map(src_byte).collect();
                f.write_all(&data).unwrap();
                f.seek(std::io::SeekFrom::Start(0)).unwrap();
                interpose::arm();
                interpose::set_script(f.as_raw_fd(), ibeh.clone());
                let e = if exact { Entry::ReadExact } else { Entry::ReadUpTo };
                let outc = rig.read_from(t, e, &mut f, count);
                interpose::clear_script();
                let log = interpose::disarm();
                let calls: Vec<CallRec> = log
                    .iter()
                    .filter_map(|ev| match ev {
                        interpose::Ev::Read { fd, req, ret, errno, .. } if *fd == f.as_raw_fd() => Some(CallRec {
                            req: *req,
                            beh: if *ret >= 0 { if *ret == 0 && *req > 0 { Beh::Zero } else { Beh::Full } } else if *errno == libc::EINTR { Beh::Eintr } else if *errno == libc::EIO { Beh::ErrIo } else { Beh::ErrWouldBlock },
                            moved: (*ret).max(0) as usize,
                        }),
                        _ => None,
                    })
                    .collect();
                judge(&rig, t, e, &script, count, &outc, &calls, &before, &[], exact, true);
                out::key(&format!("fd|{:?}|{:?}|{:?}", e, t, script), true);
            } else {
                let mut f = crate::models::world::temp_file(0);
                interpose::arm();
                interpose::set_script(f.as_raw_fd(), ibeh.clone());
                let e = if exact { Entry::WriteAll } else { Entry::WriteUpTo };
                let outc = rig.write_to(t, e, &mut f, count);
                interpose::clear_script();
                let log = interpose::disarm();
                let calls: Vec<CallRec> = log
                    .iter()
                    .filter_map(|ev| match ev {
                        interpose::Ev::Write { fd, req, ret, errno, .. } if *fd == f.as_raw_fd() => Some(CallRec {
                            req: *req,
                            beh: if *ret >= 0 { if *ret == 0 && *req > 0 { Beh::Zero } else { Beh::Full } } else if *errno == libc::EINTR { Beh::Eintr } else if *errno == libc::EIO { Beh::ErrIo } else { Beh::ErrWouldBlock },
                            moved: (*ret).max(0) as usize,
                        }),
                        _ => None,
                    })
                    .collect();
                use std::os::unix::fs::FileExt;
                let flen = f.metadata().unwrap().len() as usize;
                let mut got = vec![0u8; flen];
                f.read_exact_at(&mut got, 0).unwrap();
                judge(&rig, t, e, &script, count, &outc, &calls, &before, &got, exact, false);
                out::key(&format!("fd|{:?}|{:?}|{:?}", e, t, script), true);
                let _ = off;
            }
        });
        if let Err(p) = res {
            interpose::clear_script();
            interpose::disarm();
            out::viol(&format!("C14/fd/panic/{}", panic_sig(&p)), jobj! {"panic" => p, "script" => J::dbg(&script)});
        }
        done += 1;
        out::eval(1);
    }
    out::count("fd_replays", done);
}

pub fn run(args: &Args) {
    out::set_quiet_cases(true);
    let maxlen = args.u64("maxlen", 3) as usize;
    if !args.flag("noenum") {
        enumerate(maxlen, args.shard());
    }
    random_scripts(args);
    forwarded_streams(args.shard());
    if !cfg!(miri) {
        long_runs(args);
        interruption_storms(args);
        cursor_conservation(args);
    }
    #[cfg(all(not(miri), feature = "rawfd"))]
    if let Err(p) = guarded(|| signals_between_fragments(args)) {
        out::viol(&format!("C14/panic/signals/{}", panic_sig(&p)), J::s(p));
    }
    #[cfg(feature = "rawfd")]
    if args.shard().0 == 0 {
        fd_replay(args);
    }
    #[cfg(not(feature = "rawfd"))]
    out::key("library-built-without-its-default-rawfd-feature", true);
    out::sample(jobj! {"script" => "[Short1, Eintr3, ShortK, ErrIo]", "entry" => "ReadExact", "target" => "GuestTwoRegions", "count" => 30, "meaning" => "reader delivers 1 byte, is interrupted 3 times, delivers 3 bytes, then fails with EIO: guest[a..a+4) must hold source bytes 0..4, nothing else may change, the call must return the EIO error and make no further read"});
    out::sample(jobj! {"script" => "[Zero]", "entry" => "WriteUpTo", "target" => "GuestEndsInHole", "count" => 7, "meaning" => "sink accepts nothing: guest-level write_volatile_to reports WriteZero (per-region write_all), memory unchanged"});
}
