//! C02 — guest address queries answer exactly according to the set of mapped regions.
//! Oracle: interval-set model (models::layout). Two backends: GuestMemoryMmap and MockMemory
//! (default trait methods only).

use crate::common::gen::{edge_u64, edge_usize};
use crate::common::out::{self, J};
use crate::common::prng::Rng;
use crate::common::{guarded, panic_sig, Args};
use crate::models::layout::{Layout, TOP};
use crate::models::mock::{MockMemory, MockRegion};
use vm_memory::{
    Address, GuestAddress, GuestMemory, GuestMemoryMmap, GuestMemoryRegion, GuestRegionMmap,
    MemoryRegionAddress, MmapRegion,
};

/// Address-space reservation (PROT_NONE, never touched) from which pointer-only regions are carved.
pub struct Reservation {
    base: *mut u8,
    len: usize,
    next: usize,
}

impl Reservation {
    pub fn new() -> Reservation {
        #[cfg(not(miri))]
        {
            for shift in [36usize, 33, 30] {
                let len = 1usize << shift;
                // SAFETY: fresh PROT_NONE reservation.
                let p = unsafe {
                    libc::mmap(std::ptr::null_mut(), len, libc::PROT_NONE, libc::MAP_PRIVATE | libc::MAP_ANONYMOUS | libc::MAP_NORESERVE, -1, 0)
                };
                if p != libc::MAP_FAILED {
                    return Reservation { base: p as *mut u8, len, next: 0 };
                }
            }
            panic!("cannot reserve address space");
        }
        #[cfg(miri)]
        Reservation { base: std::ptr::null_mut(), len: 0, next: 0 }
    }
    fn carve(&mut self, size: usize) -> *mut u8 {
        let sz = size.div_ceil(4096).max(1) * 4096;
        if self.next + sz > self.len {
            self.next = 0; // reuse: pointers are never dereferenced in C02
        }
        let p = unsafe { self.base.add(self.next) };
        self.next += sz;
        p
    }
    pub fn reset(&mut self) {
        self.next = 0;
    }
}

impl Drop for Reservation {
    fn drop(&mut self) {
        #[cfg(not(miri))]
        unsafe {
            libc::munmap(self.base as *mut _, self.len);
        }
    }
}

#[cfg(not(feature = "xen"))]
pub fn mmap_region_ptr_only(res: &mut Reservation, size: usize) -> (MmapRegion<()>, *mut u8) {
    #[cfg(not(miri))]
    {
        let p = res.carve(size);
        // SAFETY: the region is only used for address queries; its bytes are never accessed.
        let r = unsafe { MmapRegion::<()>::build_raw(p, size, libc::PROT_READ | libc::PROT_WRITE, libc::MAP_ANONYMOUS | libc::MAP_PRIVATE) }.unwrap();
        (r, p)
    }
    #[cfg(miri)]
    {
        let _ = res;
        let r = MmapRegion::<()>::new(size).unwrap();
        let p = r.as_ptr();
        (r, p)
    }
}

#[cfg(feature = "xen")]
pub fn mmap_region_ptr_only(_res: &mut Reservation, size: usize) -> (MmapRegion<()>, *mut u8) {
    let r = MmapRegion::<()>::from_range(vm_memory::MmapRange::new_unix(size, None, GuestAddress(0))).unwrap();
    let p = r.as_ptr();
    (r, p)
}

fn v(sig: &str, backend: &str, lay: &Layout, d: J) {
    out::viol(
        &format!("C02/{}/{}", backend, sig),
        jobj! {"layout" => J::A(lay.regions.iter().map(|(s, l)| J::S(format!("{:#x}+{:#x}", s, l))).collect()), "detail" => d},
    );
}

fn len_class(n: u128, run: u128) -> &'static str {
    if n == 0 {
        "n0"
    } else if n < run {
        "n<run"
    } else if n == run {
        "n=run"
    } else if n == run + 1 {
        "n=run+1"
    } else {
        "n>run"
    }
}

/// Check every memory-level query for address `a` and the given lengths.
fn check_addr<M: GuestMemory>(mem: &M, lay: &Layout, bases: &[*mut u8], a: u64, lens: &[usize], backend: &str, shape: &str, judged: &mut u64) {
    let au = a as u128;
    let pos = lay.pos_class(au);
    let want = lay.region_of(au);
    let key = |q: &str, ans: &str| out::key(&format!("{}|{}|{}|{}|{}", backend, q, ans, pos, shape), pos != "inside" && pos != "above" && pos != "below");
    let ga = GuestAddress(a);

    // find_region
    let fr = mem.find_region(ga);
    match (fr, want) {
        (None, None) => {}
        (Some(r), Some(i)) => {
            let (s, l) = lay.regions[i];
            let exp = mem.iter().nth(i).unwrap();
            if r.start_addr().0 as u128 != s || r.len() as u128 != l || !std::ptr::eq(r, exp) {
                v("find_region/wrong-region", backend, lay, jobj! {"addr" => a, "got_start" => r.start_addr().0, "got_len" => r.len(), "want_idx" => i});
            }
        }
        (got, _) => {
            v("find_region", backend, lay, jobj! {"addr" => a, "got_some" => got.is_some(), "want" => J::dbg(&want)});
        }
    }
    key("find_region", if want.is_some() { "some" } else { "none" });
    // to_region_addr
    match (mem.to_region_addr(ga), want) {
        (None, None) => {}
        (Some((r, off)), Some(i)) => {
            let (s, _) = lay.regions[i];
            if r.start_addr().0 as u128 != s || off.0 as u128 != au - s {
                v("to_region_addr", backend, lay, jobj! {"addr" => a, "got_start" => r.start_addr().0, "got_off" => off.0});
            }
        }
        (got, _) => v("to_region_addr", backend, lay, jobj! {"addr" => a, "got_some" => got.is_some(), "want" => J::dbg(&want)}),
    }
    if mem.address_in_range(ga) != want.is_some() {
        v("address_in_range", backend, lay, jobj! {"addr" => a, "got" => mem.address_in_range(ga)});
    }
    let ca = mem.check_address(ga);
    if ca != want.map(|_| ga) {
        v("check_address", backend, lay, jobj! {"addr" => a, "got" => J::dbg(&ca)});
    }
    // get_host_address
    match (mem.get_host_address(ga), want) {
        (Err(_), None) => {}
        (Ok(p), Some(i)) => {
            let exp = bases[i].wrapping_add((au - lay.regions[i].0) as usize);
            if p != exp {
                v("get_host_address/pointer", backend, lay, jobj! {"addr" => a, "got" => p as usize, "want" => exp as usize});
            }
        }
        (got, _) => v("get_host_address", backend, lay, jobj! {"addr" => a, "got_ok" => got.is_ok(), "want" => J::dbg(&want)}),
    }
    key("get_host_address", if want.is_some() { "ok" } else { "err" });
    *judged += 5;

    let run = lay.run(au);
    for &n in lens {
        let nu = n as u128;
        // checked_offset(base, n)
        let tgt = au + nu;
        let wantco = if tgt < TOP && lay.mapped(tgt) { Some(GuestAddress(tgt as u64)) } else { None };
        let co = mem.checked_offset(ga, n);
        if co != wantco {
            v("checked_offset", backend, lay, jobj! {"base" => a, "offset" => n, "got" => J::dbg(&co), "want" => J::dbg(&wantco)});
        }
        out::key(&format!("{}|checked_offset|{}|{}|tgt-{}|{}", backend, if wantco.is_some() { "some" } else { "none" }, pos, if tgt >= TOP { "overflow" } else { lay.pos_class(tgt) }, shape), true);
        // check_range
        let cr = mem.check_range(ga, n);
        if n >= 1 {
            let wantcr = run >= nu && au + nu <= TOP;
            if cr != wantcr {
                v("check_range", backend, lay, jobj! {"base" => a, "len" => n, "got" => cr, "run" => run});
            }
            *judged += 1;
        } else if want.is_some() {
            if !cr {
                v("check_range/empty-at-mapped", backend, lay, jobj! {"base" => a, "len" => 0, "got" => cr});
            }
            *judged += 1;
        } else {
            out::note("C02/check_range(unmapped,0)", jobj! {"got" => cr});
        }
        out::key(&format!("{}|check_range|{}|{}|{}|{}", backend, cr, pos, len_class(nu, run), shape), true);
        // get_slice
        let gs = mem.get_slice(ga, n);
        if n >= 1 {
            match (gs, lay.within_one(au, nu)) {
                (Err(_), None) => {}
                (Ok(s), Some((i, off))) => {
                    let g = s.ptr_guard();
                    let exp = bases[i].wrapping_add(off as usize);
                    if g.as_ptr() as *mut u8 != exp || s.len() != n {
                        v("get_slice/extent", backend, lay, jobj! {"addr" => a, "count" => n, "got_ptr" => g.as_ptr() as usize, "got_len" => s.len(), "want_ptr" => exp as usize});
                    }
                }
                (got, w) => v("get_slice", backend, lay, jobj! {"addr" => a, "count" => n, "got_ok" => got.is_ok(), "want_ok" => w.is_some()}),
            }
            *judged += 1;
        } else {
            out::note("C02/get_slice(_,0)", jobj! {"mapped" => want.is_some(), "ok" => gs.is_ok()});
        }
        out::key(&format!("{}|get_slice|{}|{}|{}", backend, pos, len_class(nu, run.min(want.map_or(0, |i| lay.regions[i].0 + lay.regions[i].1 - au))), shape), true);
        *judged += 1;
    }
}

fn check_global<M: GuestMemory>(mem: &M, lay: &Layout, backend: &str) {
    if mem.num_regions() != lay.regions.len() {
        v("num_regions", backend, lay, jobj! {"got" => mem.num_regions()});
    }
    let listed: Vec<(u128, u128)> = mem.iter().map(|r| (r.start_addr().0 as u128, r.len() as u128)).collect();
    if listed != lay.regions {
        v("iter-order", backend, lay, jobj! {"got" => J::dbg(&listed)});
    }
    let la = mem.last_addr();
    if Some(la.0 as u128) != lay.last_addr() {
        v("last_addr", backend, lay, jobj! {"got" => la.0, "want" => J::dbg(&lay.last_addr())});
    }
}

/// Region-level queries of region `i`.
fn check_region<R: GuestMemoryRegion>(r: &R, lay: &Layout, i: usize, base: *mut u8, offs: &[u64], lens: &[usize], gaddrs: &[u64], backend: &str, judged: &mut u64) {
    let (s, l) = lay.regions[i];
    if r.last_addr().0 as u128 != s + l - 1 {
        v("region/last_addr", backend, lay, jobj! {"idx" => i, "got" => r.last_addr().0});
    }
    for &o in offs {
        let inr = (o as u128) < l;
        let ma = MemoryRegionAddress(o);
        if r.address_in_range(ma) != inr {
            v("region/address_in_range", backend, lay, jobj! {"idx" => i, "off" => o});
        }
        if r.check_address(ma) != if inr { Some(ma) } else { None } {
            v("region/check_address", backend, lay, jobj! {"idx" => i, "off" => o});
        }
        match (r.get_host_address(ma), inr) {
            (Ok(p), true) => {
                if p != base.wrapping_add(o as usize) {
                    v("region/get_host_address/pointer", backend, lay, jobj! {"idx" => i, "off" => o});
                }
            }
            (Err(_), false) => {}
            (g, _) => v("region/get_host_address", backend, lay, jobj! {"idx" => i, "off" => o, "got_ok" => g.is_ok()}),
        }
        *judged += 3;
        for &n in lens {
            let t = o as u128 + n as u128;
            let wantco = if t < TOP && t < l { Some(MemoryRegionAddress(t as u64)) } else { None };
            if r.checked_offset(ma, n) != wantco {
                v("region/checked_offset", backend, lay, jobj! {"idx" => i, "off" => o, "n" => n, "got" => J::dbg(&r.checked_offset(ma, n))});
            }
            *judged += 1;
            if n >= 1 {
                let fits = t <= l;
                match (r.get_slice(ma, n), fits) {
                    (Ok(sl), true) => {
                        if sl.ptr_guard().as_ptr() as *mut u8 != base.wrapping_add(o as usize) || sl.len() != n {
                            v("region/get_slice/extent", backend, lay, jobj! {"idx" => i, "off" => o, "n" => n});
                        }
                    }
                    (Err(_), false) => {}
                    (g, _) => v("region/get_slice", backend, lay, jobj! {"idx" => i, "off" => o, "n" => n, "got_ok" => g.is_ok(), "want_ok" => fits}),
                }
                *judged += 1;
            }
            out::key(&format!("{}|region|get_slice|{}|{}", backend, if (o as u128) < l { if o as u128 + 1 == l { "last" } else { "in" } } else if o as u128 == l { "at-len" } else { "beyond" }, if t < l { "short" } else if t == l { "exact" } else if t == l + 1 { "one-over" } else { "over" }), true);
        }
    }
    for &a in gaddrs {
        let au = a as u128;
        let want = if au >= s && au < s + l { Some(MemoryRegionAddress((au - s) as u64)) } else { None };
        let got = r.to_region_addr(GuestAddress(a));
        if got != want {
            v("region/to_region_addr", backend, lay, jobj! {"idx" => i, "addr" => a, "got" => J::dbg(&got)});
        }
        *judged += 1;
    }
}

pub struct Built {
    pub mmap: Option<GuestMemoryMmap<()>>,
    pub mmap_bases: Vec<*mut u8>,
    pub mock: MockMemory,
    pub mock_bases: Vec<*mut u8>,
}

pub fn build(res: &mut Reservation, lay: &Layout, want_mmap: bool) -> Built {
    let mut regs = vec![];
    let mut bases = vec![];
    let mmap_ok = want_mmap && lay.regions.iter().all(|(s, l)| s + l < TOP) && lay.regions.iter().all(|(_, l)| *l <= (1u128 << 32));
    let mmap = if mmap_ok {
        for (s, l) in &lay.regions {
            let (m, p) = mmap_region_ptr_only(res, *l as usize);
            bases.push(p);
            regs.push(GuestRegionMmap::new(m, GuestAddress(*s as u64)).expect("valid region"));
        }
        Some(GuestMemoryMmap::from_regions(regs).expect("valid layout"))
    } else {
        None
    };
    let mut mregs = vec![];
    let mut mb = vec![];
    for (s, l) in &lay.regions {
        // mock regions own real (small) storage; large model lengths are capped for storage but
        // C02 never touches bytes, so use a tiny backing store and a fake length via `len`.
        let r = MockRegion::new(*s as u64, (*l).min(1 << 16) as u64, None);
        mb.push(r.ptr);
        mregs.push(r);
    }
    Built { mmap, mmap_bases: bases, mock: MockMemory::new(mregs), mock_bases: mb }
}

fn query_layout(res: &mut Reservation, lay: &Layout, addrs: &[u64], lens: &[usize], judged: &mut u64, light: bool) {
    let shape = lay.shape();
    // mock storage is capped at 64 KiB per region: only use the mock backend when lengths fit
    // (light: tens of thousands of regions - the mock's linear default lookup is left out)
    let mock_ok = lay.regions.iter().all(|(_, l)| *l <= (1 << 16)) && !light;
    let b = build(res, lay, true);
    let r = guarded(|| {
        if let Some(m) = &b.mmap {
            check_global(m, lay, "mmap");
            for &a in addrs {
                check_addr(m, lay, &b.mmap_bases, a, lens, "mmap", &shape, judged);
            }
            for (i, reg) in m.iter().enumerate() {
                let (s, l) = lay.regions[i];
                let offs = [0u64, 1, (l as u64).saturating_sub(1), l as u64, l as u64 + 1, u64::MAX, (l / 2) as u64];
                let ga = [s as u64, (s as u64).wrapping_sub(1), (s + l - 1) as u64, (s + l) as u64, 0, u64::MAX];
                check_region(reg, lay, i, b.mmap_bases[i], &offs, lens, &ga, "mmap", judged);
            }
        }
        // collections DERIVED from this one (remove a region, put it back): the answers must follow
        // the derived layout, not the one the collection was derived from
        if let Some(m) = &b.mmap {
            let nr = lay.regions.len();
            for i in 0..nr {
                // big collections: first two, middle, last two
                if (nr > 8 && ![0, 1, nr / 2, nr - 2, nr - 1].contains(&i)) || (light && i + 2 != nr) {
                    continue;
                }
                let (s, l) = lay.regions[i];
                match m.remove_region(GuestAddress(s as u64), l as u64) {
                    Ok((m2, arc)) => {
                        let mut regs2 = lay.regions.clone();
                        regs2.remove(i);
                        let lay2 = Layout::new(regs2);
                        let mut bases2 = b.mmap_bases.clone();
                        bases2.remove(i);
                        let shape2 = format!("{}-minus{}", shape, if i + 1 == lay.regions.len() { "top" } else if i == 0 { "bottom" } else { "mid" });
                        if lay2.regions.is_empty() {
                            if m2.num_regions() != 0 {
                                v("num_regions", "mmap-removed", &lay2, jobj! {"got" => m2.num_regions()});
                            }
                        } else {
                            check_global(&m2, &lay2, "mmap-removed");
                        }
                        for &a in addrs {
                            check_addr(&m2, &lay2, &bases2, a, lens, "mmap-removed", &shape2, judged);
                        }
                        match m2.insert_region(arc) {
                            Ok(m3) => {
                                check_global(&m3, lay, "mmap-reinserted");
                                for &a in addrs {
                                    check_addr(&m3, lay, &b.mmap_bases, a, lens, "mmap-reinserted", &shape, judged);
                                }
                            }
                            Err(e) => v("insert_region/refused-own-region", "mmap-removed", lay, jobj! {"idx" => i, "err" => J::dbg(&e)}),
                        }
                        // the collection it was derived from is unchanged
                        check_global(m, lay, "mmap");
                    }
                    Err(e) => v("remove_region/refused-exact-region", "mmap", lay, jobj! {"idx" => i, "err" => J::dbg(&e)}),
                }
            }
        }
        if mock_ok {
            check_global(&b.mock, lay, "mock");
            for &a in addrs {
                check_addr(&b.mock, lay, &b.mock_bases, a, lens, "mock", &shape, judged);
            }
            for (i, reg) in b.mock.iter().enumerate() {
                let (s, l) = lay.regions[i];
                let offs = [0u64, 1, (l as u64).saturating_sub(1), l as u64, l as u64 + 1, u64::MAX];
                let ga = [s as u64, (s as u64).wrapping_sub(1), (s + l - 1) as u64, ((s + l) % TOP) as u64, 0, u64::MAX];
                check_region(reg, lay, i, b.mock_bases[i], &offs, lens, &ga, "mock", judged);
            }
        }
    });
    if let Err(p) = r {
        v(&format!("panic/{}", panic_sig(&p)), "any", lay, J::s(p));
    }
    res.reset();
}

/// All layouts of 1..=maxr regions with sizes 1..=maxs inside [0, width).
fn enumerate_layouts(width: u128, maxs: u128, maxr: usize) -> Vec<Vec<(u128, u128)>> {
    fn rec(from: u128, width: u128, maxs: u128, left: usize, cur: &mut Vec<(u128, u128)>, out: &mut Vec<Vec<(u128, u128)>>) {
        if !cur.is_empty() {
            out.push(cur.clone());
        }
        if left == 0 {
            return;
        }
        for s in from..width {
            for l in 1..=maxs {
                if s + l > width {
                    break;
                }
                cur.push((s, l));
                rec(s + l, width, maxs, left - 1, cur, out);
                cur.pop();
            }
        }
    }
    let mut out = vec![];
    rec(0, width, maxs, maxr, &mut vec![], &mut out);
    out
}

/// OWNED anonymous regions of 2 MiB and more (where an implementation may align or over-allocate):
/// every route to a host pointer for a guest address must give the same pointer, and a byte written
/// through the byte-access interface must be the byte at that pointer. Regions are kept alive so
/// that the placements differ.
fn big_owned_regions() {
    use vm_memory::{Bytes, MemoryRegionAddress};
    let mut keep = vec![];
    for (k, size) in [(2usize << 20) - 4096, 2 << 20, (2 << 20) + 4096, (4 << 20) + 8192, 3 << 20, (2 << 20) + 12288, 8 << 20].into_iter().cycle().take(42).enumerate() {
        let base = 0x4000_0000u64 + (k as u64) * 0x100_0000;
        let reg = match GuestRegionMmap::<()>::from_range(GuestAddress(base), size, None) {
            Ok(r) => r,
            Err(e) => {
                out::note("C02/big-owned-region-not-created", J::dbg(&e));
                continue;
            }
        };
        let gm = GuestMemoryMmap::from_regions(vec![reg]).expect("layout");
        let region = gm.iter().next().unwrap();
        for off in [0usize, 1, 4095, 4096, size / 2, size - 4097, size - 1] {
            let a = GuestAddress(base + off as u64);
            let p_region = region.as_ptr() as usize + off;
            let p_gm = gm.get_host_address(a).map(|p| p as usize);
            let p_reg = region.get_host_address(MemoryRegionAddress(off as u64)).map(|p| p as usize);
            let p_slice = gm.get_slice(a, 1).map(|s| s.ptr_guard().as_ptr() as usize);
            let p_whole = region.as_volatile_slice().map(|s| s.ptr_guard().as_ptr() as usize + off);
            let p_rslice = region.get_slice(MemoryRegionAddress(off as u64), 1).map(|s| s.ptr_guard().as_ptr() as usize);
            let all = [p_gm.ok(), p_reg.ok(), p_slice.ok(), p_whole.ok(), p_rslice.ok()];
            if all.iter().any(|p| *p != Some(p_region)) {
                out::viol("C02/big-owned/host-pointer-routes-disagree", jobj! {"size" => size, "off" => off, "as_ptr+off" => p_region, "get_host_address" => J::dbg(&all[0]), "region.get_host_address" => J::dbg(&all[1]), "get_slice" => J::dbg(&all[2]), "as_volatile_slice+off" => J::dbg(&all[3]), "region.get_slice" => J::dbg(&all[4])});
            }
            // data written through the interface is the data at the host pointer
            let val = 0xa5u8 ^ off as u8;
            if gm.write_obj(val, a).is_err() || unsafe { (p_region as *const u8).read_volatile() } != val {
                out::viol("C02/big-owned/byte-written-at-guest-address-not-at-its-host-pointer", jobj! {"size" => size, "off" => off});
            }
            unsafe { (p_region as *mut u8).write_volatile(!val) };
            if gm.read_obj::<u8>(a).ok() != Some(!val) {
                out::viol("C02/big-owned/byte-at-host-pointer-not-read-at-guest-address", jobj! {"size" => size, "off" => off});
            }
            out::eval(3);
        }
        out::key(&format!("big-owned|size{}MiB{}|placement{}", size >> 20, if size % (1 << 20) == 0 { "" } else { "+" }, if region.as_ptr() as usize % (2 << 20) == 0 { "-2MiB-aligned" } else { "" }), true);
        keep.push(gm);
    }
    out::count("big_owned_regions", keep.len() as i128);
}

/// Address queries are `&self` methods of a shared, immutable collection: several threads asking
/// about addresses in DIFFERENT regions at the same time get the same answers as one thread
/// (an answer must not depend on what another thread asked last).
fn concurrent_lookups(seed: u64) {
    use std::sync::atomic::{AtomicU64, Ordering};
    let nreg = 6usize;
    let regs: Vec<(GuestAddress, usize)> = (0..nreg).map(|i| (GuestAddress(0x10_0000 * (i as u64 + 1)), 0x1000 * (i + 1))).collect();
    let gm = std::sync::Arc::new(GuestMemoryMmap::<()>::from_ranges(&regs).expect("layout"));
    let bases: Vec<usize> = gm.iter().map(|r| r.as_ptr() as usize).collect();
    let bad = std::sync::Arc::new(AtomicU64::new(0));
    let witness = std::sync::Arc::new(std::sync::Mutex::new(None::<String>));
    let total = std::sync::Arc::new(AtomicU64::new(0));
    let nthreads = 8;
    let iters = if cfg!(miri) { 50 } else { 150_000 };
    let mut hs = vec![];
    for t in 0..nthreads {
        let (gm, bad, witness, total, regs, bases) = (gm.clone(), bad.clone(), witness.clone(), total.clone(), regs.clone(), bases.clone());
        hs.push(std::thread::spawn(move || {
            let mut r = Rng::new(seed, "c02-conc", t as u64);
            for _ in 0..iters {
                // mostly "its own" region, sometimes any, sometimes a hole
                let i = if r.chance(3, 4) { t % regs.len() } else { r.usize_below(regs.len()) };
                let (s, l) = regs[i];
                let hole = r.chance(1, 8);
                let off = if hole { l as u64 + r.below(64) } else { r.below(l as u64) };
                let a = GuestAddress(s.0 + off);
                let fr = gm.find_region(a).map(|x| x.start_addr().0);
                let tr = gm.to_region_addr(a).map(|(x, o)| (x.start_addr().0, o.0));
                let hp = gm.get_host_address(a).ok().map(|p| p as usize);
                let ok = if hole {
                    fr.is_none() && tr.is_none() && hp.is_none() && !gm.address_in_range(a)
                } else {
                    fr == Some(s.0) && tr == Some((s.0, off)) && hp == Some(bases[i] + off as usize) && gm.address_in_range(a) && gm.check_range(a, 1)
                };
                if !ok && bad.fetch_add(1, Ordering::Relaxed) == 0 {
                    *witness.lock().unwrap() = Some(format!("thread {} addr {:#x} (region {} hole {}): find_region {:x?} to_region_addr {:x?} host {:x?}", t, a.0, i, hole, fr, tr, hp));
                }
                total.fetch_add(1, Ordering::Relaxed);
            }
        }));
    }
    for h in hs {
        if h.join().is_err() {
            out::viol("C02/concurrent/panic-in-a-lookup-thread", J::Null);
        }
    }
    if bad.load(Ordering::Relaxed) > 0 {
        out::viol("C02/concurrent/answer-differs-from-the-layout", jobj! {"wrong_answers" => bad.load(Ordering::Relaxed), "first" => witness.lock().unwrap().clone().unwrap_or_default()});
    }
    out::count("concurrent_lookups", total.load(Ordering::Relaxed) as i128);
    out::key("concurrent-lookups|8-threads|6-regions", true);
    out::eval(total.load(Ordering::Relaxed));
}

pub fn run(args: &Args) {
    out::set_quiet_cases(true);
    if args.shard().0 == 1 % args.shard().1 {
        concurrent_lookups(args.seed());
    }
    if args.shard().0 == 0 && !cfg!(miri) {
        if let Err(p) = guarded(big_owned_regions) {
            out::viol(&format!("C02/panic/big-owned/{}", panic_sig(&p)), J::s(p));
        }
    }
    let mut res = Reservation::new();
    let mut judged = 0u64;
    let (sh_i, sh_n) = args.shard();

    // (1) exhaustive small universe
    if !args.flag("noexh") {
        let width = args.u64("width", 14) as u128;
        let maxs = args.u64("maxsize", 4) as u128;
        let layouts = enumerate_layouts(width, maxs, 3);
        let mut n = 0u64;
        let total = layouts.len();
        for (li, regs) in layouts.into_iter().enumerate() {
            if (li as u64) % sh_n != sh_i {
                continue;
            }
            // three translations: at 0, just below 2^64 (last byte <= 2^64-2 for mmap), and up to 2^64-1 (mock only)
            for (ti, shift) in [0u128, TOP - width - 1, TOP - width].into_iter().enumerate() {
                let lay = Layout::new(regs.iter().map(|(s, l)| (s + shift, *l)).collect());
                let lo = shift.saturating_sub(1) as u64;
                let mut addrs: Vec<u64> = (0..(width + 3) as u64).map(|d| lo.wrapping_add(d)).filter(|a| (*a as u128) >= shift.saturating_sub(1)).collect();
                if ti > 0 {
                    addrs.push(0);
                    addrs.push(1);
                } else {
                    addrs.push(u64::MAX);
                }
                let lens: Vec<usize> = (0..=(width + 2) as usize).chain([usize::MAX, usize::MAX - 1, 1 << 63]).collect();
                out::set_case(n);
                query_layout(&mut res, &lay, &addrs, &lens, &mut judged, false);
                n += 1;
            }
        }
        out::count("exhaustive_layouts_total", total as i128);
        out::count("exhaustive_layout_instances", n as i128);
        out::sample(jobj! {"kind" => "exhaustive-small-universe", "width" => width as u64, "max_region_size" => maxs as u64, "layouts" => total, "translations" => 3});
    }

    // (1b) collections with MANY regions (lookup strategies may change with the region count):
    // n regions of 1..3 bytes separated by holes of 0..2 bytes, every address of the universe
    if !args.flag("noexh") {
        let mut n = 0u64;
        for (k, nreg) in [9usize, 15, 16, 17, 18, 31, 32, 33, 63, 64, 65, 100, 129, 257].into_iter().enumerate() {
            for variant in 0..4u64 {
                if (k as u64 * 4 + variant) % sh_n != sh_i {
                    continue;
                }
                let mut r = Rng::new(args.seed(), "c02-many", k as u64 * 8 + variant);
                for shift in [0u128, 0x1_0000_0000 - 7, TOP - 1 - if variant == 3 { 8 * nreg as u128 + 40 } else { 5 * nreg as u128 + 3 }] {
                    let mut regs = vec![];
                    let mut cur = shift;
                    for i in 0..nreg {
                        // variant 3: start addresses EQUALLY SPACED (stride 8), lengths 1..=8 - except
                        // the last region, which is longer than the spacing (a "regular" map with an
                        // irregular top)
                        let l = match variant {
                            0 => 1,
                            1 => 1 + r.below(3) as u128,
                            2 => 2,
                            _ if i + 1 == nreg => 8 + 5 + r.below(20) as u128,
                            _ => 1 + r.below(8) as u128,
                        };
                        regs.push((cur, l));
                        cur += match variant { 0 => l + 1, 1 => l + r.below(3) as u128, 2 => l, _ => if i + 1 == nreg { l } else { 8 } };
                    }
                    let lo = shift.saturating_sub(2) as u64;
                    let addrs: Vec<u64> = (0..(cur - shift + 5) as u64).map(|d| lo.wrapping_add(d)).chain([0, u64::MAX]).collect();
                    let lens: Vec<usize> = vec![0, 1, 2, 3, 4, 5, 7, 2 * nreg, 5 * nreg, usize::MAX];
                    let lay = Layout::new(regs);
                    out::set_case(1_000_000 + n);
                    query_layout(&mut res, &lay, &addrs, &lens, &mut judged, false);
                    n += 1;
                }
            }
        }
        out::count("many_region_layouts", n as i128);
    }

    // (1c) region COUNTS around 2^16 (an index or a count kept in 16 bits): adjacent pairs of 2- and
    // 3-byte regions separated by holes; addresses sampled around regions with small, middle and
    // large indices (all of the last 80, all around index 2^16) plus random ones
    if !args.flag("noexh") && !cfg!(miri) && !args.flag("nohugecount") {
        let mut n = 0u64;
        for (k, nreg) in [65_535usize, 65_536, 65_537, 65_600].into_iter().enumerate() {
            if (k as u64) % sh_n != sh_i {
                continue;
            }
            let mut r = Rng::new(args.seed(), "c02-hugecount", k as u64);
            let mut regs = vec![];
            let mut cur = 0x10_0000u128;
            for i in 0..nreg {
                let l = if i % 2 == 0 { 2 } else { 3 };
                regs.push((cur, l));
                cur += l + if i % 2 == 0 { 0 } else { 4 };
            }
            let mut idx: Vec<usize> = (0..8).chain(250..262).chain(32_760..32_776).chain(65_520..nreg.min(65_560)).chain(nreg - 80..nreg).collect();
            idx.extend((0..200).map(|_| r.usize_below(nreg)));
            let mut addrs: Vec<u64> = vec![0, u64::MAX, cur as u64, cur as u64 + 1];
            for i in idx {
                let (s, l) = regs[i];
                addrs.extend([s as u64 - 1, s as u64, (s + l - 1) as u64, (s + l) as u64]);
            }
            let lens: Vec<usize> = vec![0, 1, 2, 3, 5, 6, 12, usize::MAX];
            let lay = Layout::new(regs);
            out::set_case(2_000_000 + n);
            query_layout(&mut res, &lay, &addrs, &lens, &mut judged, true);
            out::key(&format!("region-count|{}", nreg), true);
            n += 1;
        }
        out::count("huge_count_layouts", n as i128);
    }

    // (2) random large layouts
    for case in args.cases(300) {
        let mut r = Rng::new(args.seed(), "c02", case);
        let nreg = if r.chance(1, 5) { 9 + r.usize_below(72) } else { 1 + r.usize_below(8) };
        let mut regs: Vec<(u128, u128)> = vec![];
        let mut cur: u128 = match r.below(4) {
            0 => 0,
            1 => r.below(4096) as u128,
            2 => (1u128 << 32) - r.below(5000) as u128,
            _ => (r.next() >> r.below(40)) as u128,
        };
        let small = r.chance(1, 2);
        for _ in 0..nreg {
            let l: u128 = if small {
                1 + r.below(64) as u128
            } else {
                match r.below(6) {
                    0 => 1,
                    1 => 4096,
                    2 => 4095 + r.below(3) as u128,
                    3 => 1 + r.below(1 << 20) as u128,
                    4 => (1 << 16) + r.below(7) as u128 - 3,
                    _ => 1 + r.below(70000) as u128,
                }
            };
            if cur + l > TOP {
                break;
            }
            regs.push((cur, l));
            let gap: u128 = match r.below(6) {
                0 => 0,
                1 => 1,
                2 => 2,
                3 => 1u128 << r.below(62),
                _ => r.below(10000) as u128,
            };
            cur = cur + l + gap;
            if cur >= TOP {
                break;
            }
        }
        // optionally pin the last region near / at the very top
        if r.chance(1, 3) {
            let l = 1 + r.below(if small { 64 } else { 5000 }) as u128;
            let end = if r.chance(1, 2) { TOP } else { TOP - 1 - r.below(3) as u128 };
            let s = end - l;
            if regs.last().map_or(true, |(ls, ll)| ls + ll <= s) {
                regs.push((s, l));
            }
        }
        if regs.is_empty() {
            continue;
        }
        let lay = Layout::new(regs.clone());
        let pairs: Vec<(u64, u64)> = regs.iter().map(|(s, l)| (*s as u64, *l as u64)).collect();
        let mut addrs = vec![];
        for _ in 0..args.u64("addrs", 60) {
            addrs.push(edge_u64(&mut r, &pairs).0);
        }
        let mut lens = vec![0usize, 1, 2];
        for _ in 0..8 {
            let (s, l) = *r.pick(&pairs);
            let _ = s;
            lens.push(edge_usize(&mut r, l as usize, 0).0);
        }
        out::case(case, jobj! {"regions" => regs.len(), "shape" => lay.shape()});
        query_layout(&mut res, &lay, &addrs, &lens, &mut judged, false);
        if out::want_sample() && case % 7 == 0 {
            out::sample(jobj! {"kind" => "random-layout", "regions" => J::A(regs.iter().map(|(s, l)| J::S(format!("{:#x}+{:#x}", s, l))).collect()), "addresses" => addrs.iter().take(6).map(|a| format!("{:#x}", a)).collect::<Vec<String>>(), "lens" => lens.iter().take(8).map(|a| format!("{:#x}", a)).collect::<Vec<String>>()});
        }
    }
    out::eval(judged);
    out::count("judged_queries", judged as i128);
}
