//! C08 — a dirty mark is never lost when marking races with harvesting the bitmap.
//!
//! Oracle: per-page linearizability of the API-boundary history against a boolean with
//! set / clear / test-and-clear / read (a set of independent booleans is linearizable iff every
//! page's sub-history is), plus a quiescent final read-out.
//!
//! Exploration:
//!  * `mode=dfs`    controlled scheduler on hook H2 (a yield point in front of every atomic
//!                  operation of the bitmap words): exactly one managed thread runs between two
//!                  yield points, so an execution is a function of its choice string; ALL choice
//!                  strings of each small program are executed (stateless DFS with prefix replay).
//!  * `mode=sample` seeded random schedules of larger programs under the same scheduler.
//!  * `mode=free`   free-running threads (native stress, TSan, Miri many-seeds); invocation and
//!                  response are stamped with a global atomic clock.

use crate::common::out::{self, J};
use crate::common::prng::Rng;
use crate::common::Args;
use std::cell::Cell;
use std::collections::HashMap;
use std::num::NonZeroUsize;
use std::sync::atomic::{AtomicU64, Ordering};
use std::sync::{Arc, Condvar, Mutex};
use vm_memory::bitmap::{AtomicBitmap, Bitmap};
use vm_memory::verif::{set_sched_hook, AtomicOp};

#[derive(Clone, Debug, PartialEq)]
pub enum Op {
    MarkRange(usize, usize),
    SetBit(usize),
    ResetRange(usize, usize),
    ResetBit(usize),
    Harvest,
    Clone,
    IsBitSet(usize),
    Reset,
    MarkDirty(usize, usize),
}

#[derive(Clone, Debug)]
pub enum Ret {
    Unit,
    Words(Vec<u64>),
    Bool(bool),
}

#[derive(Clone, Debug)]
pub struct Call {
    pub thread: usize,
    pub op: Op,
    pub inv: u64,
    pub resp: u64,
    pub ret: Ret,
}

pub struct Prog {
    pub name: &'static str,
    pub pages: usize,
    pub threads: Vec<Vec<Op>>,
    /// executed sequentially before the threads start (not interleaved): the initial bitmap state
    pub init: Vec<Op>,
}

/// thread id under which the initial-state calls appear in a history
pub const INIT_THREAD: usize = 99;

fn exec(b: &AtomicBitmap, op: &Op) -> Ret {
    match op {
        Op::MarkRange(s, l) => {
            b.set_addr_range(*s, *l);
            Ret::Unit
        }
        Op::MarkDirty(s, l) => {
            b.mark_dirty(*s, *l);
            Ret::Unit
        }
        Op::SetBit(i) => {
            b.set_bit(*i);
            Ret::Unit
        }
        Op::ResetRange(s, l) => {
            b.reset_addr_range(*s, *l);
            Ret::Unit
        }
        Op::ResetBit(i) => {
            b.reset_bit(*i);
            Ret::Unit
        }
        Op::Harvest => Ret::Words(b.get_and_reset()),
        Op::Clone => {
            let c = b.clone();
            // reading the private copy out is not part of the shared-memory protocol
            unmanaged(|| Ret::Words(final_words(&c)))
        }
        Op::IsBitSet(i) => Ret::Bool(b.is_bit_set(*i)),
        Op::Reset => {
            b.reset();
            Ret::Unit
        }
    }
}

// ---------------------------------------------------------------------------------------------
// controlled scheduler

#[derive(Clone, Copy, PartialEq, Eq, Debug)]
enum St {
    NotStarted,
    Waiting,
    Running,
    Finished,
}

struct Sched {
    status: Vec<St>,
    active: Option<usize>,
    clock: u64,
    trace: Vec<(usize, AtomicOp, usize)>,
    prefix: Vec<usize>,
    decisions: Vec<(usize, usize)>,
    policy: Box<dyn FnMut(usize, usize) -> usize + Send>,
    cvs: Vec<Arc<Condvar>>,
    done: Arc<Condvar>,
}

impl Sched {
    /// Called with the lock held by a thread that just stopped running (yielded / finished) or
    /// by the last thread to check in: if nobody is running, pick the next runnable thread.
    fn schedule_next(&mut self) {
        if self.active.is_some() || self.status.iter().any(|x| matches!(x, St::NotStarted | St::Running)) {
            return;
        }
        let runnable: Vec<usize> = (0..self.status.len()).filter(|t| self.status[*t] == St::Waiting).collect();
        if runnable.is_empty() {
            self.done.notify_all();
            return;
        }
        let step = self.decisions.len();
        let c = if step < self.prefix.len() { self.prefix[step] } else { (self.policy)(step, runnable.len()) }.min(runnable.len() - 1);
        self.decisions.push((c, runnable.len()));
        self.active = Some(runnable[c]);
        self.cvs[runnable[c]].notify_one();
    }
}

static SCHED: Mutex<Option<Sched>> = Mutex::new(None);

thread_local! {
    static TID: Cell<usize> = const { Cell::new(usize::MAX) };
}

fn yield_point(tid: usize, what: Option<(AtomicOp, usize)>) {
    let mut g = SCHED.lock().unwrap();
    let cv = {
        let s = g.as_mut().unwrap();
        s.status[tid] = St::Waiting;
        if s.active == Some(tid) {
            s.active = None;
        }
        s.schedule_next();
        s.cvs[tid].clone()
    };
    while g.as_ref().unwrap().active != Some(tid) {
        g = cv.wait(g).unwrap();
    }
    let s = g.as_mut().unwrap();
    s.status[tid] = St::Running;
    if let Some((k, a)) = what {
        s.trace.push((tid, k, a));
    }
}

fn unmanaged<T>(f: impl FnOnce() -> T) -> T {
    let old = TID.with(|t| t.replace(usize::MAX));
    let r = f();
    TID.with(|t| t.set(old));
    r
}

fn hook(op: AtomicOp, addr: usize) {
    let tid = TID.with(|t| t.get());
    if tid != usize::MAX {
        yield_point(tid, Some((op, addr)));
    }
}

fn tick() -> u64 {
    let mut g = SCHED.lock().unwrap();
    let s = g.as_mut().unwrap();
    s.clock += 1;
    s.clock
}

/// Run `prog` under the controlled scheduler. `prefix` fixes the first decisions; further
/// decisions come from `policy(step, n_runnable)`. Returns (calls, final words, decisions made as
/// (choice, alternatives), contended) where `contended` says whether two different threads
/// touched the same word back-to-back.
fn run_controlled(prog: &Prog, prefix: &[usize], policy: Box<dyn FnMut(usize, usize) -> usize + Send>) -> (Vec<Call>, Vec<u64>, Vec<(usize, usize)>, bool) {
    let n = prog.threads.len();
    let bm = Arc::new(AtomicBitmap::new(prog.pages, NonZeroUsize::new(1).unwrap()));
    let done = Arc::new(Condvar::new());
    *SCHED.lock().unwrap() = Some(Sched {
        status: vec![St::NotStarted; n],
        active: None,
        clock: 0,
        trace: vec![],
        prefix: prefix.to_vec(),
        decisions: vec![],
        policy,
        cvs: (0..n).map(|_| Arc::new(Condvar::new())).collect(),
        done: done.clone(),
    });
    let mut calls = vec![];
    for op in &prog.init {
        // main thread is unmanaged: the hook lets it through
        let inv = tick();
        let ret = exec(&bm, op);
        let resp = tick();
        calls.push(Call { thread: INIT_THREAD, op: op.clone(), inv, resp, ret });
    }
    let mut handles = vec![];
    for (tid, ops) in prog.threads.iter().enumerate() {
        let bm = bm.clone();
        let ops = ops.clone();
        handles.push(std::thread::spawn(move || {
            TID.with(|t| t.set(tid));
            yield_point(tid, None);
            let mut calls = vec![];
            for op in ops {
                let inv = tick();
                let ret = exec(&bm, &op);
                let resp = tick();
                calls.push(Call { thread: tid, op, inv, resp, ret });
            }
            TID.with(|t| t.set(usize::MAX));
            let mut g = SCHED.lock().unwrap();
            let s = g.as_mut().unwrap();
            s.status[tid] = St::Finished;
            if s.active == Some(tid) {
                s.active = None;
            }
            s.schedule_next();
            drop(g);
            calls
        }));
    }
    for h in handles {
        calls.extend(h.join().expect("worker"));
    }
    let st = SCHED.lock().unwrap().take().unwrap();
    let mut contended = false;
    for w in st.trace.windows(2) {
        if w[0].0 != w[1].0 && w[0].2 == w[1].2 {
            contended = true;
        }
    }
    let words = final_words(&bm);
    (calls, words, st.decisions, contended)
}

fn final_words(bm: &AtomicBitmap) -> Vec<u64> {
    (0..bm.len().div_ceil(64)).map(|w| (0..64).fold(0u64, |acc, i| acc | ((bm.is_bit_set(w * 64 + i) as u64) << i))).collect()
}

// ---------------------------------------------------------------------------------------------
// per-page linearizability

#[derive(Clone, Copy, Debug, PartialEq)]
enum PK {
    Set,
    Clear,
    TestAndClear(bool),
    Read(bool),
}

#[derive(Clone, Debug)]
struct POp {
    k: PK,
    inv: u64,
    resp: u64,
    what: String,
}

fn page_ops(calls: &[Call], final_words: &[u64], page: usize, pages: usize) -> Vec<POp> {
    let bit = |w: &Vec<u64>, p: usize| w.get(p / 64).map_or(false, |x| x >> (p % 64) & 1 == 1);
    let mut v = vec![];
    let covers = |s: usize, l: usize| l > 0 && page >= s && (page as u128) < s as u128 + l as u128;
    let mut last = 0;
    for c in calls {
        last = last.max(c.resp);
        let k = match (&c.op, &c.ret) {
            (Op::MarkRange(s, l), _) | (Op::MarkDirty(s, l), _) if covers(*s, *l) && page < pages => Some(PK::Set),
            (Op::SetBit(i), _) if *i == page => Some(PK::Set),
            (Op::ResetRange(s, l), _) if covers(*s, *l) => Some(PK::Clear),
            (Op::ResetBit(i), _) if *i == page => Some(PK::Clear),
            (Op::Reset, _) => Some(PK::Clear),
            (Op::Harvest, Ret::Words(w)) => Some(PK::TestAndClear(bit(w, page))),
            (Op::Clone, Ret::Words(w)) => Some(PK::Read(bit(w, page))),
            (Op::IsBitSet(i), Ret::Bool(b)) if *i == page => Some(PK::Read(*b)),
            _ => None,
        };
        if let Some(k) = k {
            v.push(POp { k, inv: c.inv, resp: c.resp, what: format!("T{}:{:?}", c.thread, c.op) });
        }
    }
    // quiescent final read
    v.push(POp { k: PK::Read(bit(&final_words.to_vec(), page)), inv: last + 1, resp: last + 2, what: "final-read".into() });
    v
}

/// Is there a linearization? brute force with memoisation on (remaining set, state).
fn linearizable(ops: &[POp]) -> bool {
    let n = ops.len();
    if n > 24 {
        return true; // too large to decide: callers bound the history size
    }
    fn rec(ops: &[POp], remaining: u32, state: bool, memo: &mut HashMap<(u32, bool), bool>) -> bool {
        if remaining == 0 {
            return true;
        }
        if let Some(r) = memo.get(&(remaining, state)) {
            return *r;
        }
        // minimal elements: ops not preceded (in real time) by another remaining op
        let mut min_resp = u64::MAX;
        for i in 0..ops.len() {
            if remaining >> i & 1 == 1 {
                min_resp = min_resp.min(ops[i].resp);
            }
        }
        let mut ok = false;
        for i in 0..ops.len() {
            if remaining >> i & 1 == 0 || ops[i].inv > min_resp {
                continue;
            }
            let (valid, ns) = match ops[i].k {
                PK::Set => (true, true),
                PK::Clear => (true, false),
                PK::TestAndClear(r) => (r == state, false),
                PK::Read(r) => (r == state, state),
            };
            if valid && rec(ops, remaining & !(1 << i), ns, memo) {
                ok = true;
                break;
            }
        }
        memo.insert((remaining, state), ok);
        ok
    }
    let mut memo = HashMap::new();
    rec(ops, (1u32 << n) - 1, false, &mut memo)
}

/// Check one execution. Returns a witness description on failure.
fn check(prog: &Prog, calls: &[Call], words: &[u64]) -> Option<J> {
    // no page index at or beyond the page count may ever appear
    for c in calls {
        if let Ret::Words(w) = &c.ret {
            for p in prog.pages..w.len() * 64 {
                if w[p / 64] >> (p % 64) & 1 == 1 {
                    return Some(jobj! {"kind" => "page-beyond-count-reported", "page" => p, "call" => format!("T{}:{:?}", c.thread, c.op)});
                }
            }
        }
    }
    // pages named by the program; every other page must simply never show up anywhere
    let mut touched = std::collections::BTreeSet::new();
    for c in calls {
        match &c.op {
            Op::MarkRange(s, l) | Op::ResetRange(s, l) | Op::MarkDirty(s, l) => {
                for p in *s..s.saturating_add(*l).min(prog.pages) {
                    touched.insert(p);
                }
            }
            Op::SetBit(i) | Op::ResetBit(i) | Op::IsBitSet(i) => {
                if *i < prog.pages {
                    touched.insert(*i);
                }
            }
            _ => {}
        }
    }
    let untouched_set = |w: &[u64]| -> Option<usize> {
        for (wi, x) in w.iter().enumerate() {
            let mut m = *x;
            while m != 0 {
                let b = m.trailing_zeros() as usize;
                if !touched.contains(&(wi * 64 + b)) {
                    return Some(wi * 64 + b);
                }
                m &= m - 1;
            }
        }
        None
    };
    if let Some(p) = untouched_set(words) {
        return Some(jobj! {"kind" => "page-set-that-nobody-marked", "page" => p});
    }
    for c in calls {
        if let Ret::Words(w) = &c.ret {
            if let Some(p) = untouched_set(w) {
                return Some(jobj! {"kind" => "page-reported-that-nobody-marked", "page" => p, "call" => format!("T{}:{:?}", c.thread, c.op)});
            }
        }
    }
    for page in touched.iter().cloned() {
        let ops = page_ops(calls, words, page, prog.pages);
        if ops.len() <= 1 {
            // only the final read: must be clean
            if let PK::Read(true) = ops[0].k {
                return Some(jobj! {"kind" => "page-set-that-nobody-marked", "page" => page});
            }
            continue;
        }
        if !linearizable(&ops) {
            return Some(jobj! {"kind" => "page-history-not-linearizable", "page" => page,
                "history" => J::A(ops.iter().map(|o| J::S(format!("{} [{}..{}] {:?}", o.what, o.inv, o.resp, o.k))).collect())});
        }
    }
    None
}

// ---------------------------------------------------------------------------------------------
// catalogue

fn catalogue() -> Vec<Prog> {
    use Op::*;
    vec![
        Prog { name: "two-markers-one-word+harvest", pages: 70, threads: vec![vec![SetBit(3)], vec![SetBit(5)], vec![Harvest]] , init: vec![] },
        Prog { name: "marker-range-vs-harvester", pages: 70, threads: vec![vec![MarkRange(3, 2)], vec![Harvest, Harvest]] , init: vec![] },
        Prog { name: "two-markers+clone", pages: 70, threads: vec![vec![MarkRange(3, 1), SetBit(9)], vec![SetBit(5)], vec![Clone]] , init: vec![] },
        Prog { name: "marker-spanning-words-vs-harvester", pages: 130, threads: vec![vec![MarkRange(62, 4)], vec![Harvest]] , init: vec![] },
        Prog { name: "marker-vs-reset-range-vs-harvester", pages: 70, threads: vec![vec![SetBit(4)], vec![ResetRange(3, 3)], vec![Harvest]] , init: vec![] },
        Prog { name: "set-bit-vs-reset-bit-same-word", pages: 70, threads: vec![vec![SetBit(7), SetBit(8)], vec![ResetBit(7), SetBit(9)]] , init: vec![] },
        Prog { name: "marker-vs-two-harvesters", pages: 70, threads: vec![vec![SetBit(1), SetBit(2)], vec![Harvest], vec![Harvest]] , init: vec![] },
        Prog { name: "mark-dirty-vs-harvest-vs-read", pages: 70, threads: vec![vec![MarkDirty(10, 2)], vec![Harvest], vec![IsBitSet(10), IsBitSet(11)]] , init: vec![] },
        Prog { name: "three-markers-one-word", pages: 70, threads: vec![vec![SetBit(0)], vec![SetBit(1)], vec![SetBit(63), Harvest]] , init: vec![] },
        Prog { name: "marker-vs-reset-all", pages: 130, threads: vec![vec![SetBit(3), SetBit(70)], vec![Reset], vec![Harvest]] , init: vec![] },
        Prog { name: "remark-after-harvest", pages: 70, threads: vec![vec![SetBit(3), SetBit(3)], vec![Harvest, SetBit(5)]] , init: vec![] },
        Prog { name: "range-mark-vs-range-reset-overlap", pages: 70, threads: vec![vec![MarkRange(2, 3)], vec![ResetRange(3, 3)], vec![Clone]] , init: vec![] },
    ]
}

/// Systematic family: one operation X on a word (on a page that is already dirty, so that value
/// dependent fast paths are taken) while another thread performs TWO further read-modify-writes on
/// the same word - the shape a multi-step (load / compare-exchange / store) rewrite of X loses a
/// foreign update in. Every interleaving is executed; the quiescent final read is part of the check.
/// Program names live in a static table (reachable at exit, so not a leak for Miri).
fn intern(s: String) -> &'static str {
    use std::sync::Mutex;
    static NAMES: Mutex<Vec<&'static str>> = Mutex::new(Vec::new());
    let mut g = NAMES.lock().unwrap();
    if let Some(n) = g.iter().find(|n| **n == s) {
        return n;
    }
    let n: &'static str = Box::leak(s.into_boxed_str());
    g.push(n);
    n
}

fn systematic() -> Vec<Prog> {
    use Op::*;
    let xs: Vec<(&str, Vec<Op>)> = vec![
        ("reset_range", vec![SetBit(3), ResetRange(3, 1)]),
        ("reset_bit", vec![SetBit(3), ResetBit(3)]),
        ("set_bit-again", vec![SetBit(3), SetBit(3)]),
        ("mark_range", vec![SetBit(3), MarkRange(2, 3)]),
        ("mark_dirty", vec![SetBit(3), MarkDirty(3, 1)]),
        ("harvest", vec![SetBit(3), Harvest]),
        ("reset-all", vec![SetBit(3), Reset]),
        ("reset_range-wide", vec![MarkRange(2, 3), ResetRange(1, 5)]),
    ];
    let foreign: Vec<(&str, Vec<Op>)> = vec![
        ("two-marks", vec![MarkRange(5, 2)]),
        ("mark-then-harvest", vec![SetBit(5), Harvest]),
        ("harvest-then-mark", vec![Harvest, SetBit(5)]),
        ("mark-then-unmark", vec![SetBit(5), ResetBit(5)]),
        ("mark-same-page-twice", vec![SetBit(3), SetBit(3)]),
    ];
    let mut v = vec![];
    for (xn, x) in &xs {
        for (fnm, f) in &foreign {
            let name = intern(format!("sys/{}-vs-{}", xn, fnm));
            v.push(Prog { name, pages: 70, threads: vec![x.clone(), f.clone()], init: vec![] });
        }
    }
    // three threads: X vs one marker and one harvester
    for (xn, x) in xs.iter().take(4) {
        let name = intern(format!("sys3/{}-vs-marker-vs-harvester", xn));
        v.push(Prog { name, pages: 70, threads: vec![x.clone(), vec![MarkRange(5, 2)], vec![Harvest]], init: vec![] });
    }
    // LONG ranges (three words and more): range code may switch strategy with the length; a foreign
    // update lands in the partial first / last word or in a whole interior word
    for (xn, x, init) in [
        ("mark", MarkRange(60, 72), vec![]),
        ("mark-over-dirty-neighbours", MarkRange(60, 72), vec![SetBit(3), SetBit(131)]),
        ("reset", ResetRange(60, 72), vec![MarkRange(58, 76)]),
        ("mark_dirty", MarkDirty(60, 72), vec![]),
    ] {
        for (fnm, f) in [
            ("setbit-head-word", vec![SetBit(5)]),
            ("setbit-tail-word", vec![SetBit(133)]),
            ("resetbit-head-then-setbit-tail", vec![ResetBit(58), SetBit(133)]),
            ("setbit-inside-the-range", vec![SetBit(100)]),
        ] {
            // the two-step foreign thread (~70 000 interleavings) only against plain mark and reset
            if f.len() > 1 && xn != "mark" && xn != "reset" {
                continue;
            }
            let name = intern(format!("longrange/{}-vs-{}", xn, fnm));
            v.push(Prog { name, pages: 140, threads: vec![vec![x.clone()], f], init: init.clone() });
        }
    }
    // bitmaps of ten words: code that treats words in groups (cache lines of 8 words) - the same bit
    // position dirty in two words of one group, a mark landing in one of them during a harvest /
    // reset / clone
    for (iname, init) in [
        ("same-bit-in-two-words", vec![SetBit(7), SetBit(64 + 3), SetBit(64 * 8 + 3)]),
        ("same-bit-in-all-words-of-the-group", (0..8).map(|w| SetBit(64 * w + 3)).chain([SetBit(9)]).collect::<Vec<_>>()),
    ] {
        for (sn, threads) in [
            ("harvest-vs-mark-in-first-word", vec![vec![Harvest], vec![SetBit(3)]]),
            ("harvest-vs-mark-in-fifth-word", vec![vec![Harvest], vec![SetBit(64 * 4 + 5)]]),
            ("harvest-vs-mark-in-ninth-word", vec![vec![Harvest], vec![SetBit(64 * 8 + 7)]]),
            ("harvest-vs-mark-range-across-words", vec![vec![Harvest], vec![MarkRange(62, 4)]]),
            ("reset-all-vs-mark", vec![vec![Reset], vec![SetBit(64 * 2 + 3)]]),
            ("clone-vs-mark", vec![vec![Clone], vec![SetBit(64 * 2 + 3)]]),
        ] {
            let name = intern(format!("groups/{}/{}", iname, sn));
            v.push(Prog { name, pages: 640, threads, init: init.clone() });
        }
    }
    // ranges that start inside the bitmap and END BEYOND IT, on bitmaps whose page count is not a
    // multiple of 64 (the last word has unused bits): whatever the range code does with the tail,
    // no harvest, clone or read running in between may see a page at or beyond the page count
    for (pn, pages, start) in [("70-pages", 70usize, 66usize), ("100-pages", 100, 90), ("130-pages", 130, 120)] {
        for (xn, x) in [("mark", MarkRange(start, 1000)), ("mark_dirty", MarkDirty(start, 1000)), ("mark-to-usize-max", MarkRange(start, usize::MAX - start)), ("reset", ResetRange(start, 1000))] {
            for (fnm, f) in [("harvest", vec![Harvest]), ("two-harvests", vec![Harvest, Harvest]), ("clone", vec![Clone]), ("harvest-then-mark-last-page", vec![Harvest, SetBit(pages - 1)])] {
                if pages == 130 && f.len() > 1 {
                    continue;
                }
                let name = intern(format!("pastend/{}/{}-vs-{}", pn, xn, fnm));
                let init = if xn == "reset" { vec![MarkRange(start.saturating_sub(2), 1000)] } else { vec![] };
                v.push(Prog { name, pages, threads: vec![vec![x.clone()], f], init });
            }
        }
    }
    // value-dependent states of a word: every page of the first word dirty (and, as a contrast,
    // all but one) before the threads start; two clearing operations and a re-mark race on it
    for (iname, init) in [("full-word", vec![MarkRange(0, 64)]), ("full-but-one", vec![MarkRange(0, 63)]), ("full-two-words", vec![MarkRange(0, 70)])] {
        let shapes: Vec<(&str, Vec<Vec<Op>>)> = vec![
            ("two-harvesters", vec![vec![Harvest], vec![Harvest]]),
            ("harvest-vs-reset-then-remark", vec![vec![Harvest], vec![ResetRange(5, 2), SetBit(5)]]),
            ("harvest-vs-reset_bit-then-remark", vec![vec![Harvest], vec![ResetBit(5), SetBit(5)]]),
            ("harvest-vs-remark-then-harvest", vec![vec![Harvest], vec![SetBit(5), Harvest]]),
            ("reset-all-vs-harvest-then-remark", vec![vec![Reset], vec![Harvest, SetBit(5)]]),
            ("reset_range-vs-harvest-then-remark", vec![vec![ResetRange(4, 3)], vec![Harvest, SetBit(5)]]),
            ("clone-vs-harvest", vec![vec![Clone], vec![Harvest, SetBit(5)]]),
            // the mark that would make the word completely dirty (page 63 is the clean one of "full-but-one")
            ("completing-mark-vs-two-harvests", vec![vec![SetBit(63)], vec![Harvest, Harvest]]),
            ("completing-range-mark-vs-harvest-then-remark", vec![vec![MarkRange(62, 2)], vec![Harvest, SetBit(5), Harvest]]),
            ("completing-mark_dirty-vs-reset-then-harvest", vec![vec![MarkDirty(63, 1)], vec![ResetRange(3, 2), Harvest]]),
        ];
        for (sn, threads) in shapes {
            if iname == "full-two-words" && sn.starts_with("reset_range") {
                continue;
            }
            let name = intern(format!("sysinit/{}/{}", iname, sn));
            v.push(Prog { name, pages: 70, threads, init: init.clone() });
        }
    }
    v
}

fn larger(r: &mut Rng) -> Prog {
    // 3 threads x up to 8 primitive steps on pages sharing one word / two words
    let pages = 200;
    let mut threads = vec![];
    for t in 0..3 {
        let mut ops = vec![];
        let n = 2 + r.usize_below(3);
        for _ in 0..n {
            let p = *r.pick(&[1usize, 2, 3, 62, 63, 64, 65]);
            ops.push(match r.below(10) {
                0..=3 => Op::SetBit(p),
                4 => Op::MarkRange(p, 1 + r.usize_below(3)),
                // now and then a long range (one to two whole words and more)
                // (under the interpreter a 130-page range costs minutes per schedule: shorter there)
                5 => Op::MarkRange(p, if r.chance(1, 3) { if cfg!(miri) { 3 + r.usize_below(6) } else { 60 + r.usize_below(70) } } else { 1 + r.usize_below(3) }),
                6 => Op::ResetBit(p),
                7 => Op::Harvest,
                8 => Op::Clone,
                _ => Op::ResetRange(p, if r.chance(1, 4) { if cfg!(miri) { 3 + r.usize_below(6) } else { 60 + r.usize_below(70) } } else { 1 + r.usize_below(2) }),
            });
        }
        if t == 2 {
            ops.push(Op::Harvest);
        }
        threads.push(ops);
    }
    // one time in three the word starts fully dirty
    let init = if r.chance(1, 3) { vec![Op::MarkRange(0, 64)] } else { vec![] };
    Prog { name: "random-3x", pages, threads, init }
}

fn report(prog: &Prog, decisions: &[(usize, usize)], witness: J, mode: &str) {
    let choice: Vec<usize> = decisions.iter().map(|d| d.0).collect();
    out::viol(
        &format!("C08/{}/{}", mode, prog.name),
        jobj! {"program" => J::A(prog.threads.iter().map(|t| J::dbg(t)).collect()), "pages" => prog.pages, "choice_string" => choice, "witness" => witness},
    );
}

fn dfs(prog: &Prog, max_schedules: u64) -> (u64, u64, bool) {
    let mut prefix: Vec<usize> = vec![];
    let mut count = 0u64;
    let mut contended = 0u64;
    let mut complete = false;
    loop {
        let (calls, words, decisions, cont) = run_controlled(prog, &prefix, Box::new(|_, _| 0));
        count += 1;
        out::count("scheduler_decision_points", decisions.len() as i128);
        out::count("decision_alternatives_seen", decisions.iter().map(|d| d.1 as i128).sum::<i128>());
        if cont {
            contended += 1;
        }
        if let Some(w) = check(prog, &calls, &words) {
            report(prog, &decisions, w, "dfs");
            break;
        }
        if count <= 3 && out::want_sample() {
            out::sample(jobj! {"program" => prog.name, "threads" => J::A(prog.threads.iter().map(|t| J::dbg(t)).collect()), "schedule" => decisions.iter().map(|d| d.0).collect::<Vec<usize>>(), "calls" => J::A(calls.iter().map(|c| J::S(format!("T{} {:?} [{}..{}] -> {:?}", c.thread, c.op, c.inv, c.resp, c.ret))).collect()), "final_words" => J::dbg(&words)});
        }
        // backtrack
        let mut k = decisions.len();
        loop {
            if k == 0 {
                complete = true;
                break;
            }
            k -= 1;
            if decisions[k].0 + 1 < decisions[k].1 {
                prefix = decisions[..k].iter().map(|d| d.0).collect();
                prefix.push(decisions[k].0 + 1);
                break;
            }
        }
        if complete || count >= max_schedules {
            break;
        }
    }
    (count, contended, complete)
}

// ---------------------------------------------------------------------------------------------
// free-running mode

static CLOCK: AtomicU64 = AtomicU64::new(0);

fn run_free(prog: &Prog) -> (Vec<Call>, Vec<u64>) {
    run_free_then(prog, &[])
}

/// Free-running threads, then - after all of them have finished - a sequential EPILOGUE on the same
/// bitmap by the calling thread (the concurrent phase must not leave anything behind that makes
/// the bitmap stop behaving like a set afterwards: drifted counters, stale summaries).
fn run_free_then(prog: &Prog, epilogue: &[Op]) -> (Vec<Call>, Vec<u64>) {
    let bm = Arc::new(AtomicBitmap::new(prog.pages, NonZeroUsize::new(1).unwrap()));
    let start = Arc::new(std::sync::Barrier::new(prog.threads.len()));
    let mut calls = vec![];
    for op in &prog.init {
        let inv = CLOCK.fetch_add(1, Ordering::SeqCst);
        let ret = exec(&bm, op);
        let resp = CLOCK.fetch_add(1, Ordering::SeqCst);
        calls.push(Call { thread: INIT_THREAD, op: op.clone(), inv, resp, ret });
    }
    let mut hs = vec![];
    for (tid, ops) in prog.threads.iter().enumerate() {
        let bm = bm.clone();
        let ops = ops.clone();
        let start = start.clone();
        hs.push(std::thread::spawn(move || {
            start.wait();
            let mut calls = vec![];
            for op in ops {
                let inv = CLOCK.fetch_add(1, Ordering::SeqCst);
                let ret = exec(&bm, &op);
                let resp = CLOCK.fetch_add(1, Ordering::SeqCst);
                calls.push(Call { thread: tid, op, inv, resp, ret });
            }
            calls
        }));
    }
    for h in hs {
        calls.extend(h.join().unwrap());
    }
    for op in epilogue {
        let inv = CLOCK.fetch_add(1, Ordering::SeqCst);
        let ret = exec(&bm, op);
        let resp = CLOCK.fetch_add(1, Ordering::SeqCst);
        calls.push(Call { thread: prog.threads.len(), op: op.clone(), inv, resp, ret });
    }
    let w = final_words(&bm);
    (calls, w)
}

pub fn run(args: &Args) {
    out::set_quiet_cases(true);
    let mode = args.str("mode", "dfs");
    let mut cat = catalogue();
    cat.extend(systematic());
    match mode.as_str() {
        "dfs" => {
            set_sched_hook(Some(hook));
            let maxs = args.u64("max", 80_000);
            let (si, sn) = args.shard();
            let nprog = args.u64("programs", cat.len() as u64) as usize;
            let mut total = 0;
            let mut total_cont = 0;
            for (pi, p) in cat.iter().enumerate().take(nprog) {
                if (pi as u64) % sn != si {
                    continue;
                }
                out::case(pi as u64, jobj! {"op" => p.name});
                let (n, c, complete) = dfs(p, maxs);
                total += n;
                total_cont += c;
                out::key(&format!("dfs|{}|{}", p.name, if complete { "exhausted" } else { "truncated" }), true);
                out::count(&format!("schedules[{}]", p.name), n as i128);
                if complete {
                    out::count("programs_exhausted", 1);
                } else {
                    out::count("programs_truncated", 1);
                }
            }
            out::eval(total);
            out::count("schedules_explored", total as i128);
            out::count("schedules_with_cross_thread_contention_on_one_word", total_cont as i128);
            set_sched_hook(None);
        }
        "sample" => {
            set_sched_hook(Some(hook));
            let mut n = 0u64;
            let mut cont = 0u64;
            for case in args.cases(2000) {
                let mut r = Rng::new(args.seed(), "c08-sample", case);
                let p = larger(&mut r);
                // PCT-flavoured policy: mostly stick with the current choice, switch at a few change points
                let switch = 2 + r.below(5);
                let mut pr = Rng::new(args.seed(), "c08-policy", case);
                let policy = move |step: usize, k: usize| -> usize {
                    if (step as u64) % switch == 0 || pr.chance(1, 3) {
                        pr.usize_below(k)
                    } else {
                        0
                    }
                };
                let (calls, words, decisions, c) = run_controlled(&p, &[], Box::new(policy));
                n += 1;
                out::count("scheduler_decision_points", decisions.len() as i128);
                out::count("decision_alternatives_seen", decisions.iter().map(|d| d.1 as i128).sum::<i128>());
                if c {
                    cont += 1;
                }
                if let Some(w) = check(&p, &calls, &words) {
                    report(&p, &decisions, w, "sample");
                    break;
                }
                out::key(&format!("sample|{:x}", crate::common::out::fnv(&format!("{:?}{:?}", p.threads, decisions))), c);
            }
            out::eval(n);
            out::count("sampled_schedules", n as i128);
            out::count("sampled_schedules_with_contention", cont as i128);
            set_sched_hook(None);
        }
        _ => {
            // free-running: native stress / TSan / Miri
            let iters = args.u64("iters", 2000);
            let mut n = 0u64;
            let mut overlapped = 0u64;
            for case in args.cases(iters) {
                let mut r = Rng::new(args.seed(), "c08-free", case);
                // every third history: a TINY bitmap (2..5 pages) hammered by a marker and a harvester,
                // followed by a sequential epilogue that marks every page, reads every page back,
                // harvests and reads again
                let tiny = case % 3 == 1 && !cfg!(miri);
                if tiny && case % 30 == 1 {
                    // long concurrent phase (thousands of operations per thread: the two threads do
                    // overlap), judged on the sequential epilogue alone
                    let pages = 2 + r.usize_below(5);
                    let k = 4000;
                    let bm = Arc::new(AtomicBitmap::new(pages, NonZeroUsize::new(1).unwrap()));
                    let go = Arc::new(std::sync::atomic::AtomicBool::new(false));
                    let hs: Vec<_> = (0..2)
                        .map(|t| {
                            let (bm, go) = (bm.clone(), go.clone());
                            let hot = r.usize_below(pages);
                            std::thread::spawn(move || {
                                while !go.load(Ordering::Acquire) {
                                    std::hint::spin_loop();
                                }
                                for i in 0..k {
                                    if t == 0 {
                                        bm.set_bit(if i % 8 == 7 { i % pages } else { hot });
                                    } else if i % 5 == 4 {
                                        bm.reset_bit(hot);
                                    } else {
                                        let _ = bm.get_and_reset();
                                    }
                                }
                            })
                        })
                        .collect();
                    go.store(true, Ordering::Release);
                    for h in hs {
                        let _ = h.join();
                    }
                    // sequential epilogue: the bitmap is a set again (no harvest or reset first:
                    // whatever the racy phase left behind must not matter)
                    for p in (1..pages).chain([0]) {
                        bm.set_bit(p);
                    }
                    let all_set = (0..pages).all(|p| bm.is_bit_set(p));
                    let harvested: u32 = bm.get_and_reset().iter().map(|w| w.count_ones()).sum();
                    let none_set = (0..pages).all(|p| !bm.is_bit_set(p));
                    if !all_set || harvested as usize != pages || !none_set {
                        out::viol("C08/free/tiny/sequential-epilogue-after-a-racy-phase", jobj! {"pages" => pages, "every_page_set_after_marking_every_page" => all_set, "pages_harvested" => harvested, "clean_after_harvest" => none_set});
                        break;
                    }
                    n += 1;
                    overlapped += 1;
                    out::key("free|tiny|long-racy-phase-then-epilogue", true);
                    continue;
                }
                let (p, epilogue) = if tiny {
                    use Op::*;
                    let pages = 2 + r.usize_below(4);
                    let k = 30 + r.usize_below(40);
                    let marker: Vec<Op> = (0..k).map(|i| SetBit(if r.chance(3, 4) { 0 } else { i % pages })).collect();
                    let harvester: Vec<Op> = (0..k).map(|_| Harvest).collect();
                    let mut ep: Vec<Op> = (1..pages).map(SetBit).collect();
                    ep.push(SetBit(0));
                    ep.extend((0..pages).map(IsBitSet));
                    ep.push(Harvest);
                    ep.extend((0..pages).map(IsBitSet));
                    (Prog { name: "tiny/marker-vs-harvester-then-sequential-epilogue", pages, threads: vec![marker, harvester], init: vec![] }, ep)
                } else if case % 3 == 0 {
                    (larger(&mut r), vec![])
                } else {
                    let c = catalogue();
                    let k = r.usize_below(c.len());
                    (c.into_iter().nth(k).unwrap(), vec![])
                };
                let (calls, words) = run_free_then(&p, &epilogue);
                n += 1;
                // did two calls of different threads overlap in time?
                let ov = calls.iter().any(|a| calls.iter().any(|b| a.thread != b.thread && a.inv < b.resp && b.inv < a.resp));
                if ov {
                    overlapped += 1;
                }
                if let Some(w) = check(&p, &calls, &words) {
                    out::viol(&format!("C08/free/{}", p.name), jobj! {"program" => J::A(p.threads.iter().map(|t| J::dbg(t)).collect()), "witness" => w,
                        "calls" => J::A(calls.iter().map(|c| J::S(format!("T{} {:?} [{}..{}] -> {:?}", c.thread, c.op, c.inv, c.resp, c.ret))).collect())});
                    break;
                }
                out::key(&format!("free|{}|{}", p.name, if ov { "overlap" } else { "sequential" }), ov);
            }
            out::eval(n);
            out::count("free_histories", n as i128);
            out::count("free_histories_with_overlapping_calls", overlapped as i128);
        }
    }
}
