//! C12 — a mapping lives exactly as long as something can still reach it.
//! Oracle: kernel-level event log from the interposer (every mmap/munmap the library issues) +
//! the harness's own owner-set bookkeeping; offline rule per step: the munmaps observed are
//! exactly the mappings whose last owner just went away, with the exact (addr, len); externally
//! provided mappings are never unmapped. Cross-checks: /proc/self/maps for named file mappings,
//! reads through every still-live handle. Under Miri the same sequences run on the allocation
//! path (leak / double free / use-after-free are interpreter errors).

use crate::common::interpose::{self, Ev};
use crate::common::out::{self, J};
use crate::common::prng::Rng;
use crate::common::{guarded, panic_sig, Args};
use crate::models::world::named_temp_file;
use std::collections::HashMap;
use std::sync::Arc;
use vm_memory::{
    Bytes, FileOffset, GuestAddress, GuestAddressSpace, GuestMemory, GuestMemoryAtomic, GuestMemoryMmap,
    GuestMemoryRegion, GuestRegionMmap, MmapRegion,
};

type Map = GuestMemoryMmap<()>;
type Reg = GuestRegionMmap<()>;

fn v(sig: &str, d: J) {
    out::viol(&format!("C12/{}", sig), d);
}

#[derive(Clone, Debug, PartialEq)]
enum RKind {
    Anon,
    File(String),
    Raw,
}

#[derive(Clone, Debug)]
struct RInfo {
    addr: usize,
    len: usize,
    start: u64,
    kind: RKind,
    tag: u8,
    /// the pieces of address space that were mapped for this region (net effect of the step
    /// that created it)
    extent: Vec<(usize, usize)>,
}

enum Owner {
    Map(Map, Vec<u32>),
    Handle(Arc<Reg>, u32),
    Atomic(GuestMemoryAtomic<Map>, Vec<u32>),
    Snapshot(vm_memory::GuestMemoryLoadGuard<Map>, Vec<u32>),
    SnapArc(Arc<Map>, Vec<u32>),
}

impl Owner {
    fn ids(&self) -> Vec<u32> {
        match self {
            Owner::Map(_, v) | Owner::Atomic(_, v) | Owner::Snapshot(_, v) | Owner::SnapArc(_, v) => v.clone(),
            Owner::Handle(_, i) => vec![*i],
        }
    }
    fn name(&self) -> &'static str {
        match self {
            Owner::Map(..) => "map",
            Owner::Handle(..) => "handle",
            Owner::Atomic(..) => "atomic",
            Owner::Snapshot(..) => "snapshot",
            Owner::SnapArc(..) => "snapshot-arc",
        }
    }
    /// Read the first and last byte of every region reachable through this owner.
    fn probe(&self, regs: &HashMap<u32, RInfo>) -> Result<(), String> {
        let check = |m: &Map, ids: &Vec<u32>| -> Result<(), String> {
            for id in ids {
                let ri = &regs[id];
                for a in [ri.start, ri.start + ri.len as u64 - 1] {
                    match m.read_obj::<u8>(GuestAddress(a)) {
                        Ok(b) if b == ri.tag => {}
                        other => return Err(format!("region {} at {:#x}: {:?} (tag {})", id, a, other, ri.tag)),
                    }
                }
            }
            if m.num_regions() != ids.len() {
                return Err(format!("map lists {} regions, expected {}", m.num_regions(), ids.len()));
            }
            Ok(())
        };
        match self {
            Owner::Map(m, ids) => check(m, ids),
            Owner::Atomic(a, ids) => check(&a.memory(), ids),
            Owner::Snapshot(g, ids) => check(g, ids),
            Owner::SnapArc(m, ids) => check(m, ids),
            Owner::Handle(h, id) => {
                let ri = &regs[id];
                let p = h.as_ptr();
                // SAFETY: the handle owns (or wraps) the mapping.
                let (a, b) = unsafe { (p.read_volatile(), p.add(ri.len - 1).read_volatile()) };
                if a != ri.tag || b != ri.tag {
                    return Err(format!("handle of region {}: bytes {} {} (tag {})", id, a, b, ri.tag));
                }
                Ok(())
            }
        }
    }
}

struct World {
    regs: HashMap<u32, RInfo>,
    /// externally provided mappings (addr, len) the harness itself must release
    raws: HashMap<u32, (usize, usize)>,
    owners: Vec<Owner>,
    next_id: u32,
    next_start: u64,
    dead: Vec<u32>,
    trace: Vec<String>,
    files: Vec<String>,
    /// net effect of every mmap/munmap observed so far
    lib: interpose::Pieces,
}

fn maps_has(name: &str) -> bool {
    std::fs::read_to_string("/proc/self/maps").unwrap_or_default().contains(name)
}

impl World {
    fn new() -> World {
        World { regs: HashMap::new(), raws: HashMap::new(), owners: vec![], next_id: 1, next_start: 0x1000, dead: vec![], trace: vec![], files: vec![], lib: interpose::Pieces::default() }
    }

    fn live_ids(&self) -> Vec<u32> {
        let mut v: Vec<u32> = self.owners.iter().flat_map(|o| o.ids()).collect();
        v.sort();
        v.dedup();
        v
    }

    /// Create a region; the mmap it issues must be visible in the log and match the region.
    fn create(&mut self, kind: u64, r: &mut Rng) -> Option<(Reg, u32)> {
        let len = *r.pick(&[1usize, 100, 4096, 4097, 12288]);
        let id = self.next_id;
        self.next_id += 1;
        let start = self.next_start;
        self.next_start += len as u64 + 0x1000;
        let tag = (id as u8) | 0x80;
        let (region, rk): (MmapRegion<()>, RKind) = match kind {
            #[cfg(not(feature = "xen"))]
            0 if !cfg!(miri) => {
                // externally provided mapping
                let mlen = len.div_ceil(4096) * 4096;
                let p = unsafe { libc::mmap(std::ptr::null_mut(), mlen, libc::PROT_READ | libc::PROT_WRITE, libc::MAP_PRIVATE | libc::MAP_ANONYMOUS, -1, 0) };
                assert!(p != libc::MAP_FAILED);
                self.raws.insert(id, (p as usize, mlen));
                let reg = unsafe { MmapRegion::<()>::build_raw(p as *mut u8, len, libc::PROT_READ | libc::PROT_WRITE, libc::MAP_PRIVATE | libc::MAP_ANONYMOUS) }.unwrap();
                (reg, RKind::Raw)
            }
            1 if !cfg!(miri) => {
                let (f, path) = named_temp_file("c12", len as u64 + 4096);
                self.files.push(path.clone());
                let name = path.rsplit('/').next().unwrap().to_string();
                let fo = FileOffset::new(f, 4096 * r.below(2));
                #[cfg(not(feature = "xen"))]
                let reg = if r.chance(1, 3) {
                    vm_memory::mmap::MmapRegionBuilder::<()>::new(len)
                        .with_file_offset(fo)
                        .with_hugetlbfs(true)
                        .with_mmap_prot(libc::PROT_READ | libc::PROT_WRITE)
                        .with_mmap_flags(libc::MAP_NORESERVE | libc::MAP_SHARED)
                        .build()
                        .unwrap()
                } else {
                    MmapRegion::<()>::from_file(fo, len).unwrap()
                };
                #[cfg(feature = "xen")]
                let reg = MmapRegion::<()>::from_range(vm_memory::MmapRange::new_unix(len, Some(fo), GuestAddress(start))).unwrap();
                (reg, RKind::File(name))
            }
            _ => {
                // through the builder with its optional settings (hugetlbfs hint, explicit
                // protection / flags) as well as through the plain constructor
                #[cfg(not(feature = "xen"))]
                let reg = match r.below(4) {
                    0 => MmapRegion::<()>::new(len).unwrap(),
                    1 => vm_memory::mmap::MmapRegionBuilder::<()>::new(len).with_hugetlbfs(true).with_mmap_prot(libc::PROT_READ | libc::PROT_WRITE).build().unwrap(),
                    2 => vm_memory::mmap::MmapRegionBuilder::<()>::new(len)
                        .with_hugetlbfs(false)
                        .with_mmap_prot(libc::PROT_READ | libc::PROT_WRITE)
                        .with_mmap_flags(libc::MAP_ANONYMOUS | libc::MAP_PRIVATE | libc::MAP_NORESERVE)
                        .build()
                        .unwrap(),
                    _ => {
                        let mut m = MmapRegion::<()>::new(len).unwrap();
                        m.set_hugetlbfs(true);
                        m
                    }
                };
                #[cfg(feature = "xen")]
                let reg = MmapRegion::<()>::from_range(vm_memory::MmapRange::new_unix(len, None, GuestAddress(start))).unwrap();
                (reg, RKind::Anon)
            }
        };
        let addr = region.as_ptr() as usize;
        // fill with the tag
        for i in 0..len {
            unsafe { region.as_ptr().add(i).write_volatile(tag) };
        }
        self.regs.insert(id, RInfo { addr, len, start, kind: rk, tag, extent: vec![] });
        let g = GuestRegionMmap::new(region, GuestAddress(start)).unwrap();
        Some((g, id))
    }

    /// After a step: compare the interposer log with the owner bookkeeping.
    /// After a step: compare the NET effect of the mmap/munmap calls the step issued with the
    /// owner bookkeeping. (Stated on pieces of address space, not on calls: an implementation may
    /// over-allocate and trim, or release a mapping in several calls.)
    fn settle(&mut self, log: &[Ev], before_live: &[u32], created: &[u32], step: &str) -> bool {
        let mut ok = true;
        let now = self.live_ids();
        let died: Vec<u32> = before_live.iter().chain(created.iter()).filter(|i| !now.contains(i)).cloned().collect();
        if interpose::available() {
            self.lib.apply(log);
            // what this step mapped and left mapped
            let mut step_p = interpose::Pieces::default();
            step_p.apply(log);
            let mut unassigned = step_p.clone();
            // creation: the region's bytes lie inside pieces mapped by this step
            for id in created {
                let (addr, len) = (self.regs[id].addr, self.regs[id].len);
                if !step_p.covers(addr, len.max(1)) {
                    v("create/region-not-backed-by-a-mapping-made-for-it", jobj! {"step" => step, "region" => *id, "addr" => addr, "len" => len, "pieces" => J::dbg(&step_p.v)});
                    ok = false;
                }
                let ext: Vec<(usize, usize)> = step_p.v.iter().filter(|(a, b)| *b > addr && *a < addr + len.max(1)).cloned().collect();
                for (a, b) in &ext {
                    unassigned.remove(*a, b - a);
                }
                out::count("mapped_bytes_beyond_region_pages", (ext.iter().map(|(a, b)| b - a).sum::<usize>() as i128 - (len.max(1).div_ceil(4096) * 4096) as i128).max(0));
                self.regs.get_mut(id).unwrap().extent = ext;
            }
            // whatever else the step mapped and did not release has no owner
            for (a, b) in &unassigned.v {
                v("mapping-without-owner-left-behind", jobj! {"step" => step, "addr" => *a, "len" => b - a, "trace" => self.trace.clone()});
                ok = false;
                // release it so that later steps are judged on their own
                unsafe { libc::munmap(*a as *mut _, b - a) };
                self.lib.remove(*a, b - a);
            }
            if log.iter().any(|e| matches!(e, Ev::Mmap { errno: 0, .. })) && created.is_empty() && unassigned.v.is_empty() {
                out::count("ownerless_mappings_released", 1);
            }
            // death: everything that was mapped for the region is gone; external mappings stay
            for id in &died {
                let ri = self.regs[id].clone();
                if ri.kind == RKind::Raw {
                    if ri.extent.iter().any(|(a, b)| !self.lib.covers(*a, b - a)) {
                        v("externally-provided-mapping-unmapped-by-library", jobj! {"step" => step, "region" => *id, "log" => J::dbg(&log)});
                        ok = false;
                    }
                    continue;
                }
                let left: Vec<(usize, usize)> = ri.extent.iter().flat_map(|(a, b)| self.lib.covered(*a, b - a)).collect();
                if !left.is_empty() {
                    v("mapping-leaked-after-last-owner-dropped", jobj! {"step" => step, "region" => *id, "kind" => J::dbg(&ri.kind), "region_len" => ri.len, "still_mapped" => J::A(left.iter().map(|(a, b)| J::S(format!("+{:#x}..+{:#x}", a - ri.addr.min(*a), b - ri.addr.min(*a)))).collect()), "trace" => self.trace.clone()});
                    ok = false;
                    for (a, b) in &left {
                        unsafe { libc::munmap(*a as *mut _, b - a) };
                        self.lib.remove(*a, b - a);
                    }
                }
                let hits = log.iter().filter(|e| matches!(e, Ev::Munmap { addr, ret: 0, .. } if *addr == ri.addr)).count();
                if hits > 1 {
                    v("mapping-unmapped-twice", jobj! {"step" => step, "region" => *id});
                    ok = false;
                }
            }
            // regions that still have owners keep everything that was mapped for them
            for id in &now {
                let ri = &self.regs[id];
                if ri.extent.iter().any(|(a, b)| !self.lib.covers(*a, b - a)) {
                    v("mapping-unmapped-while-still-owned", jobj! {"step" => step, "region" => *id, "kind" => J::dbg(&ri.kind), "log" => J::dbg(&log), "trace" => self.trace.clone()});
                    ok = false;
                }
            }
        }
        // /proc/self/maps for named file mappings
        if !cfg!(miri) {
            for id in &died {
                if let RKind::File(name) = &self.regs[id].kind {
                    if maps_has(name) {
                        v("proc-maps/file-mapping-still-present-after-last-owner", jobj! {"step" => step, "region" => *id});
                        ok = false;
                    }
                }
            }
            for id in &now {
                if let RKind::File(name) = &self.regs[id].kind {
                    if !maps_has(name) {
                        v("proc-maps/file-mapping-gone-while-owned", jobj! {"step" => step, "region" => *id});
                        ok = false;
                    }
                }
            }
        }
        // reads through every live owner
        for (oi, o) in self.owners.iter().enumerate() {
            if let Err(e) = o.probe(&self.regs) {
                v("live-handle-unusable", jobj! {"step" => step, "owner" => oi, "owner_kind" => o.name(), "error" => e, "trace" => self.trace.clone()});
                ok = false;
            }
        }
        // release external mappings whose wrappers are gone
        for id in &died {
            if let Some((a, l)) = self.raws.remove(id) {
                // still usable? (a library munmap would make this fault)
                unsafe { (a as *mut u8).write_volatile(1) };
                unsafe { libc::munmap(a as *mut _, l) };
                self.lib.remove(a, l);
            }
            self.dead.push(*id);
        }
        ok
    }

    fn step<F: FnOnce(&mut World) -> Vec<u32>>(&mut self, name: &str, f: F) -> bool {
        self.trace.push(name.to_string());
        let before = self.live_ids();
        interpose::arm();
        let created = f(self);
        let log = interpose::disarm();
        out::eval(1);
        self.settle(&log, &before, &created, name)
    }
}

fn build_map(w: &mut World, regs: Vec<(Reg, u32)>) -> Owner {
    let ids: Vec<u32> = regs.iter().map(|x| x.1).collect();
    let m = Map::from_regions(regs.into_iter().map(|x| x.0).collect()).unwrap();
    let _ = w;
    Owner::Map(m, ids)
}

/// Scenario builders for the complete drop-order enumeration.
fn scenario(w: &mut World, which: usize, r: &mut Rng) -> &'static str {
    match which {
        0 => {
            // M1{A,B}; M2 = M1 + C; (M3, H) = M2 - A
            w.step("build M1{A,B}", |w| {
                let a = w.create(2, r).unwrap();
                let b = w.create(1, r).unwrap();
                let ids = vec![a.1, b.1];
                let o = build_map(w, vec![a, b]);
                w.owners.push(o);
                ids
            });
            w.step("M2 = M1.insert(C)", |w| {
                let c = w.create(2, r).unwrap();
                let Owner::Map(m1, ids1) = &w.owners[0] else { unreachable!() };
                let m2 = m1.insert_region(Arc::new(c.0)).unwrap();
                let mut ids = ids1.clone();
                ids.push(c.1);
                w.owners.push(Owner::Map(m2, ids));
                vec![c.1]
            });
            w.step("(M3,H) = M2.remove(A)", |w| {
                let Owner::Map(m2, ids2) = &w.owners[1] else { unreachable!() };
                let a = ids2[0];
                let ra = w.regs[&a].clone();
                let (m3, h) = m2.remove_region(GuestAddress(ra.start), ra.len as u64).unwrap();
                let ids: Vec<u32> = ids2.iter().filter(|i| **i != a).cloned().collect();
                w.owners.push(Owner::Map(m3, ids));
                w.owners.push(Owner::Handle(h, a));
                vec![]
            });
            "insert/remove-chain"
        }
        1 => {
            // atomic + snapshot + replace + into_inner
            w.step("build M1{A,B} -> atomic", |w| {
                let a = w.create(1, r).unwrap();
                let b = w.create(0, r).unwrap();
                let ids = vec![a.1, b.1];
                let Owner::Map(m, _) = build_map(w, vec![a, b]) else { unreachable!() };
                w.owners.push(Owner::Atomic(GuestMemoryAtomic::new(m), ids.clone()));
                ids
            });
            w.step("snapshot S1", |w| {
                let Owner::Atomic(a, ids) = &w.owners[0] else { unreachable!() };
                let s = Owner::Snapshot(a.memory(), ids.clone());
                w.owners.push(s);
                vec![]
            });
            w.step("replace with M2 = M1 - A + C", |w| {
                let c = w.create(2, r).unwrap();
                let Owner::Atomic(at, ids) = &w.owners[0] else { unreachable!() };
                let cur = at.memory();
                let a = ids[0];
                let ra = w.regs[&a].clone();
                let (m, h) = cur.remove_region(GuestAddress(ra.start), ra.len as u64).unwrap();
                let m2 = m.insert_region(Arc::new(c.0)).unwrap();
                drop(cur);
                drop(h);
                at.lock().unwrap().replace(m2);
                let mut nids: Vec<u32> = ids.iter().filter(|i| **i != a).cloned().collect();
                nids.push(c.1);
                let at2 = at.clone();
                w.owners[0] = Owner::Atomic(at2, nids);
                vec![c.1]
            });
            w.step("snapshot S2 -> into_inner", |w| {
                let Owner::Atomic(a, ids) = &w.owners[0] else { unreachable!() };
                let s = Owner::SnapArc(a.memory().into_inner(), ids.clone());
                w.owners.push(s);
                vec![]
            });
            w.step("clone of S1", |w| {
                let Owner::Snapshot(g, ids) = &w.owners[1] else { unreachable!() };
                let s = Owner::Snapshot(g.clone(), ids.clone());
                w.owners.push(s);
                vec![]
            });
            "atomic/snapshot/replace"
        }
        _ => {
            // clones and shared Arcs: M1{A}; M2 = clone; H = handle of A via remove from a derived map; M3{A,B} from_arc_regions
            w.step("build M1{A(raw or anon)}", |w| {
                let a = w.create(r.below(3), r).unwrap();
                let ids = vec![a.1];
                let o = build_map(w, vec![a]);
                w.owners.push(o);
                ids
            });
            w.step("M2 = M1.clone()", |w| {
                let Owner::Map(m, ids) = &w.owners[0] else { unreachable!() };
                let o = Owner::Map(m.clone(), ids.clone());
                w.owners.push(o);
                vec![]
            });
            w.step("H = handle of A; M3 = from_arc_regions[A,B]", |w| {
                let b = w.create(1, r).unwrap();
                let Owner::Map(m, ids) = &w.owners[0] else { unreachable!() };
                let a = ids[0];
                let ra = w.regs[&a].clone();
                let (_empty, h) = m.remove_region(GuestAddress(ra.start), ra.len as u64).unwrap();
                let m3 = Map::from_arc_regions(vec![h.clone(), Arc::new(b.0)]).unwrap();
                w.owners.push(Owner::Handle(h, a));
                w.owners.push(Owner::Map(m3, vec![a, b.1]));
                vec![b.1]
            });
            "clone/shared-arc"
        }
    }
}

fn permutations(n: usize) -> Vec<Vec<usize>> {
    fn rec(cur: &mut Vec<usize>, used: &mut Vec<bool>, n: usize, out: &mut Vec<Vec<usize>>) {
        if cur.len() == n {
            out.push(cur.clone());
            return;
        }
        for i in 0..n {
            if !used[i] {
                used[i] = true;
                cur.push(i);
                rec(cur, used, n, out);
                cur.pop();
                used[i] = false;
            }
        }
    }
    let mut out = vec![];
    rec(&mut vec![], &mut vec![false; n], n, &mut out);
    out
}

fn enumerate_drop_orders(args: &Args) {
    let mut total = 0u64;
    for which in 0..3 {
        // number of owners after the scenario is built (dry run)
        let nown = {
            let mut w = World::new();
            let mut r = Rng::new(args.seed(), "c12-enum", which as u64);
            scenario(&mut w, which, &mut r);
            let n = w.owners.len();
            finish(&mut w);
            n
        };
        let perms = permutations(nown);
        let perms: Vec<Vec<usize>> = if cfg!(miri) { perms.into_iter().step_by(7).collect() } else { perms };
        for (pi, perm) in perms.iter().enumerate() {
            let mut w = World::new();
            let mut r = Rng::new(args.seed(), "c12-enum", (which * 1000 + pi) as u64);
            out::case((which * 1000 + pi) as u64, jobj! {"op" => format!("scenario{} drop order {:?}", which, perm)});
            let name = scenario(&mut w, which, &mut r);
            // drop owners in the order `perm` (indices into the original owner list)
            let mut orig: Vec<usize> = (0..w.owners.len()).collect();
            for &k in perm {
                let p = orig.iter().position(|x| *x == k).unwrap();
                orig.remove(p);
                let oname = w.owners[p].name();
                w.step(&format!("drop {}#{}", oname, k), |w| {
                    let o = w.owners.remove(p);
                    drop(o);
                    vec![]
                });
            }
            out::key(&format!("{}|order{:?}", name, perm), true);
            finish(&mut w);
            total += 1;
        }
    }
    out::count("drop_orders_enumerated", total as i128);
}

fn finish(w: &mut World) {
    // drop whatever is left, one by one, still judged
    while !w.owners.is_empty() {
        let last = w.owners.len() - 1;
        let n = w.owners[last].name();
        w.step(&format!("final drop {}", n), |w| {
            let o = w.owners.remove(last);
            drop(o);
            vec![]
        });
    }
    for f in w.files.drain(..) {
        let _ = std::fs::remove_file(f);
    }
    if !w.live_ids().is_empty() {
        v("harness/live-ids-after-finish", J::Null);
    }
}

/// Large anonymous regions (2 MiB and more - where an implementation may align for huge pages,
/// over-allocate and trim) whose request sizes step through every 4 KiB residue, so that the
/// placements the kernel hands out sweep every offset within a 2 MiB frame, aligned ones included.
/// All are kept alive until the end (a dropped region's spot would simply be reused).
#[cfg(not(feature = "xen"))]
fn large_region_sweep() {
    let mut w = World::new();
    let n = 530usize;
    let mut ok = true;
    for i in 0..n {
        if !ok {
            break;
        }
        let len = (2usize << 20) + 4096 * (i % 512) + if i % 7 == 0 { 1 } else { 0 };
        ok = w.step("create large region -> map", |w| {
            let id = w.next_id;
            w.next_id += 1;
            let start = w.next_start;
            w.next_start += len as u64 + 0x1000;
            let tag = (id as u8) | 0x80;
            let region = if i % 3 == 0 {
                vm_memory::mmap::MmapRegionBuilder::<()>::new(len).with_mmap_prot(libc::PROT_READ | libc::PROT_WRITE).with_mmap_flags(libc::MAP_ANONYMOUS | libc::MAP_PRIVATE | libc::MAP_NORESERVE).build().unwrap()
            } else {
                MmapRegion::<()>::new(len).unwrap()
            };
            let addr = region.as_ptr() as usize;
            // only the first and the last byte are touched (what probe() reads)
            unsafe {
                region.as_ptr().write_volatile(tag);
                region.as_ptr().add(len - 1).write_volatile(tag);
            }
            w.regs.insert(id, RInfo { addr, len, start, kind: RKind::Anon, tag, extent: vec![] });
            let g = GuestRegionMmap::new(region, GuestAddress(start)).unwrap();
            let o = build_map(w, vec![(g, id)]);
            w.owners.push(o);
            out::key(&format!("large|placement-mod-2MiB={}", if addr % (2 << 20) == 0 { "aligned" } else { "other" }), true);
            if addr % (2 << 20) == 0 {
                out::count("large_regions_at_2MiB_aligned_placement", 1);
            }
            vec![id]
        });
    }
    out::count("large_regions_created", w.owners.len() as i128);
    finish(&mut w);
}

/// Externally provided mappings in every state we can make (read-write, no access, read-only,
/// shared file mapping) described to the library with every protection / flag word a caller might
/// pass (locked, populate, huge pages, fixed, grows-down, no bits, all bits), through both routes
/// (`build_raw`, builder + raw pointer). Whatever the constructor answers - and whatever happens to
/// the region object, the guest region and the collections built from it afterwards - the library
/// never unmaps, remaps or re-protects memory it does not own.
#[cfg(not(feature = "xen"))]
fn external_mappings_grid() {
    use vm_memory::mmap::MmapRegionBuilder;
    let perms_of = |addr: usize| -> Option<String> {
        let maps = std::fs::read_to_string("/proc/self/maps").ok()?;
        for l in maps.lines() {
            let mut it = l.split_whitespace();
            let range = it.next()?;
            let perms = it.next()?;
            let (a, b) = range.split_once('-')?;
            let (a, b) = (usize::from_str_radix(a, 16).ok()?, usize::from_str_radix(b, 16).ok()?);
            if a <= addr && addr < b {
                return Some(perms.to_string());
            }
        }
        None
    };
    let rw = libc::PROT_READ | libc::PROT_WRITE;
    let pa = libc::MAP_PRIVATE | libc::MAP_ANONYMOUS;
    let states: [(&str, i32, bool); 4] = [("rw", rw, false), ("none", libc::PROT_NONE, false), ("ro", libc::PROT_READ, false), ("shared-file", rw, true)];
    let flag_words: [(&str, i32); 11] = [
        ("private|anon", pa),
        ("+locked", pa | libc::MAP_LOCKED),
        ("+populate", pa | libc::MAP_POPULATE),
        ("+locked+populate", pa | libc::MAP_LOCKED | libc::MAP_POPULATE),
        ("+noreserve", pa | libc::MAP_NORESERVE),
        ("+hugetlb", pa | libc::MAP_HUGETLB),
        ("+fixed", pa | libc::MAP_FIXED),
        ("+growsdown+stack", pa | libc::MAP_GROWSDOWN | libc::MAP_STACK),
        ("shared", libc::MAP_SHARED),
        ("no-bits", 0),
        ("all-bits", -1),
    ];
    let mut cells = 0u64;
    let mut refused = 0u64;
    for (sname, sprot, file) in states {
        for (fname, flags) in flag_words {
            for dprot in [rw, libc::PROT_NONE, libc::PROT_READ, -1] {
                for (len, route) in [(1usize, 0u8), (4096, 1), (4097, 0), (8192, 2), (100, 3)] {
                    let mlen = len.div_ceil(4096) * 4096 + 4096;
                    let backing = if file { Some(crate::models::world::temp_file(mlen as u64)) } else { None };
                    // SAFETY: a fresh mapping of our own.
                    let p = unsafe {
                        match &backing {
                            Some(f) => libc::mmap(std::ptr::null_mut(), mlen, sprot, libc::MAP_SHARED, std::os::fd::AsRawFd::as_raw_fd(f), 0),
                            None => libc::mmap(std::ptr::null_mut(), mlen, sprot, pa, -1, 0),
                        }
                    };
                    assert!(p != libc::MAP_FAILED);
                    let addr = p as usize;
                    let perms0 = perms_of(addr);
                    interpose::arm();
                    // SAFETY: describes `len` bytes inside our own live mapping; nothing is accessed
                    // through the region object.
                    let res = unsafe {
                        match route {
                            0 => MmapRegion::<()>::build_raw(p as *mut u8, len, dprot, flags),
                            1 => MmapRegionBuilder::<()>::new(len).with_raw_mmap_pointer(p as *mut u8).with_mmap_prot(dprot).with_mmap_flags(flags).build(),
                            2 => MmapRegionBuilder::<()>::new(len).with_mmap_prot(dprot).with_mmap_flags(flags).with_hugetlbfs(true).with_raw_mmap_pointer(p as *mut u8).build(),
                            _ => MmapRegionBuilder::<()>::new_with_bitmap(len, ()).with_raw_mmap_pointer(p as *mut u8).with_mmap_prot(dprot).with_mmap_flags(flags).build(),
                        }
                    };
                    let ok = res.is_ok();
                    refused += !ok as u64;
                    if let Ok(region) = res {
                        if let Ok(g) = GuestRegionMmap::new(region, GuestAddress(0x4000)) {
                            if let Ok(gm) = GuestMemoryMmap::from_regions(vec![g]) {
                                let c = gm.clone();
                                drop(gm);
                                drop(c);
                            }
                        }
                    }
                    let log = interpose::disarm();
                    let touched: Vec<&Ev> = log
                        .iter()
                        .filter(|e| match e {
                            Ev::Munmap { addr: a, len: l, .. } => *a < addr + mlen && addr < *a + (*l).max(1),
                            Ev::Mmap { addr: a, len: l, flags: f, .. } => *a != 0 && (f & libc::MAP_FIXED) != 0 && *a < addr + mlen && addr < *a + (*l).max(1),
                            _ => false,
                        })
                        .collect();
                    // SAFETY: msync on an address range only reports whether it is mapped.
                    let still = unsafe { libc::msync(p, mlen, libc::MS_ASYNC) } == 0;
                    let perms1 = perms_of(addr);
                    if !touched.is_empty() || !still || perms0 != perms1 {
                        v("external-mapping/library-unmapped-or-changed-memory-it-does-not-own", jobj! {"external_mapping" => sname, "described_flags" => fname, "described_prot" => dprot, "route" => route as u64, "len" => len, "constructor_ok" => ok, "still_mapped" => still, "perms_before" => J::dbg(&perms0), "perms_after" => J::dbg(&perms1), "calls_on_it" => J::dbg(&touched)});
                    }
                    // SAFETY: our own mapping, released by its owner.
                    let rc = unsafe { libc::munmap(p, mlen) };
                    if rc != 0 && still {
                        v("external-mapping/owner-could-not-release-its-mapping", jobj! {"external_mapping" => sname, "described_flags" => fname});
                    }
                    out::key(&format!("external|{}|{}|prot{}|route{}|ok={}", sname, fname, dprot, route, ok), true);
                    out::eval(1);
                    cells += 1;
                }
            }
        }
    }
    out::count("external_mapping_cells", cells as i128);
    out::count("external_mapping_constructor_refusals", refused as i128);
}

/// Owners are ordinary values: a child created by fork() inherits every one of them, and for the
/// child, too, "a live handle never points at unmapped memory". Built through every construction
/// route, reached through every kind of owner.
#[cfg(not(miri))]
fn forked_child_keeps_mappings() {
    use crate::common::fork::{self, Exit};
    use vm_memory::{Bytes, GuestMemory, GuestMemoryAtomic, GuestAddressSpace};
    type GM = vm_memory::GuestMemoryMmap<()>;
    let mk_file = |len: usize| -> Reg {
        let f = crate::models::world::temp_file(len as u64 + 4096);
        #[cfg(not(feature = "xen"))]
        let reg = MmapRegion::<()>::from_file(FileOffset::new(f, 4096), len).unwrap();
        #[cfg(feature = "xen")]
        let reg = MmapRegion::<()>::from_range(vm_memory::MmapRange::new_unix(len, Some(FileOffset::new(f, 4096)), GuestAddress(0x9000))).unwrap();
        GuestRegionMmap::new(reg, GuestAddress(0x9000)).unwrap()
    };
    #[cfg(not(feature = "xen"))]
    let builder_region = {
        let reg = vm_memory::mmap::MmapRegionBuilder::<()>::new(8192).with_mmap_prot(libc::PROT_READ | libc::PROT_WRITE).with_mmap_flags(libc::MAP_ANONYMOUS | libc::MAP_PRIVATE | libc::MAP_NORESERVE).build().unwrap();
        GuestRegionMmap::new(reg, GuestAddress(0x20000)).unwrap()
    };
    let base: GM = GM::from_ranges(&[(GuestAddress(0x1000), 0x1000), (GuestAddress(0x2000), 0x3000)]).unwrap();
    let gm = base.insert_region(Arc::new(mk_file(0x2000))).unwrap();
    #[cfg(not(feature = "xen"))]
    let gm = gm.insert_region(Arc::new(builder_region)).unwrap();
    // tag every region
    for (i, r) in gm.iter().enumerate() {
        let _ = gm.write_obj::<u8>(0x40 + i as u8, r.start_addr());
        let _ = gm.write_obj::<u8>(0x60 + i as u8, r.last_addr());
    }
    let clone = gm.clone();
    let (derived, removed) = gm.remove_region(GuestAddress(0x2000), 0x3000).unwrap();
    let atomic = GuestMemoryAtomic::new(gm.clone());
    let snapshot = atomic.memory();
    let nregs = gm.num_regions();
    let ex = fork::run(20, || {
        let mut report = String::new();
        let owners: Vec<(&str, Vec<&Reg>)> = vec![
            ("map", gm.iter().collect()),
            ("clone", clone.iter().collect()),
            ("derived-by-removal", derived.iter().collect()),
            ("removed-region-handle", vec![&*removed]),
            ("snapshot", snapshot.iter().collect()),
        ];
        'o: for (oname, regs) in owners {
            for r in regs {
                // SAFETY: msync only reports whether the range is mapped.
                let mapped = unsafe { libc::msync(r.as_ptr() as *mut libc::c_void, (r.len() as usize).div_ceil(4096) * 4096, libc::MS_ASYNC) } == 0;
                if !mapped {
                    report = format!("{}: region at {:#x} ({} bytes) is not mapped in the child", oname, r.start_addr().0, r.len());
                    break 'o;
                }
                let first = r.read_obj::<u8>(vm_memory::MemoryRegionAddress(0)).unwrap_or(0);
                if first & 0xf0 != 0x40 {
                    report = format!("{}: region at {:#x}: tag byte reads {:#x} in the child", oname, r.start_addr().0, first);
                    break 'o;
                }
            }
        }
        report.into_bytes()
    });
    match ex {
        Exit::Ok(rep) if rep.is_empty() => {
            out::key(&format!("fork|child-keeps-mappings|{}regions", nregs), true);
            out::count("forked_children_checked", 1);
        }
        Exit::Ok(rep) => v("fork/live-handle-points-at-unmapped-or-different-memory-in-the-child", J::s(String::from_utf8_lossy(&rep).to_string())),
        Exit::Signal(sig) => v("fork/child-crashed-using-an-inherited-owner", jobj! {"signal" => fork::signal_name(sig)}),
        Exit::Panic(p) => v("fork/child-panicked-using-an-inherited-owner", J::s(p)),
        other => out::note("C12/fork-child-inconclusive", J::dbg(&other)),
    }
    // the parent's view is untouched by the child's exit
    for (i, r) in gm.iter().enumerate() {
        if gm.read_obj::<u8>(r.start_addr()).ok() != Some(0x40 + i as u8) {
            v("fork/parent-memory-changed-after-the-child-exited", jobj! {"region" => i});
        }
    }
    out::eval(1);
}

/// A caller-defined dirty bitmap whose constructor can be made to panic (the k-th construction
/// from now on): constructions that create the bitmap themselves then UNWIND out of the library.
mod panicky_bitmap {
    use std::sync::atomic::{AtomicI64, Ordering};
    use vm_memory::bitmap::{Bitmap, BitmapSlice, NewBitmap, WithBitmapSlice};
    pub static PANIC_IN: AtomicI64 = AtomicI64::new(-1);
    #[derive(Debug, Default, Clone, Copy)]
    pub struct PB;
    impl<'a> WithBitmapSlice<'a> for PB {
        type S = PB;
    }
    impl BitmapSlice for PB {}
    impl Bitmap for PB {
        fn mark_dirty(&self, _offset: usize, _len: usize) {}
        fn dirty_at(&self, _offset: usize) -> bool {
            false
        }
        fn slice_at(&self, _offset: usize) -> PB {
            PB
        }
    }
    impl NewBitmap for PB {
        fn with_len(_len: usize) -> Self {
            if PANIC_IN.fetch_sub(1, Ordering::SeqCst) == 0 {
                panic!("bitmap constructor refuses (injected)");
            }
            PB
        }
    }
}

/// Requests that must be refused. Whatever they mapped on the way has no owner afterwards and
/// must be gone when the call returns (judged by `settle`: mmaps of the step == munmaps of the step).
const FAILING: usize = 11;
fn failing_construction(w: &mut World, which: usize, r: &mut Rng) -> String {
    let len = *r.pick(&[1usize, 100, 4096, 4097, 12288]);
    let base = w.next_start;
    w.next_start += 0x10_0000;
    let anon = |len: usize, start: u64| -> Reg {
        #[cfg(not(feature = "xen"))]
        let reg = MmapRegion::<()>::new(len).unwrap();
        #[cfg(feature = "xen")]
        let reg = MmapRegion::<()>::from_range(vm_memory::MmapRange::new_unix(len, None, GuestAddress(start))).unwrap();
        GuestRegionMmap::new(reg, GuestAddress(start)).unwrap()
    };
    let file_req = |w: &mut World, flen: u64, off: u64, size: usize| -> bool {
        let (f, path) = named_temp_file("c12f", flen);
        w.files.push(path);
        let fo = FileOffset::new(f, off);
        #[cfg(not(feature = "xen"))]
        let res = MmapRegion::<()>::from_file(fo, size);
        #[cfg(feature = "xen")]
        let res = MmapRegion::<()>::from_range(vm_memory::MmapRange::new_unix(size, Some(fo), GuestAddress(0x1000)));
        res.is_err()
    };
    let (name, refused): (&str, bool) = match which % FAILING {
        0 if !cfg!(miri) => {
            // file range ends past the end of the file (by 1 byte .. several pages)
            let flen = *r.pick(&[0u64, 1, 4095, 4096, 8192]);
            let off = 4096 * r.below(3);
            let size = (flen.saturating_sub(off) + *r.pick(&[1u64, 2, 4096, 65536])) as usize;
            ("file-range-past-eof", file_req(w, flen, off, size))
        }
        1 if !cfg!(miri) => ("file-offset-overflow", file_req(w, 8192, u64::MAX - r.below(4096), 4096 + len)),
        2 if !cfg!(miri) => ("file-offset-unaligned", file_req(w, 65536, 1 + r.below(4095), len)),
        #[cfg(not(feature = "xen"))]
        3 if !cfg!(miri) => {
            let res = vm_memory::mmap::MmapRegionBuilder::<()>::new(len)
                .with_mmap_prot(libc::PROT_READ | libc::PROT_WRITE)
                .with_mmap_flags(libc::MAP_ANONYMOUS | libc::MAP_PRIVATE | libc::MAP_FIXED)
                .build();
            ("map-fixed", res.is_err())
        }
        4 => {
            // guest base + size beyond the address space: the (already mapped) region is consumed
            #[cfg(not(feature = "xen"))]
            let reg = MmapRegion::<()>::new(len).unwrap();
            #[cfg(feature = "xen")]
            let reg = MmapRegion::<()>::from_range(vm_memory::MmapRange::new_unix(len, None, GuestAddress(0))).unwrap();
            let res = GuestRegionMmap::new(reg, GuestAddress(u64::MAX - (len as u64 - 1) + r.below(len as u64).min(3)));
            ("guest-base-overflow", res.is_err())
        }
        5 => {
            // overlapping ranges: every range mapped before the refusal must be released
            let n = 2 + r.usize_below(3);
            let mut ranges: Vec<(GuestAddress, usize)> = (0..n).map(|i| (GuestAddress(base + i as u64 * 0x1_0000), len)).collect();
            let dup = r.usize_below(n - 1);
            ranges[n - 1].0 = GuestAddress(ranges[dup].0 .0 + r.below(len as u64));
            ("from_ranges-overlap", Map::from_ranges(&ranges).is_err())
        }
        6 => {
            let a = anon(len, base);
            let b = anon(len, base + r.below(len as u64));
            let c = anon(len, base + 0x2_0000);
            ("from_regions-overlap", Map::from_regions(vec![a, c, b]).is_err())
        }
        7 if !cfg!(miri) && interpose::available() => {
            // the k-th mmap of a multi-range construction fails (ENOMEM injected)
            let n = 2 + r.usize_below(3);
            let ranges: Vec<(GuestAddress, usize)> = (0..n).map(|i| (GuestAddress(base + i as u64 * 0x1_0000), len)).collect();
            let k = r.below(n as u64);
            interpose::fail_mmap_after(k);
            let res = Map::from_ranges(&ranges);
            interpose::fail_mmap_after(u64::MAX);
            ("from_ranges-kth-mmap-fails", res.is_err())
        }
        9 => {
            // the caller's bitmap constructor panics for the k-th region of a multi-range
            // construction: the library unwinds; whatever it had mapped by then has no owner
            use panicky_bitmap::{PANIC_IN, PB};
            let n = 1 + r.usize_below(3);
            let ranges: Vec<(GuestAddress, usize)> = (0..n).map(|i| (GuestAddress(base + i as u64 * 0x1_0000), len)).collect();
            PANIC_IN.store(r.below(n as u64) as i64, std::sync::atomic::Ordering::SeqCst);
            let res = guarded(|| vm_memory::GuestMemoryMmap::<PB>::from_ranges(&ranges).is_ok());
            PANIC_IN.store(-1, std::sync::atomic::Ordering::SeqCst);
            ("from_ranges-bitmap-constructor-panics", res.is_err())
        }
        10 if !cfg!(miri) => {
            use panicky_bitmap::{PANIC_IN, PB};
            PANIC_IN.store(0, std::sync::atomic::Ordering::SeqCst);
            let with_file = r.chance(1, 2);
            let res = guarded(|| {
                if with_file {
                    let (f, path) = named_temp_file("c12p", len as u64 + 4096);
                    let _ = std::fs::remove_file(&path);
                    vm_memory::GuestRegionMmap::<PB>::from_range(GuestAddress(base), len, Some(FileOffset::new(f, 4096))).is_ok()
                } else {
                    vm_memory::GuestRegionMmap::<PB>::from_range(GuestAddress(base), len, None).is_ok()
                }
            });
            PANIC_IN.store(-1, std::sync::atomic::Ordering::SeqCst);
            (if with_file { "from_range(file)-bitmap-constructor-panics" } else { "from_range-bitmap-constructor-panics" }, res.is_err())
        }
        _ => {
            // insert_region of an overlapping region: the refused Arc is the last reference
            let m = Map::from_regions(vec![anon(len, base), anon(len, base + 0x2_0000)]).unwrap();
            let bad = Arc::new(anon(len, base + 0x2_0000 + r.below(len as u64)));
            let refused = m.insert_region(bad).is_err();
            drop(m);
            ("insert_region-overlap", refused)
        }
    };
    if !refused {
        // accepting it is C15's / C10's business; here only the mapping balance is judged
        out::note("C12/request-expected-to-fail-was-accepted", jobj! {"kind" => name});
    }
    out::count("failing_constructions", 1);
    format!("failing construction {}", name)
}

fn random_sequence(case: u64, args: &Args) {
    let mut r = Rng::new(args.seed(), "c12", case);
    let mut w = World::new();
    let steps = r.range(6, args.u64("maxsteps", 30));
    for _ in 0..steps {
        let k = r.below(100);
        let nown = w.owners.len();
        let pick_map = |w: &World, r: &mut Rng| -> Option<usize> {
            let c: Vec<usize> = w.owners.iter().enumerate().filter(|(_, o)| matches!(o, Owner::Map(..))).map(|(i, _)| i).collect();
            if c.is_empty() {
                None
            } else {
                Some(*r.pick(&c))
            }
        };
        let ok = if k < 8 {
            let which = r.usize_below(FAILING);
            let mut name = String::new();
            let ok = w.step("failing construction", |w| {
                name = failing_construction(w, which, &mut r);
                vec![]
            });
            if let Some(t) = w.trace.last_mut() {
                *t = name.clone();
            }
            out::key(&format!("{}|{}", name, if ok { "balanced" } else { "unbalanced" }), true);
            ok
        } else if k < 24 || nown == 0 {
            w.step("create regions -> map", |w| {
                let n = 1 + r.usize_below(3);
                let mut regs = vec![];
                for _ in 0..n {
                    let kind = r.below(3);
                    regs.push(w.create(kind, &mut r).unwrap());
                }
                let ids: Vec<u32> = regs.iter().map(|x| x.1).collect();
                let o = build_map(w, regs);
                w.owners.push(o);
                ids
            })
        } else if k < 35 {
            match pick_map(&w, &mut r) {
                Some(mi) => w.step("insert", |w| {
                    let c = w.create(r.below(3), &mut r).unwrap();
                    let Owner::Map(m, ids) = &w.owners[mi] else { unreachable!() };
                    let m2 = m.insert_region(Arc::new(c.0)).unwrap();
                    let mut nids = ids.clone();
                    nids.push(c.1);
                    w.owners.push(Owner::Map(m2, nids));
                    vec![c.1]
                }),
                None => true,
            }
        } else if k < 50 {
            match pick_map(&w, &mut r) {
                Some(mi) => w.step("remove", |w| {
                    let Owner::Map(m, ids) = &w.owners[mi] else { unreachable!() };
                    if ids.is_empty() {
                        return vec![];
                    }
                    let a = *r.pick(ids);
                    let ra = w.regs[&a].clone();
                    let (m2, h) = m.remove_region(GuestAddress(ra.start), ra.len as u64).unwrap();
                    let nids: Vec<u32> = ids.iter().filter(|i| **i != a).cloned().collect();
                    w.owners.push(Owner::Map(m2, nids));
                    if r.chance(2, 3) {
                        w.owners.push(Owner::Handle(h, a));
                    }
                    vec![]
                }),
                None => true,
            }
        } else if k < 58 {
            match pick_map(&w, &mut r) {
                Some(mi) => w.step("clone map", |w| {
                    let Owner::Map(m, ids) = &w.owners[mi] else { unreachable!() };
                    let o = Owner::Map(m.clone(), ids.clone());
                    w.owners.push(o);
                    vec![]
                }),
                None => true,
            }
        } else if k < 66 {
            match pick_map(&w, &mut r) {
                Some(mi) => w.step("atomic from clone", |w| {
                    let Owner::Map(m, ids) = &w.owners[mi] else { unreachable!() };
                    let o = Owner::Atomic(GuestMemoryAtomic::new(m.clone()), ids.clone());
                    w.owners.push(o);
                    vec![]
                }),
                None => true,
            }
        } else if k < 80 {
            let c: Vec<usize> = w.owners.iter().enumerate().filter(|(_, o)| matches!(o, Owner::Atomic(..))).map(|(i, _)| i).collect();
            if c.is_empty() {
                true
            } else {
                let ai = *r.pick(&c);
                match r.below(3) {
                    0 => w.step("snapshot", |w| {
                        let Owner::Atomic(a, ids) = &w.owners[ai] else { unreachable!() };
                        let o = Owner::Snapshot(a.memory(), ids.clone());
                        w.owners.push(o);
                        vec![]
                    }),
                    1 => w.step("snapshot.into_inner", |w| {
                        let Owner::Atomic(a, ids) = &w.owners[ai] else { unreachable!() };
                        let o = Owner::SnapArc(a.memory().into_inner(), ids.clone());
                        w.owners.push(o);
                        vec![]
                    }),
                    _ => w.step("replace", |w| {
                        let c = w.create(r.below(3), &mut r).unwrap();
                        let Owner::Atomic(at, ids) = &w.owners[ai] else { unreachable!() };
                        let cur = at.memory();
                        let m2 = cur.insert_region(Arc::new(c.0)).unwrap();
                        drop(cur);
                        at.lock().unwrap().replace(m2);
                        let mut nids = ids.clone();
                        nids.push(c.1);
                        let at2 = at.clone();
                        w.owners[ai] = Owner::Atomic(at2, nids);
                        vec![c.1]
                    }),
                }
            }
        } else {
            let di = r.usize_below(nown);
            let n = w.owners[di].name();
            w.step(&format!("drop {}", n), |w| {
                let o = w.owners.remove(di);
                drop(o);
                vec![]
            })
        };
        if !ok {
            break;
        }
        out::key(&format!("step|{}|owners{}", w.trace.last().map(|s| s.split(' ').next().unwrap_or("")).unwrap_or(""), w.owners.len().min(8)), true);
    }
    if out::want_sample() {
        out::sample(jobj! {"sequence" => w.trace.clone()});
    }
    finish(&mut w);
}

pub fn run(args: &Args) {
    out::set_quiet_cases(false);
    if !cfg!(miri) && !interpose::available() {
        v("harness/interposer-not-available", J::Null);
        return;
    }
    if args.shard().0 == 0 && !args.flag("noenum") {
        if let Err(p) = guarded(|| enumerate_drop_orders(args)) {
            v(&format!("panic/enumeration/{}", panic_sig(&p)), J::s(p));
        }
    }
    if args.shard().0 == 0 && !args.flag("noenum") {
        // every failing-construction kind, several draws each, on an otherwise empty world
        let r0 = guarded(|| {
            for which in 0..FAILING {
                for rep in 0..(if cfg!(miri) { 1 } else { 12 }) {
                    let mut r = Rng::new(args.seed(), "c12-failing", (which * 100 + rep) as u64);
                    let mut w = World::new();
                    let mut name = String::new();
                    let ok = w.step("failing construction", |w| {
                        name = failing_construction(w, which, &mut r);
                        vec![]
                    });
                    out::key(&format!("{}|{}", name, if ok { "balanced" } else { "unbalanced" }), true);
                    finish(&mut w);
                }
            }
        });
        if let Err(p) = r0 {
            v(&format!("panic/failing-constructions/{}", panic_sig(&p)), J::s(p));
        }
    }
    #[cfg(not(feature = "xen"))]
    if args.shard().0 == 0 && !cfg!(miri) && !args.flag("nolarge") {
        if let Err(p) = guarded(large_region_sweep) {
            v(&format!("panic/large-region-sweep/{}", panic_sig(&p)), J::s(p));
        }
    }
    #[cfg(not(feature = "xen"))]
    if args.shard().0 == 0 && !cfg!(miri) && interpose::available() {
        if let Err(p) = guarded(external_mappings_grid) {
            v(&format!("panic/external-mappings/{}", panic_sig(&p)), J::s(p));
        }
    }
    #[cfg(not(miri))]
    if args.shard().0 == 0 {
        if let Err(p) = guarded(forked_child_keeps_mappings) {
            v(&format!("panic/fork/{}", panic_sig(&p)), J::s(p));
        }
    }
    for case in args.cases(300) {
        out::case(case, jobj! {"op" => "random-sequence"});
        if let Err(p) = guarded(|| random_sequence(case, args)) {
            v(&format!("panic/{}", panic_sig(&p)), jobj! {"panic" => p, "case" => case});
        }
    }
}
