//! C07 — guest-controlled addresses and lengths can never crash the monitor.
//! Oracle: "returns". Every call of the entry-point table runs under catch_unwind inside a
//! forked child with a CPU-time limit; a panic, a fatal signal or a runaway call is a violation
//! with the exact entry point and arguments as witness. Run in overflow-checked (debug) and
//! unchecked (release) builds.

use crate::common::arena::{Arena, Place};
use crate::common::fork::{self, Exit};
use crate::common::gen::{edge_u64, edge_usize};
use crate::common::out::{self, J};
use crate::common::prng::Rng;
use crate::common::{guarded, panic_sig, Args};
use crate::models::layout::Layout;
use crate::models::mock::MockMemory;
use crate::models::world::build_mock;
use std::io::Cursor;
use std::num::NonZeroUsize;
use std::sync::atomic::{AtomicU32, Ordering};
use vm_memory::bitmap::{AtomicBitmap, Bitmap};
use vm_memory::{
    Address, Bytes, GuestAddress, GuestMemory, GuestMemoryMmap, GuestMemoryRegion, GuestRegionMmap,
    MemoryRegionAddress, ReadVolatile, VolatileMemory, VolatileSlice, WriteVolatile,
};

struct Env {
    arenas: Vec<(Arena, AtomicBitmap)>,
    gms: Vec<(GuestMemoryMmap<AtomicBitmap>, Vec<(u64, u64)>, &'static str)>,
    mocks: Vec<(MockMemory, Vec<(u64, u64)>, &'static str)>,
    bitmaps: Vec<AtomicBitmap>,
}

fn gm_of(regs: &[(u64, usize)]) -> GuestMemoryMmap<AtomicBitmap> {
    let v: Vec<GuestRegionMmap<AtomicBitmap>> = regs.iter().map(|(s, l)| GuestRegionMmap::from_range(GuestAddress(*s), *l, None).unwrap()).collect();
    GuestMemoryMmap::from_regions(v).unwrap()
}

impl Env {
    fn new(r: &mut Rng) -> Env {
        let mut arenas = vec![];
        for (len, place, page) in [(0usize, Place::R, 1usize), (1, Place::R, 1), (37, Place::C(3), 7), (300, Place::L, 4096), (4096, Place::R, 5000), (64, Place::C(8), 1)] {
            let a = Arena::new(len, place);
            a.fill(|i| i as u8);
            arenas.push((a, AtomicBitmap::new(len, NonZeroUsize::new(page).unwrap())));
        }
        let top = u64::MAX;
        let specs: Vec<(Vec<(u64, usize)>, &'static str)> = vec![
            (vec![(0x1000, 0x2000)], "single"),
            (vec![(0, 0x1000), (top - 0x2000, 0x2000)], "zero+below-top"),
            (vec![(0x10, 1), (0x11, 1), (0x13, 1)], "one-byte-regions"),
            (vec![(0, 0x1000), (0x1000, 0x1001), (0x4000, 0x10)], "adjacent+hole"),
            // many regions (lookup strategies may change with the region count), lowest region
            // above 0, holes of 0 / 1 / many bytes, highest region ending at the top
            ((0..17u64).map(|i| (0x8000 + i * 0x30, if i % 3 == 0 { 0x30 } else { 0x2f })).collect(), "17-regions-above-zero"),
            ((0..64u64).map(|i| (0x100 + i * 0x1_0000_0000, 0x40)).chain([(top - 0x40, 0x40)]).collect(), "65-regions-sparse-to-top"),
        ];
        let mut gms = vec![];
        for (sp, name) in specs {
            let pairs = sp.iter().map(|(s, l)| (*s, *l as u64)).collect();
            gms.push((gm_of(&sp), pairs, name));
        }
        let mut mocks = vec![];
        let t = 1u128 << 64;
        for (regs, name) in [
            (vec![(0u128, 0x40u128), (t - 0x40, 0x40)], "mock-zero+top"),
            (vec![(t - 1, 1)], "mock-last-byte"),
            (vec![(5, 1), (6, 1), (t - 9, 1), (t - 8, 8)], "mock-one-byte+top"),
        ] {
            let lay = Layout::new(regs.clone());
            let page = *r.pick(&[1usize, 7, 4096]);
            let (mm, _, _) = build_mock(&lay, Some(page), r);
            mocks.push((mm, regs.iter().map(|(s, l)| (*s as u64, *l as u64)).collect(), name));
        }
        let mut bitmaps = vec![];
        for (bs, p) in [(0usize, 1usize), (1, 1), (100, 7), (4096, 4096), (10_000, 1), (300, 5000), (64 * 4096 + 1, 4096)] {
            bitmaps.push(AtomicBitmap::new(bs, NonZeroUsize::new(p).unwrap()));
        }
        Env { arenas, gms, mocks, bitmaps }
    }
}

#[derive(Clone, Debug)]
struct CallArgs {
    a: usize,
    b: usize,
    c: usize,
    g: u64,
    g2: u64,
    ac: &'static str,
    bc: &'static str,
    gc: &'static str,
}

const N_ENTRIES: usize = 122;

/// Execute entry `e`. Returns the entry's name; may panic (=> caught by the caller).
fn call(env: &Env, e: usize, x: &CallArgs, pick: usize) -> &'static str {
    let (arena, abm) = &env.arenas[pick % env.arenas.len()];
    // SAFETY: arena memory is valid for its length.
    let vs = unsafe { VolatileSlice::with_bitmap(arena.ptr, arena.len, abm.slice_at(0), None) };
    let (gm, _, _) = &env.gms[pick % env.gms.len()];
    let (mm, _, _) = &env.mocks[pick % env.mocks.len()];
    let bm = &env.bitmaps[pick % env.bitmaps.len()];
    let (a, b, c, g) = (x.a, x.b, x.c, x.g);
    let small = |n: usize| n.min(96);
    let data: Vec<u8> = (0..small(b)).map(|i| i as u8).collect();
    let mut buf = vec![0u8; small(b)];
    let ga = GuestAddress(g);
    let ma = MemoryRegionAddress(g);
    macro_rules! e {
        ($name:expr, $body:expr) => {{
            let _ = $body;
            return $name;
        }};
    }
    match e {
        0 => e!("VolatileSlice::subslice", vs.subslice(a, b)),
        1 => e!("VolatileSlice::offset", vs.offset(a)),
        2 => e!("VolatileSlice::split_at", vs.split_at(a)),
        3 => e!("VolatileSlice::get_slice", vs.get_slice(a, b)),
        4 => e!("VolatileSlice::get_ref<u8>", vs.get_ref::<u8>(a).map(|r| r.load())),
        5 => e!("VolatileSlice::get_ref<u64>", vs.get_ref::<u64>(a).map(|r| r.store(7))),
        6 => e!("VolatileSlice::get_ref<[u16;5]>", vs.get_ref::<[u16; 5]>(a).map(|r| r.to_slice().len())),
        7 => e!("VolatileSlice::get_array_ref<u8>", vs.get_array_ref::<u8>(a, b).map(|r| { let mut t = [0u8; 16]; r.copy_to(&mut t) })),
        8 => e!("VolatileSlice::get_array_ref<u32>", vs.get_array_ref::<u32>(a, b).map(|r| { r.copy_from(&[1, 2, 3]); r.to_slice().len() })),
        9 => e!("VolatileSlice::get_array_ref<u128>", vs.get_array_ref::<u128>(a, b).map(|r| (r.len(), r.is_empty(), r.element_size()))),
        10 => e!("VolatileSlice::get_array_ref<[u8;3]>", vs.get_array_ref::<[u8; 3]>(a, b).map(|r| { let mut t = [[0u8; 3]; 4]; r.copy_to(&mut t) })),
        11 => e!("VolatileSlice::get_atomic_ref<AtomicU32>", vs.get_atomic_ref::<AtomicU32>(a).map(|r| r.load(Ordering::Relaxed))),
        12 => e!("VolatileSlice::aligned_as_ref<u64>", unsafe { vs.aligned_as_ref::<u64>(a).map(|r| *r) }),
        13 => e!("VolatileSlice::aligned_as_mut<u16>", unsafe { vs.aligned_as_mut::<u16>(a).map(|r| *r) }),
        14 => e!("VolatileSlice::compute_end_offset", vs.compute_end_offset(a, b)),
        15 => e!("VolatileSlice::write", vs.write(&data, a)),
        16 => e!("VolatileSlice::read", vs.read(&mut buf, a)),
        17 => e!("VolatileSlice::write_slice", vs.write_slice(&data, a)),
        18 => e!("VolatileSlice::read_slice", vs.read_slice(&mut buf, a)),
        19 => e!("VolatileSlice::write_obj<u64>", vs.write_obj::<u64>(b as u64, a)),
        20 => e!("VolatileSlice::read_obj<u128>", vs.read_obj::<u128>(a)),
        21 => e!("VolatileSlice::store<u32>", vs.store::<u32>(b as u32, a, Ordering::SeqCst)),
        22 => e!("VolatileSlice::load<u64>", vs.load::<u64>(a, Ordering::SeqCst)),
        23 => e!("VolatileSlice::read_volatile_from(&[u8])", vs.read_volatile_from(a, &mut &data[..], b)),
        24 => e!("VolatileSlice::read_exact_volatile_from(Cursor@pos)", {
            let mut cur = Cursor::new(&data[..]);
            cur.set_position(c as u64);
            vs.read_exact_volatile_from(a, &mut cur, b)
        }),
        25 => e!("VolatileSlice::write_volatile_to(Vec)", { let mut v: Vec<u8> = vec![]; vs.write_volatile_to(a, &mut v, b) }),
        26 => e!("VolatileSlice::write_all_volatile_to(&mut [u8])", { let mut arr = [0u8; 40]; let mut m = &mut arr[..]; vs.write_all_volatile_to(a, &mut m, b) }),
        27 => e!("VolatileSlice::copy_to<u16>", { let mut t = vec![0u16; small(a)]; vs.copy_to(&mut t) }),
        28 => e!("VolatileSlice::copy_from<u64>", { let t = vec![5u64; small(a)]; vs.copy_from(&t) }),
        29 => e!("VolatileSlice::copy_to_volatile_slice", vs.subslice(a, b).map(|s| s.copy_to_volatile_slice(vs))),
        30 => e!("BitmapSlice::mark_dirty", vs.bitmap().mark_dirty(a, b)),
        31 => e!("BitmapSlice::dirty_at", vs.bitmap().dirty_at(a)),
        32 => e!("BitmapSlice::slice_at.slice_at.mark_dirty", vs.bitmap().slice_at(a).slice_at(b).mark_dirty(c, a)),
        33 => e!("BitmapSlice::slice_at.dirty_at", vs.bitmap().slice_at(a).dirty_at(b)),
        34 => e!("VolatileArrayRef::ref_at/load/store(index < len)", {
            let n = arena.len / 4;
            if n > 0 {
                let arr = vs.get_array_ref::<u32>(0, n).unwrap();
                let i = a % n;
                let v = arr.load(i);
                arr.store(i, v);
                arr.ref_at(i).load();
            }
        }),
        35 => e!("VolatileRef via get_ref at guest offset + ptr_guard", vs.get_ref::<u32>(a).map(|r| (r.ptr_guard().len(), r.ptr_guard_mut().len()))),
        36 => e!("VolatileSlice::read_volatile_from(Cursor<Vec>@pos)", {
            let mut cur = Cursor::new(data.clone());
            cur.set_position(c as u64);
            vs.read_volatile_from(a, &mut cur, b)
        }),
        37 => e!("VolatileSlice::write_volatile_to(Cursor<&mut [u8]>@pos)", {
            let mut arr = [0u8; 48];
            let mut cur = Cursor::new(&mut arr[..]);
            cur.set_position(c as u64);
            vs.write_volatile_to(a, &mut cur, b)
        }),
        38 => e!("ReadVolatile for Cursor@pos direct", {
            let mut cur = Cursor::new(&data[..]);
            cur.set_position(c as u64);
            vs.subslice(0, arena.len.min(8)).map(|mut s| { let _ = cur.read_volatile(&mut s); let _ = cur.read_exact_volatile(&mut s); })
        }),
        39 => e!("WriteVolatile for Cursor<&mut [u8]>@pos direct", {
            let mut arr = [0u8; 8];
            let mut cur = Cursor::new(&mut arr[..]);
            cur.set_position(c as u64);
            vs.subslice(0, arena.len.min(8)).map(|s| { let _ = cur.write_volatile(&s); let _ = cur.write_all_volatile(&s); })
        }),
        // ---- region level
        40 => e!("GuestRegionMmap::write", gm.iter().next().unwrap().write(&data, ma)),
        41 => e!("GuestRegionMmap::read", gm.iter().next().unwrap().read(&mut buf, ma)),
        42 => e!("GuestRegionMmap::write_slice", gm.iter().last().unwrap().write_slice(&data, ma)),
        43 => e!("GuestRegionMmap::read_slice", gm.iter().last().unwrap().read_slice(&mut buf, ma)),
        44 => e!("GuestRegionMmap::write_obj<u64>", gm.iter().next().unwrap().write_obj::<u64>(1, ma)),
        45 => e!("GuestRegionMmap::read_obj<[u64;4]>", gm.iter().next().unwrap().read_obj::<[u64; 4]>(ma)),
        46 => e!("GuestRegionMmap::store<u16>", gm.iter().next().unwrap().store::<u16>(3, ma, Ordering::SeqCst)),
        47 => e!("GuestRegionMmap::load<u64>", gm.iter().next().unwrap().load::<u64>(ma, Ordering::SeqCst)),
        48 => e!("GuestRegionMmap::read_volatile_from", gm.iter().next().unwrap().read_volatile_from(ma, &mut &data[..], a)),
        49 => e!("GuestRegionMmap::read_exact_volatile_from", gm.iter().next().unwrap().read_exact_volatile_from(ma, &mut &data[..], a)),
        50 => e!("GuestRegionMmap::write_volatile_to", { let mut v: Vec<u8> = vec![]; gm.iter().next().unwrap().write_volatile_to(ma, &mut v, a) }),
        51 => e!("GuestRegionMmap::write_all_volatile_to", { let mut v: Vec<u8> = vec![]; gm.iter().next().unwrap().write_all_volatile_to(ma, &mut v, a) }),
        52 => e!("GuestRegionMmap::get_slice", gm.iter().next().unwrap().get_slice(ma, a).map(|s| s.len())),
        53 => e!("GuestRegionMmap::get_host_address", gm.iter().next().unwrap().get_host_address(ma)),
        54 => e!("GuestMemoryRegion::check_address", gm.iter().next().unwrap().check_address(ma)),
        55 => e!("GuestMemoryRegion::checked_offset", gm.iter().last().unwrap().checked_offset(ma, a)),
        56 => e!("GuestMemoryRegion::to_region_addr", gm.iter().last().unwrap().to_region_addr(ga)),
        57 => e!("GuestMemoryRegion::address_in_range/last_addr", (gm.iter().last().unwrap().address_in_range(ma), gm.iter().last().unwrap().last_addr())),
        58 => e!("MmapRegion::get_slice", gm.iter().next().unwrap().get_slice(MemoryRegionAddress(a as u64), b).map(|s| s.len())),
        59 => e!("MmapRegion as VolatileMemory::get_array_ref<u64>", { let reg: &vm_memory::MmapRegion<AtomicBitmap> = gm.iter().next().unwrap(); reg.get_array_ref::<u64>(a, b).map(|r| r.len()) }),
        60 => e!("MmapRegion as VolatileMemory::get_ref/get_atomic_ref/compute_end_offset", { let reg: &vm_memory::MmapRegion<AtomicBitmap> = gm.iter().next().unwrap(); (reg.get_ref::<u64>(a).map(|r| r.load()), reg.get_atomic_ref::<AtomicU32>(a).map(|_| ()), reg.compute_end_offset(a, b), VolatileMemory::get_slice(reg, a, b).map(|s| s.len())) }),
        // ---- guest memory (mmap)
        61 => e!("GuestMemoryMmap::find_region", gm.find_region(ga).map(|r| r.len())),
        62 => e!("GuestMemoryMmap::to_region_addr", gm.to_region_addr(ga).map(|(_, o)| o)),
        63 => e!("GuestMemoryMmap::address_in_range/check_address", (gm.address_in_range(ga), gm.check_address(ga))),
        64 => e!("GuestMemoryMmap::check_range", gm.check_range(ga, a)),
        65 => e!("GuestMemoryMmap::checked_offset", gm.checked_offset(ga, a)),
        66 => e!("GuestMemoryMmap::get_host_address", gm.get_host_address(ga)),
        67 => e!("GuestMemoryMmap::get_slice", gm.get_slice(ga, a).map(|s| s.len())),
        68 => e!("GuestMemoryMmap::last_addr/num_regions", (gm.last_addr(), gm.num_regions())),
        69 => e!("GuestMemoryMmap::write", gm.write(&data, ga)),
        70 => e!("GuestMemoryMmap::read", gm.read(&mut buf, ga)),
        71 => e!("GuestMemoryMmap::write_slice", gm.write_slice(&data, ga)),
        72 => e!("GuestMemoryMmap::read_slice", gm.read_slice(&mut buf, ga)),
        73 => e!("GuestMemoryMmap::write_obj<u64>", gm.write_obj::<u64>(1, ga)),
        74 => e!("GuestMemoryMmap::read_obj<[u64;4]>", gm.read_obj::<[u64; 4]>(ga)),
        75 => e!("GuestMemoryMmap::store<u64>", gm.store::<u64>(5, ga, Ordering::SeqCst)),
        76 => e!("GuestMemoryMmap::load<u16>", gm.load::<u16>(ga, Ordering::Relaxed)),
        77 => e!("GuestMemoryMmap::read_volatile_from", gm.read_volatile_from(ga, &mut &data[..], a)),
        78 => e!("GuestMemoryMmap::read_exact_volatile_from(Cursor@pos)", { let mut cur = Cursor::new(&data[..]); cur.set_position(c as u64); gm.read_exact_volatile_from(ga, &mut cur, a) }),
        79 => e!("GuestMemoryMmap::write_volatile_to", { let mut v: Vec<u8> = vec![]; gm.write_volatile_to(ga, &mut v, a).map(|n| (n, v.len())) }),
        80 => e!("GuestMemoryMmap::write_all_volatile_to", { let mut v: Vec<u8> = vec![]; gm.write_all_volatile_to(ga, &mut v, a) }),
        81 => e!("GuestMemoryMmap::try_access(honest callback)", gm.try_access(a, ga, |_, len, _, _| Ok(len))),
        82 => e!("GuestMemoryMmap::try_access(short callback)", gm.try_access(a, ga, |_, len, _, _| Ok(len.min(3)))),
        // ---- guest memory (second implementation, default methods; region at the top of the address space)
        83 => e!("MockMemory::find_region/to_region_addr", (mm.find_region(ga).map(|r| r.len()), mm.to_region_addr(ga).map(|(_, o)| o))),
        84 => e!("MockMemory::check_range", mm.check_range(ga, a)),
        85 => e!("MockMemory::checked_offset", mm.checked_offset(ga, a)),
        86 => e!("MockMemory::get_host_address/get_slice", (mm.get_host_address(ga), mm.get_slice(ga, a).map(|s| s.len()))),
        87 => e!("MockMemory::last_addr", mm.last_addr()),
        88 => e!("MockMemory::write", mm.write(&data, ga)),
        89 => e!("MockMemory::read", mm.read(&mut buf, ga)),
        90 => e!("MockMemory::write_slice", mm.write_slice(&data, ga)),
        91 => e!("MockMemory::read_slice", mm.read_slice(&mut buf, ga)),
        92 => e!("MockMemory::write_obj<u64>", mm.write_obj::<u64>(1, ga)),
        93 => e!("MockMemory::read_obj<[u64;4]>", mm.read_obj::<[u64; 4]>(ga)),
        94 => e!("MockMemory::store<u32>/load<u64>", (mm.store::<u32>(5, ga, Ordering::SeqCst), mm.load::<u64>(ga, Ordering::SeqCst))),
        95 => e!("MockMemory::read_volatile_from", mm.read_volatile_from(ga, &mut &data[..], a)),
        96 => e!("MockMemory::read_exact_volatile_from", mm.read_exact_volatile_from(ga, &mut &data[..], a)),
        97 => e!("MockMemory::write_volatile_to", { let mut v: Vec<u8> = vec![]; mm.write_volatile_to(ga, &mut v, a) }),
        98 => e!("MockMemory::write_all_volatile_to", { let mut v: Vec<u8> = vec![]; mm.write_all_volatile_to(ga, &mut v, a) }),
        99 => e!("MockMemory::try_access(honest callback)", mm.try_access(a, ga, |_, len, _, _| Ok(len))),
        100 => e!("MockRegion::default queries", { let r0 = mm.iter().last().unwrap(); (r0.last_addr(), r0.check_address(ma), r0.checked_offset(ma, a), r0.to_region_addr(ga), r0.address_in_range(ma)) }),
        // ---- addresses
        101 => e!("GuestAddress::checked_add/checked_sub", (ga.checked_add(x.g2), ga.checked_sub(x.g2))),
        102 => e!("GuestAddress::overflowing_add/sub", (ga.overflowing_add(x.g2), ga.overflowing_sub(x.g2))),
        103 => e!("GuestAddress::checked_offset_from", ga.checked_offset_from(GuestAddress(x.g2))),
        104 => e!("GuestAddress::checked_align_up(2^k)", ga.checked_align_up(1u64 << (c % 64))),
        105 => e!("MemoryRegionAddress::checked ops", (ma.checked_add(x.g2), ma.checked_sub(x.g2), ma.checked_offset_from(MemoryRegionAddress(x.g2)), ma.checked_align_up(1u64 << (b % 64)), ma.mask(x.g2), ma & x.g2, ma | x.g2)),
        // ---- bitmaps
        106 => e!("AtomicBitmap::set_addr_range", bm.set_addr_range(a, b)),
        107 => e!("AtomicBitmap::reset_addr_range", bm.reset_addr_range(a, b)),
        108 => e!("AtomicBitmap::is_addr_set/is_bit_set", (bm.is_addr_set(a), bm.is_bit_set(a))),
        109 => e!("AtomicBitmap::set_bit/reset_bit", { bm.set_bit(a); bm.reset_bit(b) }),
        110 => e!("AtomicBitmap::mark_dirty/dirty_at", { bm.mark_dirty(a, b); bm.dirty_at(c) }),
        111 => e!("AtomicBitmap::slice_at.mark_dirty", bm.slice_at(a).mark_dirty(b, c)),
        112 => e!("AtomicBitmap::slice_at.slice_at.dirty_at", bm.slice_at(a).slice_at(b).dirty_at(c)),
        113 => e!("AtomicBitmap::get_and_reset/clone/len", { let cl = bm.clone(); (cl.get_and_reset().len(), cl.len(), cl.byte_size()) }),
        114 => e!("Option<AtomicBitmap>::mark_dirty/slice_at", { let o: Option<AtomicBitmap> = Some(bm.clone()); o.mark_dirty(a, b); o.slice_at(c).dirty_at(a) }),
        // ---- slices obtained at guest level, then driven with guest-chosen arguments
        115 => e!("GuestMemory::get_slice -> subslice/offset/get_array_ref", gm.get_slice(ga, small(a)).map(|s| (s.subslice(b, c).map(|t| t.len()), s.offset(b).map(|t| t.len()), s.get_array_ref::<u16>(b, c).map(|t| t.len())))),
        116 => e!("GuestRegionMmap::as_volatile_slice -> write_obj/read at guest offset", GuestMemoryRegion::as_volatile_slice(gm.iter().next().unwrap()).map(|s| (s.write_obj::<u32>(1, a), s.read(&mut buf, b)))),
        // ---- short HISTORIES on one map: a lookup, a guest-requested hot-unplug / hot-plug, lookups in
        // the resulting map (state that a lookup leaves behind must not break the derived map)
        117 => e!("history: lookup, unplug an exact region, lookups in the new map", {
            let _ = (gm.find_region(ga), gm.read_obj::<u8>(ga));
            let regs: Vec<(GuestAddress, u64)> = gm.iter().map(|r| (r.start_addr(), r.len())).collect();
            let (s0, l0) = regs[a % regs.len()];
            gm.remove_region(s0, l0).map(|(m2, _)| (m2.find_region(GuestAddress(x.g2)).is_some(), m2.find_region(ga).is_some(), m2.check_range(GuestAddress(x.g2), small(b)), m2.read_obj::<u8>(GuestAddress(x.g2)).is_ok(), m2.last_addr()))
        }),
        118 => e!("history: touch a region's last byte, unplug that region, lookups in the new map", {
            let regs: Vec<(GuestAddress, u64)> = gm.iter().map(|r| (r.start_addr(), r.len())).collect();
            let (s0, l0) = regs[a % regs.len()];
            let _ = gm.read_obj::<u8>(GuestAddress(s0.0 + (l0 - 1)));
            gm.remove_region(s0, l0).map(|(m2, _)| (m2.find_region(ga).is_some(), m2.read_obj::<u8>(GuestAddress(x.g2)).is_ok(), m2.get_slice(ga, small(b)).is_ok(), m2.num_regions(), gm.find_region(ga).is_some()))
        }),
        119 => e!("history: lookup, unplug with guest-chosen (base, size), lookups", {
            let _ = gm.find_region(GuestAddress(x.g2));
            match gm.remove_region(ga, x.g2) {
                Ok((m2, r)) => (m2.find_region(ga).is_some(), m2.read_obj::<u8>(GuestAddress(x.g2)).is_ok(), r.len()),
                Err(_) => (gm.find_region(ga).is_some(), gm.read_obj::<u8>(GuestAddress(x.g2)).is_ok(), 0),
            }
        }),
        120 => e!("history: lookup, hot-plug at a guest-chosen base, lookups in the new map", {
            let _ = gm.find_region(ga);
            GuestRegionMmap::<AtomicBitmap>::from_range(GuestAddress(x.g2), 1 + small(b), None).ok().and_then(|r| gm.insert_region(std::sync::Arc::new(r)).ok()).map(|m2| (m2.find_region(ga).is_some(), m2.find_region(GuestAddress(x.g2)).is_some(), m2.read_obj::<u8>(ga).is_ok(), m2.num_regions()))
        }),
        _ => e!("WriteVolatile for &mut [u8] / Vec<u8> direct", vs.subslice(a, small(b)).map(|s| { let mut arr = [0u8; 16]; let mut m = &mut arr[..]; let _ = m.write_volatile(&s); let mut v: Vec<u8> = vec![]; let _ = v.write_volatile(&s); let _ = v.write_all_volatile(&s); })),
    }
}

fn gen_args(r: &mut Rng, env: &Env, pick: usize) -> CallArgs {
    let (arena, _) = &env.arenas[pick % env.arenas.len()];
    let regs = if r.chance(1, 2) { env.gms[pick % env.gms.len()].1.clone() } else { env.mocks[pick % env.mocks.len()].1.clone() };
    let (a, ac) = edge_usize(r, arena.len, arena.ptr as usize);
    let (b, bc) = edge_usize(r, arena.len.saturating_sub(a.min(arena.len)), arena.ptr as usize);
    let (c, _) = edge_usize(r, arena.len, 0);
    let (g, gc) = edge_u64(r, &regs);
    let (g2, _) = edge_u64(r, &regs);
    CallArgs { a, b, c, g, g2, ac, bc, gc }
}

/// Child side: run the calls of one batch; prints VIOL lines itself; returns coverage keys.
fn run_batch(env: &Env, seed: u64, case: u64, per_batch: usize, only: Option<usize>, profile: &str) -> Vec<u8> {
    let mut r = Rng::new(seed, "c07", case);
    let mut keys = String::new();
    for i in 0..per_batch {
        let e = r.usize_below(N_ENTRIES);
        let pick = r.usize_below(64);
        let x = gen_args(&mut r, env, pick);
        if let Some(o) = only {
            if o != i {
                continue;
            }
        }
        let res = guarded(|| call(env, e, &x, pick));
        match res {
            Ok(name) => {
                keys.push_str(&format!("{}|{}|{}|{}\n{}|{}|{}\n", name, x.ac, x.bc, profile, name, x.gc, profile));
            }
            Err(p) => {
                let name = ENTRY_NAMES.with(|n| n.borrow().get(&e).cloned()).unwrap_or_else(|| format!("entry#{}", e));
                out::set_case(case);
                out::viol(
                    &format!("C07/panic/{}/{}", name, panic_sig(&p)),
                    jobj! {"entry" => e, "a" => x.a, "b" => x.b, "c" => x.c, "g" => x.g, "g2" => x.g2, "env_pick" => pick, "panic" => p, "index_in_batch" => i, "profile" => profile},
                );
            }
        }
    }
    keys.into_bytes()
}

thread_local! {
    static ENTRY_NAMES: std::cell::RefCell<std::collections::HashMap<usize, String>> = std::cell::RefCell::new(std::collections::HashMap::new());
}

pub fn run(args: &Args) {
    out::set_quiet_cases(true);
    let mut r0 = Rng::new(args.seed(), "c07-env", 0);
    let env = Env::new(&mut r0);
    let profile = if cfg!(debug_assertions) { "checked" } else { "unchecked" };
    // learn entry names with harmless arguments (used in panic signatures)
    {
        let x = CallArgs { a: 0, b: 0, c: 0, g: 0, g2: 0, ac: "-", bc: "-", gc: "-" };
        for e in 0..N_ENTRIES {
            if let Ok(n) = guarded(|| call(&env, e, &x, 0)) {
                ENTRY_NAMES.with(|m| m.borrow_mut().insert(e, n.to_string()));
            }
        }
    }
    let per_batch = args.u64("batch", 2000) as usize;
    let cpu = args.u64("cpu", 20);
    let mut total = 0u64;
    for case in args.cases(100) {
        out::case(case, jobj! {"op" => "batch", "calls" => per_batch});
        let seed = args.seed();
        match fork::run(cpu, || run_batch(&env, seed, case, per_batch, args.only_case().and(args.kv.get("call").and_then(|v| v.parse().ok())), profile)) {
            Exit::Ok(payload) => {
                for k in String::from_utf8_lossy(&payload).lines() {
                    out::key(k, true);
                }
                total += per_batch as u64;
            }
            Exit::Panic(p) => out::viol(&format!("C07/panic-outside-guard/{}", panic_sig(&p)), jobj! {"panic" => p}),
            other => {
                // locate the offending call by re-running the batch one call per child
                let mut found = false;
                for i in 0..per_batch {
                    let ex = fork::run(cpu, || run_batch(&env, seed, case, per_batch, Some(i), profile));
                    let what = match &ex {
                        Exit::Signal(s) => Some(format!("crash/{}", fork::signal_name(*s))),
                        Exit::CpuLimit => Some("nontermination".to_string()),
                        _ => None,
                    };
                    if let Some(w) = what {
                        // regenerate the arguments for the report
                        let mut r = Rng::new(seed, "c07", case);
                        let mut desc = J::Null;
                        let mut name = String::new();
                        for j in 0..=i {
                            let e = r.usize_below(N_ENTRIES);
                            let pick = r.usize_below(64);
                            let x = gen_args(&mut r, &env, pick);
                            if j == i {
                                name = ENTRY_NAMES.with(|n| n.borrow().get(&e).cloned()).unwrap_or_else(|| format!("entry#{}", e));
                                desc = jobj! {"entry" => e, "a" => x.a, "b" => x.b, "c" => x.c, "g" => x.g, "g2" => x.g2, "env_pick" => pick, "index_in_batch" => i, "profile" => profile};
                            }
                        }
                        out::viol(&format!("C07/{}/{}", w, name), desc);
                        found = true;
                        break;
                    }
                }
                if !found {
                    out::note("C07/batch-failure-not-reproduced", jobj! {"exit" => J::dbg(&other), "case" => case});
                    out::count("inconclusive_batches", 1);
                }
            }
        }
    }
    out::eval(total);
    out::count("calls", total as i128);
    out::sample(jobj! {"entry" => "GuestMemoryMmap::check_range", "args" => "g from region edges +-2 / 0 / 2^32 / 2^63 / 2^64-16.. ; len from {0..9, len+-9, 2^31, 2^32, isize::MAX+-1, 2^63, usize::MAX-9.., pointer-overflowing}", "layouts" => "single | zero+below-top | one-byte-regions | adjacent+hole | mock-zero+top | mock-last-byte | mock-one-byte+top"});
    out::sample(jobj! {"entry" => "AtomicBitmap::slice_at.mark_dirty", "bitmaps" => "(byte_size,page) in {(0,1),(1,1),(100,7),(4096,4096),(10000,1),(300,5000),(64*4096+1,4096)}"});
}
