//! C04 — every accessor of a volatile container moves exactly the bytes it names.
//! Oracle: Vec<u8> model of one container + frame (whole container, canaries / guard pages /
//! mapping slack) compared after every operation; cross-route re-reads.

use crate::common::arena::{Arena, Place};
use crate::common::gen::{edge_usize, is_overflow_class};
use crate::common::out::{self, J};
use crate::common::prng::Rng;
use crate::common::{guarded, panic_sig, Args};
use std::mem::{align_of, size_of};
use std::sync::atomic::Ordering;
use vm_memory::volatile_memory::Error as VErr;
use vm_memory::{
    AtomicAccess, Be16, Be32, Be64, ByteValued, Bytes, Le16, Le32, Le64, MmapRegion, VolatileMemory,
    VolatileSlice,
};

/// 8-byte aligned local buffer with a chosen misalignment.
pub struct ABuf {
    store: Vec<u64>,
    off: usize,
    len: usize,
}
impl ABuf {
    pub fn new(len: usize, mis: usize, fill: impl Fn(usize) -> u8) -> ABuf {
        let mis = mis % 8;
        let mut b = ABuf { store: vec![0u64; (len + mis).div_ceil(8) + 1], off: mis, len };
        for (i, x) in b.as_mut().iter_mut().enumerate() {
            *x = fill(i);
        }
        b
    }
    pub fn as_ref(&self) -> &[u8] {
        // SAFETY: inside the u64 store.
        unsafe { std::slice::from_raw_parts((self.store.as_ptr() as *const u8).add(self.off), self.len) }
    }
    pub fn as_mut(&mut self) -> &mut [u8] {
        // SAFETY: inside the u64 store.
        unsafe { std::slice::from_raw_parts_mut((self.store.as_mut_ptr() as *mut u8).add(self.off), self.len) }
    }
}

pub fn t_from_bytes<T: ByteValued>(b: &[u8]) -> T {
    let mut t = T::zeroed();
    t.as_mut_slice().copy_from_slice(b);
    t
}

pub enum Cont {
    Arena(Arena),
    Mmap(MmapRegion<()>, usize),
}

const SLACK: u8 = 0xC7;

fn new_mmap(size: usize) -> MmapRegion<()> {
    #[cfg(not(feature = "xen"))]
    {
        MmapRegion::<()>::new(size).expect("mmap")
    }
    #[cfg(feature = "xen")]
    {
        MmapRegion::<()>::from_range(vm_memory::MmapRange::new_unix(size, None, vm_memory::GuestAddress(0))).expect("mmap")
    }
}

impl Cont {
    pub fn arena(len: usize, place: Place) -> Cont {
        Cont::Arena(Arena::new(len, place))
    }
    pub fn mmap(len: usize) -> Cont {
        let r = new_mmap(len);
        let slack = if cfg!(miri) { 0 } else { len.div_ceil(4096) * 4096 - len };
        for i in 0..slack {
            // SAFETY: slack bytes belong to the last kernel page of the mapping.
            unsafe { r.as_ptr().add(len + i).write_volatile(SLACK) };
        }
        Cont::Mmap(r, slack)
    }
    pub fn ptr(&self) -> *mut u8 {
        match self {
            Cont::Arena(a) => a.ptr,
            Cont::Mmap(r, _) => r.as_ptr(),
        }
    }
    pub fn len(&self) -> usize {
        match self {
            Cont::Arena(a) => a.len,
            Cont::Mmap(r, _) => r.size(),
        }
    }
    pub fn kind(&self) -> &'static str {
        match self {
            Cont::Arena(a) => match a.place {
                Place::L => "arena-L",
                Place::R => "arena-R",
                Place::C(_) => "arena-C",
            },
            Cont::Mmap(..) => "mmap",
        }
    }
    pub fn slice(&self) -> VolatileSlice<'_, ()> {
        match self {
            // SAFETY: the arena buffer is valid for len bytes while self lives.
            Cont::Arena(a) => unsafe { VolatileSlice::new(a.ptr, a.len) },
            Cont::Mmap(r, _) => r.as_volatile_slice(),
        }
    }
    pub fn read_all(&self) -> Vec<u8> {
        let p = self.ptr();
        (0..self.len()).map(|i| unsafe { p.add(i).read_volatile() }).collect()
    }
    pub fn fill(&self, data: &[u8]) {
        let p = self.ptr();
        for (i, b) in data.iter().enumerate() {
            unsafe { p.add(i).write_volatile(*b) };
        }
    }
    /// offset (relative to the container start) of the first frame byte that changed
    pub fn frame_broken(&self) -> Option<isize> {
        match self {
            Cont::Arena(a) => a.check_canaries(),
            Cont::Mmap(r, slack) => {
                for i in 0..*slack {
                    if unsafe { r.as_ptr().add(r.size() + i).read_volatile() } != SLACK {
                        return Some((r.size() + i) as isize);
                    }
                }
                None
            }
        }
    }
    pub fn repair_frame(&self) {
        match self {
            Cont::Arena(a) => a.repaint(),
            Cont::Mmap(r, slack) => {
                for i in 0..*slack {
                    unsafe { r.as_ptr().add(r.size() + i).write_volatile(SLACK) };
                }
            }
        }
    }
}

fn v(sig: &str, d: J) {
    out::viol(&format!("C04/{}", sig), d);
}

fn off_class(off: usize, n: usize, size: usize) -> &'static str {
    let end = off as u128 + n as u128;
    if off > size {
        "beyond"
    } else if off == size {
        "at-end"
    } else if end == size as u128 {
        "touch-end"
    } else if end > size as u128 {
        "cross-end"
    } else if off == 0 {
        "at-0"
    } else {
        "inside"
    }
}
fn len_class(n: usize) -> &'static str {
    match n {
        0 => "0",
        1 => "1",
        2..=7 => "2-7",
        8 => "8",
        9..=16 => "9-16",
        _ => ">16",
    }
}

fn errname(e: &VErr) -> &'static str {
    match e {
        VErr::OutOfBounds { .. } => "OutOfBounds",
        VErr::Overflow { .. } => "Overflow",
        VErr::TooBig { .. } => "TooBig",
        VErr::Misaligned { .. } => "Misaligned",
        VErr::IOError(_) => "IOError",
        VErr::PartialBuffer { .. } => "PartialBuffer",
    }
}

pub struct Ctx<'a> {
    pub cont: &'a Cont,
    pub model: Vec<u8>,
    pub trace: Vec<String>,
    pub bad: bool,
}

impl Ctx<'_> {
    fn fail(&mut self, sig: &str, d: J) {
        self.bad = true;
        v(sig, jobj! {"container" => self.cont.kind(), "size" => self.cont.len(), "base_mod16" => (self.cont.ptr() as usize) % 16, "detail" => d, "recent_ops" => self.trace.iter().rev().take(4).cloned().collect::<Vec<String>>()});
    }
    /// whole container + frame vs model
    fn frame(&mut self, op: &str) {
        let real = self.cont.read_all();
        if real != self.model {
            let at = real.iter().zip(self.model.iter()).position(|(a, b)| a != b);
            let d = jobj! {"op" => op, "first_diff_at" => J::dbg(&at), "real" => J::dbg(&at.map(|i| real[i])), "model" => J::dbg(&at.map(|i| self.model[i]))};
            self.fail(&format!("{}/bytes-differ-from-model", op), d);
            self.cont.fill(&self.model.clone());
        }
        if let Some(at) = self.cont.frame_broken() {
            self.fail(&format!("{}/wrote-outside-container", op), jobj! {"op" => op, "offset_rel_container" => at as i64});
            self.cont.repair_frame();
        }
    }
}

fn expected_n(size: usize, off: usize, len: usize) -> Option<usize> {
    if off >= size {
        None
    } else {
        Some(len.min(size - off))
    }
}

// ---------------------------------------------------------------------------------------------
// operations; each applies itself to the real container (through `s`, a slice covering
// model[base..base+s.len()]) and to the model, and judges the result.

fn op_write(c: &mut Ctx, s: &VolatileSlice<()>, base: usize, off: usize, buf: &[u8], slice_form: bool) {
    let size = s.len();
    let name = if slice_form { "write_slice" } else { "write" };
    let exp = expected_n(size, off, buf.len());
    let outcome;
    if slice_form {
        let r = s.write_slice(buf, off);
        match (&r, buf.len(), exp) {
            (Ok(()), 0, _) => outcome = "ok-empty",
            (Ok(()), l, Some(n)) if n == l => {
                c.model[base + off..base + off + n].copy_from_slice(buf);
                outcome = "ok";
            }
            (Err(VErr::PartialBuffer { expected, completed }), l, Some(n)) if n < l && *expected == l && *completed == n => {
                c.model[base + off..base + off + n].copy_from_slice(&buf[..n]);
                outcome = "partial";
            }
            (Err(e), l, None) if l > 0 && !matches!(e, VErr::PartialBuffer { .. }) => outcome = "oob",
            _ => {
                c.fail("write_slice/result", jobj! {"off" => off, "len" => buf.len(), "size" => size, "got" => J::dbg(&r), "model_n" => J::dbg(&exp)});
                outcome = "bad";
            }
        }
    } else {
        let r = s.write(buf, off);
        match (&r, buf.len(), exp) {
            (Ok(0), 0, _) => outcome = "ok-empty",
            (Ok(n), l, Some(e)) if *n == e && l > 0 => {
                c.model[base + off..base + off + e].copy_from_slice(&buf[..e]);
                outcome = if e == l { "ok" } else { "short" };
            }
            (Err(e), l, None) if l > 0 && !matches!(e, VErr::PartialBuffer { .. }) => outcome = "oob",
            _ => {
                c.fail("write/result", jobj! {"off" => off, "len" => buf.len(), "size" => size, "got" => J::dbg(&r), "model_n" => J::dbg(&exp)});
                outcome = "bad";
            }
        }
    }
    out::key(&format!("{}|u8|{}|{}|{}|a{}-{}", name, outcome, off_class(off, buf.len(), size), len_class(buf.len()), buf.as_ptr() as usize % 8, (s.ptr_guard().as_ptr() as usize).wrapping_add(off) % 8), true);
    c.frame(name);
}

fn op_read(c: &mut Ctx, s: &VolatileSlice<()>, base: usize, off: usize, buf: &mut [u8], slice_form: bool) {
    let size = s.len();
    let name = if slice_form { "read_slice" } else { "read" };
    let exp = expected_n(size, off, buf.len());
    let sentinel: Vec<u8> = buf.to_vec();
    let l = buf.len();
    let outcome;
    let moved: usize;
    if slice_form {
        let r = s.read_slice(buf, off);
        match (&r, l, exp) {
            (Ok(()), 0, _) => {
                outcome = "ok-empty";
                moved = 0;
            }
            (Ok(()), l, Some(n)) if n == l => {
                outcome = "ok";
                moved = n;
            }
            (Err(VErr::PartialBuffer { expected, completed }), l, Some(n)) if n < l && *expected == l && *completed == n => {
                outcome = "partial";
                moved = n;
            }
            (Err(e), l, None) if l > 0 && !matches!(e, VErr::PartialBuffer { .. }) => {
                outcome = "oob";
                moved = 0;
            }
            _ => {
                c.fail("read_slice/result", jobj! {"off" => off, "len" => l, "size" => size, "got" => J::dbg(&r), "model_n" => J::dbg(&exp)});
                return;
            }
        }
    } else {
        let r = s.read(buf, off);
        match (&r, l, exp) {
            (Ok(0), 0, _) => {
                outcome = "ok-empty";
                moved = 0;
            }
            (Ok(n), l, Some(e)) if *n == e && l > 0 => {
                outcome = if e == l { "ok" } else { "short" };
                moved = e;
            }
            (Err(e), l, None) if l > 0 && !matches!(e, VErr::PartialBuffer { .. }) => {
                outcome = "oob";
                moved = 0;
            }
            _ => {
                c.fail("read/result", jobj! {"off" => off, "len" => l, "size" => size, "got" => J::dbg(&r), "model_n" => J::dbg(&exp)});
                return;
            }
        }
    }
    if moved > 0 && buf[..moved] != c.model[base + off..base + off + moved] {
        c.fail(&format!("{}/data", name), jobj! {"off" => off, "len" => l, "moved" => moved});
    }
    if buf[moved..] != sentinel[moved..] {
        c.fail(&format!("{}/buffer-tail-modified", name), jobj! {"off" => off, "len" => l, "moved" => moved});
    }
    out::key(&format!("{}|u8|{}|{}|{}|a{}-{}", name, outcome, off_class(off, l, size), len_class(l), buf.as_ptr() as usize % 8, (s.ptr_guard().as_ptr() as usize).wrapping_add(off) % 8), true);
    c.frame(name);
}

fn op_obj<T: ByteValued + PartialEq + std::fmt::Debug>(c: &mut Ctx, s: &VolatileSlice<()>, base: usize, off: usize, bytes: &[u8], write: bool, tname: &str) {
    let size = s.len();
    let n = size_of::<T>();
    let exp = expected_n(size, off, n);
    if write {
        let val: T = t_from_bytes(&bytes[..n]);
        let r = s.write_obj(val, off);
        let outcome = match (&r, exp) {
            (Ok(()), _) if n == 0 => "ok-zst",
            (Ok(()), Some(e)) if e == n => {
                c.model[base + off..base + off + n].copy_from_slice(&bytes[..n]);
                "ok"
            }
            (Err(VErr::PartialBuffer { expected, completed }), Some(e)) if e < n && *expected == n && *completed == e => {
                c.model[base + off..base + off + e].copy_from_slice(&bytes[..e]);
                "partial"
            }
            (Err(e), None) if n > 0 && !matches!(e, VErr::PartialBuffer { .. }) => "oob",
            _ => {
                c.fail("write_obj/result", jobj! {"type" => tname, "off" => off, "size" => size, "got" => J::dbg(&r)});
                "bad"
            }
        };
        out::key(&format!("write_obj|{}|{}|{}|a{}", tname, outcome, off_class(off, n, size), (s.ptr_guard().as_ptr() as usize).wrapping_add(off) % 8), true);
        c.frame("write_obj");
    } else {
        let r = s.read_obj::<T>(off);
        let outcome = match (&r, exp) {
            (Ok(val), Some(e)) if e == n => {
                if val.as_slice() != &c.model[base + off..base + off + n] {
                    c.fail("read_obj/data", jobj! {"type" => tname, "off" => off, "got" => J::dbg(val)});
                }
                "ok"
            }
            (Ok(_), _) if n == 0 => "ok-zst",
            (Err(VErr::PartialBuffer { expected, completed }), Some(e)) if e < n && *expected == n && *completed == e => "partial",
            (Err(e), None) if n > 0 && !matches!(e, VErr::PartialBuffer { .. }) => "oob",
            _ => {
                c.fail("read_obj/result", jobj! {"type" => tname, "off" => off, "size" => size, "got" => J::dbg(&r)});
                "bad"
            }
        };
        out::key(&format!("read_obj|{}|{}|{}|a{}", tname, outcome, off_class(off, n, size), (s.ptr_guard().as_ptr() as usize).wrapping_add(off) % 8), true);
        c.frame("read_obj");
    }
}

fn op_atomic<T: AtomicAccess + PartialEq + std::fmt::Debug>(c: &mut Ctx, s: &VolatileSlice<()>, base: usize, off: usize, bytes: &[u8], store: bool, tname: &str, ord: Ordering) {
    let size = s.len();
    let n = size_of::<T>();
    let fits = (off as u128 + n as u128) <= size as u128;
    let addr = (s.ptr_guard().as_ptr() as usize).wrapping_add(off);
    let aligned = addr % align_of::<T::A>() == 0;
    let name = if store { "store" } else { "load" };
    let outcome;
    if store {
        let val: T = t_from_bytes(&bytes[..n]);
        let r = s.store(val, off, ord);
        outcome = match (&r, fits, aligned) {
            (Ok(()), true, true) => {
                c.model[base + off..base + off + n].copy_from_slice(&bytes[..n]);
                "ok"
            }
            (Err(_), true, false) => "misaligned",
            (Err(_), false, _) => "oob",
            _ => {
                c.fail("store/result", jobj! {"type" => tname, "off" => off, "size" => size, "fits" => fits, "aligned" => aligned, "got" => J::dbg(&r)});
                "bad"
            }
        };
    } else {
        let r = s.load::<T>(off, ord);
        outcome = match (&r, fits, aligned) {
            (Ok(val), true, true) => {
                if val.as_slice() != &c.model[base + off..base + off + n] {
                    c.fail("load/data", jobj! {"type" => tname, "off" => off, "got" => J::dbg(val)});
                }
                "ok"
            }
            (Err(_), true, false) => "misaligned",
            (Err(_), false, _) => "oob",
            _ => {
                c.fail("load/result", jobj! {"type" => tname, "off" => off, "size" => size, "fits" => fits, "aligned" => aligned, "got" => J::dbg(&r.as_ref().map(|_| ()))});
                "bad"
            }
        };
    }
    out::key(&format!("{}|{}|{}|{}|a{}", name, tname, outcome, off_class(off, n, size), addr % 8), true);
    c.frame(name);
}

fn op_ref<T: ByteValued + PartialEq + std::fmt::Debug>(c: &mut Ctx, s: &VolatileSlice<()>, base: usize, off: usize, bytes: &[u8], store: bool, tname: &str) {
    let size = s.len();
    let n = size_of::<T>();
    let fits = (off as u128 + n as u128) <= size as u128;
    match (s.get_ref::<T>(off), fits) {
        (Ok(r), true) => {
            if store {
                r.store(t_from_bytes(&bytes[..n]));
                c.model[base + off..base + off + n].copy_from_slice(&bytes[..n]);
            } else {
                let val = r.load();
                if val.as_slice() != &c.model[base + off..base + off + n] {
                    c.fail("VolatileRef::load/data", jobj! {"type" => tname, "off" => off, "got" => J::dbg(&val)});
                }
            }
            out::key(&format!("ref.{}|{}|ok|{}|a{}", if store { "store" } else { "load" }, tname, off_class(off, n, size), (s.ptr_guard().as_ptr() as usize).wrapping_add(off) % 8), true);
        }
        (Err(_), false) => out::key(&format!("get_ref|{}|err|{}", tname, off_class(off, n, size)), true),
        (r, _) => c.fail("get_ref/result", jobj! {"type" => tname, "off" => off, "size" => size, "fits" => fits, "got_ok" => r.is_ok()}),
    }
    c.frame("VolatileRef");
}

/// array refs: load/store/copy_to/copy_from/copy_to_volatile_slice
fn op_array<T: ByteValued + PartialEq + std::fmt::Debug>(c: &mut Ctx, s: &VolatileSlice<()>, base: usize, off: usize, count: usize, r: &mut Rng, tname: &str) {
    let size = s.len();
    let es = size_of::<T>();
    let bytes = (count as u128) * es as u128;
    let fits = count <= isize::MAX as usize && bytes <= isize::MAX as u128 && off as u128 + bytes <= size as u128;
    let arr = match (s.get_array_ref::<T>(off, count), fits) {
        (Ok(a), true) => a,
        (Err(_), false) => {
            out::key(&format!("get_array_ref|{}|err|{}", tname, off_class(off, bytes.min(usize::MAX as u128) as usize, size)), true);
            return;
        }
        (r, _) => {
            c.fail("get_array_ref/result", jobj! {"type" => tname, "off" => off, "count" => count, "size" => size, "fits" => fits, "got_ok" => r.is_ok()});
            return;
        }
    };
    if arr.len() != count || arr.element_size() != es || arr.is_empty() != (count == 0) {
        c.fail("get_array_ref/len", jobj! {"type" => tname, "count" => count, "got" => arr.len()});
    }
    let nb = bytes as usize;
    let which = r.below(6);
    let opname;
    match which {
        0 if count > 0 && es > 0 => {
            opname = "array.load";
            let i = r.usize_below(count);
            let val = arr.load(i);
            if val.as_slice() != &c.model[base + off + i * es..base + off + (i + 1) * es] {
                c.fail("VolatileArrayRef::load/data", jobj! {"type" => tname, "off" => off, "index" => i});
            }
        }
        1 if count > 0 && es > 0 => {
            opname = "array.store";
            let i = r.usize_below(count);
            let b = r.bytes(es);
            arr.store(i, t_from_bytes(&b));
            c.model[base + off + i * es..base + off + (i + 1) * es].copy_from_slice(&b);
        }
        2 if es > 0 => {
            opname = "array.copy_to";
            let blen = match r.below(4) {
                0 => count,
                1 => count + 1 + r.usize_below(3),
                2 => count.saturating_sub(1),
                _ => r.usize_below(count + 2),
            };
            let sentinel = r.bytes(es);
            let mut buf: Vec<T> = (0..blen).map(|_| t_from_bytes(&sentinel)).collect();
            let got = arr.copy_to(&mut buf);
            let want = blen.min(count);
            if got != want {
                c.fail("VolatileArrayRef::copy_to/count", jobj! {"type" => tname, "buf_len" => blen, "array_len" => count, "got" => got, "want" => want});
            }
            for (i, e) in buf.iter().enumerate() {
                let wantb: &[u8] = if i < want { &c.model[base + off + i * es..base + off + (i + 1) * es] } else { &sentinel };
                if e.as_slice() != wantb {
                    c.fail("VolatileArrayRef::copy_to/data", jobj! {"type" => tname, "index" => i, "copied" => want});
                    break;
                }
            }
        }
        3 if es > 0 => {
            opname = "array.copy_from";
            let blen = match r.below(4) {
                0 => count,
                1 => count + 1 + r.usize_below(3),
                2 => count.saturating_sub(1),
                _ => r.usize_below(count + 2),
            };
            let data = r.bytes(blen * es);
            let buf: Vec<T> = (0..blen).map(|i| t_from_bytes(&data[i * es..(i + 1) * es])).collect();
            arr.copy_from(&buf);
            let want = blen.min(count);
            c.model[base + off..base + off + want * es].copy_from_slice(&data[..want * es]);
        }
        4 => {
            opname = "array.copy_to_volatile_slice";
            // destination: another part of the same container (may overlap) => memmove semantics
            let dl = r.usize_below(size + 1);
            let doff = r.usize_below(size - dl + 1);
            let dst = s.subslice(doff, dl).unwrap();
            arr.copy_to_volatile_slice(dst);
            let n = nb.min(dl);
            let tmp: Vec<u8> = c.model[base + off..base + off + n].to_vec();
            c.model[base + doff..base + doff + n].copy_from_slice(&tmp);
        }
        _ => {
            opname = "array.to_slice";
            let sl = arr.to_slice();
            if sl.len() != nb || sl.ptr_guard().as_ptr() as usize != (s.ptr_guard().as_ptr() as usize).wrapping_add(off) {
                c.fail("VolatileArrayRef::to_slice/extent", jobj! {"type" => tname, "off" => off, "count" => count, "got_len" => sl.len()});
            }
        }
    }
    out::key(&format!("{}|{}|ok|{}|{}|a{}", opname, tname, off_class(off, nb, size), len_class(count), (s.ptr_guard().as_ptr() as usize).wrapping_add(off) % 8), true);
    c.frame(opname);
}

fn op_copy_elems<T: ByteValued + PartialEq + std::fmt::Debug>(c: &mut Ctx, s: &VolatileSlice<()>, base: usize, blen: usize, to: bool, r: &mut Rng, tname: &str) {
    let size = s.len();
    let es = size_of::<T>();
    if es == 0 {
        return;
    }
    let want = blen.min(size / es);
    if to {
        let sentinel = r.bytes(es);
        let mut buf: Vec<T> = (0..blen).map(|_| t_from_bytes(&sentinel)).collect();
        let got = s.copy_to(&mut buf);
        if got != want {
            c.fail("copy_to/count", jobj! {"type" => tname, "buf_len" => blen, "size" => size, "got" => got, "want" => want});
        }
        for (i, e) in buf.iter().enumerate() {
            let wantb: &[u8] = if i < want { &c.model[base + i * es..base + (i + 1) * es] } else { &sentinel };
            if e.as_slice() != wantb {
                c.fail("copy_to/data", jobj! {"type" => tname, "index" => i, "copied" => want});
                break;
            }
        }
    } else {
        let data = r.bytes(blen * es);
        let buf: Vec<T> = (0..blen).map(|i| t_from_bytes(&data[i * es..(i + 1) * es])).collect();
        s.copy_from(&buf);
        c.model[base..base + want * es].copy_from_slice(&data[..want * es]);
    }
    let rel = if blen * es < size { "buf<cont" } else if blen * es == size { "buf=cont" } else { "buf>cont" };
    out::key(&format!("{}|{}|{}|{}|a{}", if to { "copy_to" } else { "copy_from" }, tname, rel, len_class(blen * es), s.ptr_guard().as_ptr() as usize % 8), true);
    c.frame(if to { "copy_to" } else { "copy_from" });
}

fn op_slice_to_slice(c: &mut Ctx, s: &VolatileSlice<()>, base: usize, r: &mut Rng, other: &Cont, other_model: &mut Vec<u8>) {
    let size = s.len();
    let sl = r.usize_below(size + 1);
    let so = r.usize_below(size - sl + 1);
    let src = s.subslice(so, sl).unwrap();
    if r.chance(1, 2) {
        // same container, possibly overlapping
        let dl = r.usize_below(size + 1);
        let doff = r.usize_below(size - dl + 1);
        let dst = s.subslice(doff, dl).unwrap();
        src.copy_to_volatile_slice(dst);
        let n = sl.min(dl);
        let tmp: Vec<u8> = c.model[base + so..base + so + n].to_vec();
        c.model[base + doff..base + doff + n].copy_from_slice(&tmp);
        let ov = so < doff + n && doff < so + n && n > 0;
        out::key(&format!("copy_to_volatile_slice|same|{}|{}", if ov { "overlap" } else { "disjoint" }, len_class(n)), true);
    } else {
        let os = other.slice();
        let dl = r.usize_below(os.len() + 1);
        let doff = r.usize_below(os.len() - dl + 1);
        let dst = os.subslice(doff, dl).unwrap();
        src.copy_to_volatile_slice(dst);
        let n = sl.min(dl);
        other_model[doff..doff + n].copy_from_slice(&c.model[base + so..base + so + n]);
        if other.read_all() != *other_model || other.frame_broken().is_some() {
            c.fail("copy_to_volatile_slice/other-container", jobj! {"src_off" => so, "src_len" => sl, "dst_off" => doff, "dst_len" => dl});
            other.fill(other_model);
            other.repair_frame();
        }
        out::key(&format!("copy_to_volatile_slice|other|{}|{}", if sl <= dl { "src<=dst" } else { "src>dst" }, len_class(n)), true);
    }
    c.frame("copy_to_volatile_slice");
}

/// Re-read a window through several routes.
fn cross_routes(c: &mut Ctx, s: &VolatileSlice<()>, base: usize, r: &mut Rng) {
    let size = s.len();
    if size == 0 {
        return;
    }
    let off = r.usize_below(size);
    let n = (1 + r.usize_below(16)).min(size - off);
    let want = c.model[base + off..base + off + n].to_vec();
    // route: read_slice
    let mut b = vec![0u8; n];
    if s.read_slice(&mut b, off).is_err() || b != want {
        c.fail("cross-route/read_slice", jobj! {"off" => off, "n" => n});
    }
    // route: array ref of u8 copy_to
    let mut b2 = vec![0u8; n];
    match s.get_array_ref::<u8>(off, n) {
        Ok(a) => {
            if a.copy_to(&mut b2) != n || b2 != want {
                c.fail("cross-route/array-copy_to", jobj! {"off" => off, "n" => n});
            }
        }
        Err(_) => c.fail("cross-route/get_array_ref", jobj! {"off" => off, "n" => n}),
    }
    // route: typed ref u64 / u16 if it fits
    if n >= 8 {
        match s.get_ref::<u64>(off) {
            Ok(rf) => {
                if rf.load().to_ne_bytes() != want[..8] {
                    c.fail("cross-route/ref-u64", jobj! {"off" => off});
                }
            }
            Err(_) => c.fail("cross-route/get_ref", jobj! {"off" => off}),
        }
    }
    // route: atomic load if aligned
    let addr = (s.ptr_guard().as_ptr() as usize).wrapping_add(off);
    if n >= 4 && addr % 4 == 0 {
        match s.load::<u32>(off, Ordering::SeqCst) {
            Ok(x) => {
                if x.to_ne_bytes() != want[..4] {
                    c.fail("cross-route/atomic-u32", jobj! {"off" => off});
                }
            }
            Err(e) => c.fail("cross-route/atomic-u32-err", jobj! {"off" => off, "err" => errname(&e)}),
        }
    }
    // route: sub-slice via offset + copy_to
    match s.offset(off) {
        Ok(o) => {
            let mut b3 = vec![0u8; n];
            if o.copy_to(&mut b3) != n || b3 != want {
                c.fail("cross-route/offset-copy_to", jobj! {"off" => off, "n" => n});
            }
        }
        Err(_) => c.fail("cross-route/offset", jobj! {"off" => off}),
    }
    out::key("cross-route", false);
}

macro_rules! dispatch_bv {
    ($idx:expr, $f:ident, $($a:expr),*) => {
        match $idx % 20 {
            0 => $f::<u8>($($a),*, "u8"),
            1 => $f::<u16>($($a),*, "u16"),
            2 => $f::<u32>($($a),*, "u32"),
            3 => $f::<u64>($($a),*, "u64"),
            4 => $f::<u128>($($a),*, "u128"),
            5 => $f::<i8>($($a),*, "i8"),
            6 => $f::<i16>($($a),*, "i16"),
            7 => $f::<i32>($($a),*, "i32"),
            8 => $f::<i64>($($a),*, "i64"),
            9 => $f::<usize>($($a),*, "usize"),
            10 => $f::<[u8; 3]>($($a),*, "[u8;3]"),
            11 => $f::<[u16; 5]>($($a),*, "[u16;5]"),
            12 => $f::<Le16>($($a),*, "Le16"),
            13 => $f::<Le32>($($a),*, "Le32"),
            14 => $f::<Le64>($($a),*, "Le64"),
            15 => $f::<Be16>($($a),*, "Be16"),
            16 => $f::<Be32>($($a),*, "Be32"),
            17 => $f::<Be64>($($a),*, "Be64"),
            18 => $f::<[u8; 7]>($($a),*, "[u8;7]"),
            _ => $f::<i128>($($a),*, "i128"),
        }
    };
}
macro_rules! dispatch_at {
    ($idx:expr, $f:ident, $($a:expr),*) => {
        match $idx % 10 {
            0 => $f::<u8>($($a),*, "u8", Ordering::SeqCst),
            1 => $f::<u16>($($a),*, "u16", Ordering::Relaxed),
            2 => $f::<u32>($($a),*, "u32", Ordering::SeqCst),
            3 => $f::<u64>($($a),*, "u64", Ordering::SeqCst),
            4 => $f::<i8>($($a),*, "i8", Ordering::Relaxed),
            5 => $f::<i16>($($a),*, "i16", Ordering::SeqCst),
            6 => $f::<i32>($($a),*, "i32", Ordering::Relaxed),
            7 => $f::<i64>($($a),*, "i64", Ordering::SeqCst),
            8 => $f::<usize>($($a),*, "usize", Ordering::SeqCst),
            _ => $f::<isize>($($a),*, "isize", Ordering::Relaxed),
        }
    };
}

fn pick_off(r: &mut Rng, size: usize, base_ptr: usize) -> usize {
    let (o, cls) = edge_usize(r, size, base_ptr);
    if is_overflow_class(cls) && r.chance(3, 4) {
        // keep most offsets near the container so that the interesting (data moving) cases dominate
        return r.usize_below(size + 3);
    }
    o
}

fn history(case: u64, args: &Args) {
    let mut r = Rng::new(args.seed(), "c04", case);
    let size = match r.below(10) {
        0 => 0,
        1 => r.usize_below(9),
        2 if !cfg!(miri) => 4096,
        3 if !cfg!(miri) => 4090 + r.usize_below(12),
        _ => r.usize_below(if cfg!(miri) { 70 } else { 301 }),
    };
    let cont = match r.below(8) {
        0 | 1 => Cont::arena(size, Place::L),
        2 | 3 => Cont::arena(size, Place::R),
        4 if size > 0 => Cont::mmap(size),
        _ => Cont::arena(size, Place::C(r.usize_below(16))),
    };
    let other_size = r.usize_below(64);
    let other = Cont::arena(other_size, Place::C(r.usize_below(16)));
    let mut other_model = r.bytes(other_size);
    other.fill(&other_model);
    let init = r.bytes(size);
    cont.fill(&init);
    let mut c = Ctx { cont: &cont, model: init, trace: vec![], bad: false };
    let nops = r.range(args.u64("minops", 50), args.u64("maxops", 300));
    out::case(case, jobj! {"container" => cont.kind(), "size" => size, "ops" => nops});
    let res = guarded(|| {
        let whole = cont.slice();
        for _ in 0..nops {
            // target: the whole container or a derived sub-slice
            let (s, base) = if r.chance(1, 3) && size > 0 {
                let o = r.usize_below(size + 1);
                let l = r.usize_below(size - o + 1);
                (whole.subslice(o, l).unwrap(), o)
            } else {
                (whole.offset(0).unwrap(), 0)
            };
            let ssz = s.len();
            let sp = s.ptr_guard().as_ptr() as usize;
            let kind = r.below(100);
            let desc;
            match kind {
                0..=13 => {
                    let off = pick_off(&mut r, ssz, sp);
                    let l = match r.below(5) {
                        0 => 0,
                        1 => ssz.saturating_sub(off.min(ssz)) + r.usize_below(3),
                        2 => r.usize_below(25),
                        _ => r.usize_below(ssz + 10),
                    };
                    let buf = ABuf::new(l, r.usize_below(8), |i| (i as u8).wrapping_mul(7) ^ (case as u8));
                    let sf = r.chance(1, 2);
                    desc = format!("{}(len {}, off {}) on [{}+{}]", if sf { "write_slice" } else { "write" }, l, off, base, ssz);
                    c.trace.push(desc);
                    op_write(&mut c, &s, base, off, buf.as_ref(), sf);
                }
                14..=25 => {
                    let off = pick_off(&mut r, ssz, sp);
                    let l = match r.below(5) {
                        0 => 0,
                        1 => ssz.saturating_sub(off.min(ssz)) + r.usize_below(3),
                        2 => r.usize_below(25),
                        _ => r.usize_below(ssz + 10),
                    };
                    let mut buf = ABuf::new(l, r.usize_below(8), |i| 0xE0 ^ (i as u8));
                    let sf = r.chance(1, 2);
                    desc = format!("{}(len {}, off {}) on [{}+{}]", if sf { "read_slice" } else { "read" }, l, off, base, ssz);
                    c.trace.push(desc);
                    op_read(&mut c, &s, base, off, buf.as_mut(), sf);
                }
                26..=39 => {
                    let off = pick_off(&mut r, ssz, sp);
                    let bytes = r.bytes(16);
                    let w = r.chance(1, 2);
                    let t = r.below(20);
                    c.trace.push(format!("{}_obj(type#{}, off {}) on [{}+{}]", if w { "write" } else { "read" }, t, off, base, ssz));
                    dispatch_bv!(t, op_obj, &mut c, &s, base, off, &bytes, w);
                }
                40..=51 => {
                    let off = pick_off(&mut r, ssz, sp);
                    let bytes = r.bytes(16);
                    let st = r.chance(1, 2);
                    let t = r.below(10);
                    c.trace.push(format!("atomic {}(type#{}, off {}) on [{}+{}]", if st { "store" } else { "load" }, t, off, base, ssz));
                    dispatch_at!(t, op_atomic, &mut c, &s, base, off, &bytes, st);
                }
                52..=61 => {
                    let off = pick_off(&mut r, ssz, sp);
                    let bytes = r.bytes(16);
                    let st = r.chance(1, 2);
                    let t = r.below(20);
                    c.trace.push(format!("ref {}(type#{}, off {}) on [{}+{}]", if st { "store" } else { "load" }, t, off, base, ssz));
                    dispatch_bv!(t, op_ref, &mut c, &s, base, off, &bytes, st);
                }
                62..=77 => {
                    let off = pick_off(&mut r, ssz, sp);
                    let t = r.below(20);
                    let count = match r.below(6) {
                        0 => edge_usize(&mut r, ssz, sp).0,
                        1 => 0,
                        _ => r.usize_below(ssz.saturating_sub(off.min(ssz)) / 2 + 3),
                    };
                    c.trace.push(format!("array(type#{}, off {}, count {}) on [{}+{}]", t, off, count, base, ssz));
                    dispatch_bv!(t, op_array, &mut c, &s, base, off, count, &mut r);
                }
                78..=87 => {
                    let t = r.below(20);
                    let blen = match r.below(4) {
                        0 => 0,
                        1 => r.usize_below(25),
                        _ => r.usize_below(ssz + 5),
                    };
                    let to = r.chance(1, 2);
                    c.trace.push(format!("{}(type#{}, buf {} elems) on [{}+{}]", if to { "copy_to" } else { "copy_from" }, t, blen, base, ssz));
                    dispatch_bv!(t, op_copy_elems, &mut c, &s, base, blen, to, &mut r);
                }
                88..=94 => {
                    c.trace.push(format!("copy_to_volatile_slice on [{}+{}]", base, ssz));
                    op_slice_to_slice(&mut c, &s, base, &mut r, &other, &mut other_model);
                }
                _ => {
                    cross_routes(&mut c, &s, base, &mut r);
                }
            }
            out::eval(1);
            if c.bad {
                break;
            }
        }
    });
    if let Err(p) = res {
        v(&format!("panic/{}", panic_sig(&p)), jobj! {"panic" => p, "recent_ops" => c.trace.iter().rev().take(4).cloned().collect::<Vec<String>>()});
    }
    if out::want_sample() {
        out::sample(jobj! {"container" => cont.kind(), "size" => size, "first_ops" => c.trace.iter().take(8).cloned().collect::<Vec<String>>()});
    }
}

/// Complete grid: lengths 0..=24 x (src mod 8) x (dst mod 8) for the four byte-copy entry points.
fn grid() {
    let cont = Cont::arena(64, Place::C(0));
    let mut n = 0u64;
    for len in 0..=24usize {
        for sm in 0..8usize {
            for dm in 0..8usize {
                for which in 0..4 {
                    let init: Vec<u8> = (0..64).map(|i| 0x30 ^ (i as u8) ^ (len as u8)).collect();
                    cont.fill(&init);
                    let mut c = Ctx { cont: &cont, model: init, trace: vec![format!("grid len {} src%8 {} dst%8 {} which {}", len, sm, dm, which)], bad: false };
                    let s = cont.slice();
                    let goff = 8 + dm; // container base is 16-aligned => guest side address mod 8 == dm
                    match which {
                        0 => {
                            let buf = ABuf::new(len, sm, |i| 0x80 | (i as u8));
                            op_write(&mut c, &s, 0, goff, buf.as_ref(), false);
                        }
                        1 => {
                            let mut buf = ABuf::new(len, sm, |i| 0x40 | (i as u8));
                            op_read(&mut c, &s, 0, goff, buf.as_mut(), false);
                        }
                        2 => {
                            // copy_from::<u8> on a sub-slice
                            let sub = s.subslice(goff, len).unwrap();
                            let buf = ABuf::new(len, sm, |i| 0x11u8.wrapping_add(i as u8));
                            sub.copy_from(buf.as_ref());
                            c.model[goff..goff + len].copy_from_slice(buf.as_ref());
                            c.frame("grid/copy_from-u8");
                        }
                        _ => {
                            let sub = s.subslice(goff, len).unwrap();
                            let mut buf = ABuf::new(len + 2, sm, |_| 0xEE);
                            let got = sub.copy_to(&mut buf.as_mut()[..len]);
                            if got != len || buf.as_ref()[..len] != c.model[goff..goff + len] || buf.as_ref()[len..] != [0xEE, 0xEE] {
                                c.fail("grid/copy_to-u8", jobj! {"len" => len, "src_mod8" => dm, "dst_mod8" => sm, "got" => got});
                            }
                            c.frame("grid/copy_to-u8");
                        }
                    }
                    n += 1;
                }
            }
        }
    }
    out::eval(n);
    out::count("grid_cells", n as i128);
}

/// Accessors made by the public unsafe constructors (no parent container), trivial queries, and
/// the AtomicInteger constructor: the bytes they name are exactly those at the given pointer.
fn direct_constructors() {
    use vm_memory::{AtomicInteger, VolatileArrayRef, VolatileMemory, VolatileRef};
    let a = Cont::arena(64, Place::C(0));
    let init: Vec<u8> = (0..64u8).map(|i| i.wrapping_mul(7) | 1).collect();
    a.fill(&init);
    let mut model = init.clone();
    // SAFETY: inside the live arena.
    let r = unsafe { VolatileRef::<u32>::new(a.ptr().add(4)) };
    r.store(0xa1b2c3d4);
    model[4..8].copy_from_slice(&0xa1b2c3d4u32.to_ne_bytes());
    let _: &() = r.bitmap();
    if r.load() != 0xa1b2c3d4 || r.len() != 4 || a.read_all() != model {
        v("VolatileRef::new/bytes-differ-from-model", J::Null);
    }
    // SAFETY: inside the live arena.
    let arr = unsafe { VolatileArrayRef::<u16>::new(a.ptr().add(9), 5) };
    arr.store(2, 0x1122);
    model[13..15].copy_from_slice(&0x1122u16.to_ne_bytes());
    let n = arr.copy_from(&[1u16, 2]);
    let _ = n;
    model[9..11].copy_from_slice(&1u16.to_ne_bytes());
    model[11..13].copy_from_slice(&2u16.to_ne_bytes());
    let mut back = [0u16; 7];
    let got = arr.copy_to(&mut back);
    let _: &() = arr.bitmap();
    if got != 5 || back[..3] != [1, 2, 0x1122] || arr.len() != 5 || arr.is_empty() || arr.element_size() != 2 || arr.load(2) != 0x1122 || a.read_all() != model {
        v("VolatileArrayRef::new/bytes-differ-from-model", jobj! {"copied" => got});
    }
    // SAFETY: empty array at a valid address.
    let empty = unsafe { VolatileArrayRef::<u64>::new(a.ptr().add(16), 0) };
    if !empty.is_empty() || empty.len() != 0 || empty.copy_to(&mut [0u64; 2]) != 0 {
        v("VolatileArrayRef::new/empty", J::Null);
    }
    let s = a.slice();
    if VolatileMemory::is_empty(&s) || VolatileMemory::len(&s) != 64 || !VolatileMemory::is_empty(&s.subslice(64, 0).unwrap()) {
        v("VolatileMemory::is_empty", J::Null);
    }
    let ai = <std::sync::atomic::AtomicU32 as AtomicInteger>::new(7);
    ai.store(9, std::sync::atomic::Ordering::SeqCst);
    if AtomicInteger::load(&ai, std::sync::atomic::Ordering::SeqCst) != 9 {
        v("AtomicInteger::new", J::Null);
    }
    if a.frame_broken().is_some() {
        v("direct-constructors/wrote-outside-the-container", J::Null);
    }
    out::key("direct-constructors", true);
    out::eval(8);
}

/// Data x alignment x history: almost-zero buffers (a single non-zero byte near either end) written
/// into zeroed memory, and zero buffers written over memory that is zero except near the ends, for
/// every misalignment of both sides and lengths on both sides of 4096 (zero-detection shortcuts
/// inspect the bytes in words: the unaligned head and tail are where they go wrong).
/// HOST-address bits above 31: the container straddles an address whose low 32 bits are zero, and
/// the local buffer is an ordinary one or lies exactly 4 GiB (+-8) above the bytes it is exchanged
/// with. Every small length, every route; the bytes are compared with the model through raw reads.
#[cfg(not(miri))]
fn high_address_bits() {
    use crate::common::bigspace::TwoWindows;
    let Some(w) = TwoWindows::new() else {
        out::note("C04/high-address-bits-skipped", J::s("could not reserve 8 GiB of address space".to_string()));
        return;
    };
    w.fill(0);
    let cbase = w.a - 64;
    // SAFETY: 128 bytes inside the first read-write window.
    let s = unsafe { VolatileSlice::new(cbase as *mut u8, 128) };
    let mut model = vec![0u8; 128];
    let mut n_ops = 0u64;
    let mut tick = 0u8;
    let mut check = |what: &str, goff: usize, n: usize, lsel: &str, model: &Vec<u8>| -> bool {
        let mem = w.read(cbase, 128);
        let margins_ok = w.read(cbase - 64, 64).iter().chain(w.read(cbase + 128, 64).iter()).all(|b| *b == 0);
        if mem != *model || !margins_ok {
            let at = mem.iter().zip(model.iter()).position(|(a, b)| a != b);
            v(&format!("high-address-bits/{}/bytes-differ-from-model", what), jobj! {"host_address_low32_of_first_byte" => J::S(format!("{:#x}", (cbase + goff) as u32)), "len" => n, "local_buffer" => lsel, "first_difference_at_container_offset" => J::dbg(&at), "margins_ok" => margins_ok});
            return false;
        }
        true
    };
    for goff in 40..=88usize {
        for n in (1..=17usize).chain([24, 33]) {
            if goff + n > 128 {
                continue;
            }
            for lsel in ["ordinary", "4GiB-above", "4GiB+8-above", "4GiB-8-above"] {
                // local buffer address
                let mut heap = vec![0u8; 64];
                let laddr = match lsel {
                    "ordinary" => heap.as_mut_ptr() as usize + (goff % 8),
                    "4GiB-above" => w.b - 64 + goff,
                    "4GiB+8-above" => w.b - 64 + goff + 8,
                    _ => w.b - 64 + goff - 8,
                };
                // SAFETY: `n` bytes inside the heap block / the second read-write window; no other
                // reference to them exists while `lbuf` lives.
                let lbuf: &mut [u8] = unsafe { std::slice::from_raw_parts_mut(laddr as *mut u8, n) };
                // write: payload differs from the current contents in every byte
                tick = tick.wrapping_add(1);
                for (i, b) in lbuf.iter_mut().enumerate() {
                    *b = !model[goff + i] ^ (tick & 0x7e);
                }
                let r = s.write(lbuf, goff);
                model[goff..goff + n].copy_from_slice(lbuf);
                if r.as_ref().ok() != Some(&n) || !check("write", goff, n, lsel, &model) {
                    return;
                }
                // read back through read / read_slice
                lbuf.iter_mut().for_each(|b| *b = 0);
                let r = s.read(lbuf, goff);
                if r.as_ref().ok() != Some(&n) || lbuf[..] != model[goff..goff + n] {
                    v("high-address-bits/read/bytes-differ-from-model", jobj! {"host_address_low32_of_first_byte" => J::S(format!("{:#x}", (cbase + goff) as u32)), "len" => n, "local_buffer" => lsel});
                    return;
                }
                // write_slice + objects of the matching width
                for (i, b) in lbuf.iter_mut().enumerate() {
                    *b = model[goff + i].wrapping_add(0x31);
                }
                let r = s.write_slice(lbuf, goff);
                model[goff..goff + n].copy_from_slice(lbuf);
                if r.is_err() || !check("write_slice", goff, n, lsel, &model) {
                    return;
                }
                macro_rules! obj {
                    ($T:ty) => {
                        if n == size_of::<$T>() {
                            let val = <$T>::from_ne_bytes(std::array::from_fn(|i| !model[goff + i]));
                            let r = s.write_obj::<$T>(val, goff);
                            model[goff..goff + n].copy_from_slice(&val.to_ne_bytes());
                            if r.is_err() || !check(concat!("write_obj<", stringify!($T), ">"), goff, n, lsel, &model) {
                                return;
                            }
                            if s.read_obj::<$T>(goff).ok() != Some(val) {
                                v(concat!("high-address-bits/read_obj<", stringify!($T), ">/value-differs"), jobj! {"host_address_low32_of_first_byte" => J::S(format!("{:#x}", (cbase + goff) as u32))});
                                return;
                            }
                            // other routes see the same bytes
                            if (cbase + goff) % n == 0 {
                                if s.load::<$T>(goff, Ordering::SeqCst).ok() != Some(val) || s.get_ref::<$T>(goff).map(|r| r.load()).ok() != Some(val) {
                                    v(concat!("high-address-bits/load<", stringify!($T), ">/routes-disagree"), jobj! {"host_address_low32_of_first_byte" => J::S(format!("{:#x}", (cbase + goff) as u32))});
                                    return;
                                }
                            }
                        }
                    };
                }
                obj!(u8);
                obj!(u16);
                obj!(u32);
                obj!(u64);

                n_ops += 4;
                out::key(&format!("high-address-bits|n{}|{}|first-byte-{}", n.min(17), lsel, if goff < 64 && goff + n > 64 { "straddles-2^32" } else if goff == 64 { "at-2^32" } else if goff < 64 { "below" } else { "above" }), true);
            }
        }
    }
    out::count("high_address_bits_transfers", n_ops as i128);
    out::eval(n_ops);
}

/// Zero-sized element types with element COUNTS up to usize::MAX (only slices of zero-sized
/// elements can be that long): "the requested amount cut off at the end of the container" never
/// cuts them off at slice level; an explicit array of n elements cuts at n. Runs in a forked child
/// with a CPU limit (an implementation that walks the buffer would not finish).
#[cfg(not(miri))]
fn zero_sized_element_counts() {
    use crate::common::fork::{self, Exit};
    let ex = fork::run(10, || {
        let a = Cont::arena(64, Place::C(3));
        let s = a.slice();
        let mut report = String::new();
        let big = [0usize, 1, 5, (isize::MAX as usize) - 1, isize::MAX as usize, (isize::MAX as usize) + 1, usize::MAX - 1, usize::MAX];
        macro_rules! zst {
            ($T:ty, $tn:expr) => {
                for &n in &big {
                    let mut buf: Vec<$T> = vec![<$T>::default(); n];
                    for (sn, sub) in [("whole", s.subslice(0, 64).unwrap()), ("empty", s.subslice(7, 0).unwrap()), ("one-byte", s.subslice(63, 1).unwrap())] {
                        let got = sub.copy_to(&mut buf[..]);
                        if got != n {
                            report.push_str(&format!("slice({}).copy_to::<{}> of {} elements reported {}; ", sn, $tn, n, got));
                        }
                        sub.copy_from(&buf[..]);
                    }
                    for &cnt in &[0usize, 3, 70] {
                        if let Ok(arr) = s.get_array_ref::<$T>(5, cnt) {
                            let got = arr.copy_to(&mut buf[..]);
                            if got != n.min(cnt) {
                                report.push_str(&format!("array[{}].copy_to::<{}> of {} elements reported {}; ", cnt, $tn, n, got));
                            }
                            arr.copy_from(&buf[..]);
                        }
                    }
                }
            };
        }
        zst!([u8; 0], "[u8;0]");
        zst!([u64; 0], "[u64;0]");
        zst!([u128; 0], "[u128;0]");
        if a.frame_broken().is_some() {
            report.push_str("bytes of the container or around it changed; ");
        }
        report.into_bytes()
    });
    match ex {
        Exit::Ok(rep) if rep.is_empty() => {
            out::key("zero-sized-elements|counts-up-to-usize-max", true);
            out::eval(3 * 8 * 6);
        }
        Exit::Ok(rep) => v("zero-sized-elements/reported-count-differs", J::s(String::from_utf8_lossy(&rep).chars().take(600).collect::<String>())),
        Exit::CpuLimit => v("zero-sized-elements/copy-does-not-finish", J::Null),
        Exit::Panic(p) => v(&format!("zero-sized-elements/panic/{}", panic_sig(&p)), J::s(p)),
        other => out::note("C04/zero-sized-child-inconclusive", J::dbg(&other)),
    }
}

fn almost_zero_transfers(shard: (u64, u64)) {
    let a = Cont::arena(3 * 4096 + 64, Place::C(0));
    let s = a.slice();
    let mut n = 0u64;
    let mut backing = vec![0u8; 3 * 4096 + 64];
    for len in [4095usize, 4096, 4097, 4100, 4103, 8192, 8199] {
        for lm in 0..8usize {
            if (lm as u64) % shard.1 != shard.0 % 8.min(shard.1) && shard.1 > 1 {
                continue;
            }
            for gmis in 0..8usize {
                let goff = 8 + gmis;
                // positions of the single non-zero byte: first 9 and last 17 bytes
                let mut pos: Vec<usize> = (0..9).collect();
                pos.extend((len - 17)..len);
                for p in pos {
                    for dir in 0..2u8 {
                        let zeros = vec![0u8; a.len()];
                        a.fill(&zeros);
                        let buf = &mut backing[lm..lm + len];
                        buf.iter_mut().for_each(|b| *b = 0);
                        let want_mem;
                        if dir == 0 {
                            // almost-zero buffer into zero memory
                            buf[p] = 0x5d;
                            want_mem = Some((goff + p, 0x5du8));
                        } else {
                            // zero buffer over memory that is zero except one byte
                            let mut one = vec![0u8; 1];
                            one[0] = 0x77;
                            let _ = s.write(&one, goff + p);
                            want_mem = None;
                        }
                        let k = s.write(buf, goff);
                        let mem = a.read_all();
                        let ok = k.as_ref().ok() == Some(&len) && mem.iter().enumerate().all(|(i, b)| match want_mem { Some((at, v)) if i == at => *b == v, _ => *b == 0 });
                        if !ok {
                            v("almost-zero/bytes-differ-from-model", jobj! {"len" => len, "local_misalignment" => lm, "guest_misalignment" => gmis % 8, "position_of_the_nonzero_byte" => p, "direction" => if dir == 0 { "nonzero byte in the buffer" } else { "nonzero byte in memory" }});
                            return;
                        }
                        n += 1;
                    }
                }
            }
        }
    }
    out::key("almost-zero|write", true);
    out::eval(n);
    out::count("almost_zero_transfers", n as i128);
}

/// Transfer magnitude: lengths at and around powers of two up to several MiB (chunked bulk
/// copies, size-threshold fast paths) on an mmap-backed container, every byte-moving route.
fn big_transfers(shard: (u64, u64)) {
    let size = 6 * 1024 * 1024 + 13;
    let a = Cont::mmap(size);
    let b = Cont::mmap(size);
    let pat = |i: usize, salt: u8| -> u8 { ((i ^ (i >> 8) ^ (i >> 16)) as u8).wrapping_mul(13).wrapping_add(salt) | 1 };
    // SAFETY: both containers are live mappings of `size` bytes owned by this function.
    let raw = |c: &Cont| -> &mut [u8] { unsafe { std::slice::from_raw_parts_mut(c.ptr(), size) } };
    let mut lens: Vec<usize> = vec![];
    for k in 16..=22usize {
        lens.extend([(1usize << k) - 1, 1 << k, (1 << k) + 1]);
    }
    lens.extend([3 << 20, (3 << 20) + 4096, 4 << 20, (4 << 20) + 1, 6 << 20, size, size + 5]);
    let sa = a.slice();
    let sb = b.slice();
    let mut n = 0u64;
    for (li, &len) in lens.iter().enumerate() {
        if (li as u64) % shard.1 != shard.0 {
            continue;
        }
        for off in [0usize, 1, 4093] {
            let fits = off + len <= size;
            let moved = len.min(size - off);
            for route in 0..7u8 {
                // fresh state: container = pattern 1, source data = pattern 2
                for (i, x) in raw(&a).iter_mut().enumerate() {
                    *x = pat(i, 1);
                }
                let data: Vec<u8> = (0..len.min(size + 8)).map(|i| pat(i, 2)).collect();
                let mut back = vec![0u8; data.len()];
                let name;
                let mut ok = true;
                let expect_written = |n: usize| -> bool {
                    let m = raw(&a);
                    m[off..off + n] == data[..n] && m[..off].iter().enumerate().all(|(i, x)| *x == pat(i, 1)) && m[off + n..].iter().enumerate().all(|(i, x)| *x == pat(off + n + i, 1))
                };
                match route {
                    0 => {
                        name = "write/read";
                        let w = sa.write(&data, off);
                        ok &= w.as_ref().ok() == Some(&moved) && expect_written(moved);
                        let rd = sa.read(&mut back, off);
                        ok &= rd.as_ref().ok() == Some(&moved) && back[..moved] == data[..moved];
                    }
                    1 => {
                        name = "write_slice/read_slice";
                        let w = sa.write_slice(&data, off);
                        ok &= w.is_ok() == fits && if fits { expect_written(len) } else { true };
                        let rd = sa.read_slice(&mut back, off);
                        ok &= rd.is_ok() == fits && (!fits || back == data);
                    }
                    2 => {
                        name = "copy_from<u8>/copy_to<u8>";
                        let sub = sa.offset(off).unwrap();
                        sub.copy_from::<u8>(&data);
                        ok &= expect_written(moved);
                        let k = sub.copy_to::<u8>(&mut back);
                        ok &= k == moved && back[..moved] == data[..moved];
                    }
                    3 => {
                        name = "copy_to_volatile_slice";
                        raw(&b).iter_mut().enumerate().for_each(|(i, x)| *x = pat(i, 3));
                        let src = sa.offset(off).unwrap();
                        let dst = sb.subslice(7, moved.min(size - 7)).unwrap();
                        src.copy_to_volatile_slice(dst);
                        let m = moved.min(size - 7);
                        let mb = raw(&b);
                        ok &= mb[7..7 + m] == raw(&a)[off..off + m] && mb[..7].iter().enumerate().all(|(i, x)| *x == pat(i, 3)) && mb[7 + m..].iter().enumerate().all(|(i, x)| *x == pat(7 + m + i, 3));
                    }
                    4 => {
                        name = "read_volatile_from(&[u8])/write_volatile_to(Vec)";
                        let mut src = &data[..];
                        let k = sa.read_volatile_from(off, &mut src, len);
                        ok &= k.as_ref().ok() == Some(&moved.min(data.len())) && expect_written(moved.min(data.len()));
                        let mut sink: Vec<u8> = vec![];
                        let k2 = sa.write_volatile_to(off, &mut sink, len);
                        ok &= k2.as_ref().ok() == Some(&moved) && sink[..] == raw(&a)[off..off + moved];
                    }
                    5 => {
                        name = "array<u8>.copy_from/copy_to";
                        let arr = sa.get_array_ref::<u8>(off, moved).unwrap();
                        arr.copy_from(&data);
                        ok &= expect_written(moved.min(data.len()));
                        let k = arr.copy_to(&mut back);
                        ok &= k == moved.min(back.len()) && back[..k] == data[..k];
                    }
                    _ => {
                        name = "copy_from<u64>/copy_to<u64>";
                        let words: Vec<u64> = data.chunks_exact(8).map(|c| u64::from_ne_bytes(c.try_into().unwrap())).collect();
                        let sub = sa.offset(off).unwrap();
                        sub.copy_from::<u64>(&words);
                        let nb = (words.len() * 8).min((size - off) / 8 * 8);
                        ok &= expect_written(nb);
                        let mut wb = vec![0u64; words.len()];
                        let k = sub.copy_to::<u64>(&mut wb);
                        ok &= k * 8 == nb && wb[..k] == words[..k];
                    }
                }
                if !ok {
                    v(&format!("big/{}/bytes-differ-from-model", name), jobj! {"len" => len, "off" => off, "container" => size});
                }
                out::key(&format!("big|{}|len2^{}{}|off{}", name, (usize::BITS - 1 - len.leading_zeros()), if len.is_power_of_two() { "" } else if (len + 1).is_power_of_two() { "-1" } else if (len - 1).is_power_of_two() { "+1" } else { "+" }, off.min(2)), true);
                out::eval(1);
                n += 1;
            }
        }
    }
    out::count("big_transfers", n as i128);
}

pub fn run(args: &Args) {
    out::set_quiet_cases(true);
    let (si, _) = args.shard();
    if !cfg!(miri) && !args.flag("nobig") {
        if let Err(p) = guarded(|| almost_zero_transfers(args.shard())) {
            v(&format!("panic/almost-zero/{}", panic_sig(&p)), J::s(p));
        }
        if let Err(p) = guarded(|| big_transfers(args.shard())) {
            v(&format!("panic/big/{}", panic_sig(&p)), J::s(p));
        }
    }
    #[cfg(not(miri))]
    if si == 2 % args.shard().1 && !args.flag("nobig") {
        if let Err(p) = guarded(zero_sized_element_counts) {
            v(&format!("panic/zero-sized/{}", panic_sig(&p)), J::s(p));
        }
    }
    #[cfg(not(miri))]
    if si == 1 % args.shard().1 && !args.flag("nobig") && std::env::var("VMV_ARENA").as_deref() != Ok("heap") {
        if let Err(p) = guarded(high_address_bits) {
            v(&format!("panic/high-address-bits/{}", panic_sig(&p)), J::s(p));
        }
    }
    if si == 0 {
        if let Err(p) = guarded(direct_constructors) {
            v(&format!("panic/direct-constructors/{}", panic_sig(&p)), J::s(p));
        }
    }
    if si == 0 && !args.flag("nogrid") {
        if let Err(p) = guarded(grid) {
            v(&format!("panic/grid/{}", panic_sig(&p)), J::s(p));
        }
    }
    for case in args.cases(5000) {
        history(case, args);
    }
}
