//! C18 — zero-length accesses are successful no-ops at every layer.
//! Oracle: result pattern + catch_unwind + byte/bitmap frame. The matrix
//! (entry point x layer x address class x container x zero-sized type) is enumerated completely.

use crate::common::arena::{Arena, Place};
use crate::common::out::{self, J};
use crate::common::prng::Rng;
use crate::common::{guarded, panic_sig, Args};
use crate::models::layout::Layout;
use crate::models::world::build_mock;
use std::io::Cursor;
use vm_memory::bitmap::{AtomicBitmap, Bitmap};
use vm_memory::{
    ByteValued, Bytes, GuestAddress, GuestMemory, GuestMemoryMmap, GuestMemoryRegion, GuestRegionMmap,
    MemoryRegionAddress, VolatileMemory, VolatileSlice,
};

type Cell = Result<(), String>;

fn okz<E: std::fmt::Debug>(r: Result<usize, E>) -> Cell {
    match r {
        Ok(0) => Ok(()),
        Ok(n) => Err(format!("Ok({})", n)),
        Err(e) => Err(format!("Err({:?})", e)),
    }
}
fn oku<E: std::fmt::Debug>(r: Result<(), E>) -> Cell {
    r.map_err(|e| format!("Err({:?})", e))
}
fn okt<T, E: std::fmt::Debug>(r: Result<T, E>) -> Cell {
    r.map(|_| ()).map_err(|e| format!("Err({:?})", e))
}

struct Frame {
    ptrs: Vec<(*mut u8, usize)>,
    snap: Vec<Vec<u8>>,
    /// memory that has no stable host address (on-demand Xen regions): read through a closure
    reader: Option<Box<dyn Fn() -> Vec<u8>>>,
    rsnap: Vec<u8>,
}
impl Frame {
    fn new(ptrs: Vec<(*mut u8, usize)>) -> Frame {
        let snap = ptrs.iter().map(|(p, l)| (0..*l).map(|i| unsafe { p.add(i).read_volatile() }).collect()).collect();
        Frame { ptrs, snap, reader: None, rsnap: vec![] }
    }
    #[allow(dead_code)]
    fn with_reader(reader: Box<dyn Fn() -> Vec<u8>>) -> Frame {
        let rsnap = reader();
        Frame { ptrs: vec![], snap: vec![], reader: Some(reader), rsnap }
    }
    fn changed(&self) -> Option<(usize, usize)> {
        if let Some(rd) = &self.reader {
            let now = rd();
            if let Some(i) = now.iter().zip(self.rsnap.iter()).position(|(a, b)| a != b) {
                return Some((0, i));
            }
        }
        for (ri, (p, l)) in self.ptrs.iter().enumerate() {
            for i in 0..*l {
                if unsafe { p.add(i).read_volatile() } != self.snap[ri][i] {
                    return Some((ri, i));
                }
            }
        }
        None
    }
}

/// Run one cell of the matrix.
/// Coverage keys name the layout tag and the exact address class; violation signatures are
/// coarser and stable: layer / entry point / {mapped|unmapped|...} [/ type].
fn coarse(key: &str) -> String {
    let mut parts: Vec<String> = vec![];
    for (i, p) in key.split('/').enumerate() {
        // second component of guest/region/mmapregion keys is the layout tag: drop it
        let first = key.split('/').next().unwrap_or("");
        if i == 1 && (first.starts_with("guest-") || first.starts_with("region-") || first == "mmapregion") {
            continue;
        }
        if i == 1 && first == "slice" {
            // container name: keep only whether it is empty / has a bitmap / is a region slice
            let c = if p.starts_with("empty") { "empty-container" } else { "container" };
            parts.push(c.to_string());
            continue;
        }
        if i == 2 && first == "slice" && (key.split('/').nth(1) == Some("region-slice") || key.split('/').nth(1) == Some("region-subslice")) {
            continue; // layout tag of region slices
        }
        let q = if p.starts_with('r') && p.len() > 2 && p.as_bytes()[1].is_ascii_digit() {
            if p.contains("(mapped)") || p.ends_with("-start") || p.ends_with("-inside") || p.ends_with("-last") { "mapped" } else { "unmapped" }
        } else if p == "addr0" || p == "u64::MAX" || p == "2^63" || p == "far-hole" {
            "extreme"
        } else {
            p
        };
        parts.push(q.to_string());
    }
    parts.join("/")
}

fn cell(sig: &str, judged: bool, frame: &Frame, dirty: &dyn Fn() -> usize, f: impl FnOnce() -> Cell) {
    out::eval(1);
    out::key(sig, true);
    let key = sig;
    let sig = &coarse(key);
    let before = dirty();
    let res = guarded(f);
    let outcome = match res {
        Ok(Ok(())) => None,
        Ok(Err(e)) => Some(format!("returned {}", e)),
        Err(p) => Some(format!("panicked: {}", p)),
    };
    if let Some(o) = outcome {
        let panicked = o.starts_with("panicked");
        if judged || panicked {
            let s = if panicked { format!("C18/{}/panic", sig) } else { format!("C18/{}", sig) };
            out::viol(&s, jobj! {"outcome" => o, "cell" => key});
        } else {
            out::note(&format!("C18/not-judged/{}", sig), jobj! {"outcome" => o});
        }
    }
    if let Some((ri, i)) = frame.changed() {
        out::viol(&format!("C18/{}/memory-changed", sig), jobj! {"region" => ri, "offset" => i, "cell" => key});
    }
    let after = dirty();
    if after > before {
        out::viol(&format!("C18/{}/marked-dirty", sig), jobj! {"dirty_pages_before" => before, "dirty_pages_after" => after, "cell" => key});
    }
}

macro_rules! zst_cells {
    ($mac:ident) => {
        $mac!([u8; 0], "[u8;0]");
        $mac!([u16; 0], "[u16;0]");
        $mac!([u64; 0], "[u64;0]");
        $mac!([u128; 0], "[u128;0]");
    };
}

/// Slice-level matrix on one container.
/// Zero-count transfers against every in-memory stream kind, including sources with nothing left
/// and sinks with no room: a transfer of zero bytes needs neither.
macro_rules! stream_kinds {
    ($t:expr, $a:expr, $judged:expr, $p:expr, $frame:expr, $dirty:expr) => {{
        let data = [5u8, 6, 7];
        let empty: [u8; 0] = [];
        // sources
        cell(&$p("read_volatile_from-0/empty-slice"), $judged, $frame, $dirty, || okz($t.read_volatile_from($a, &mut &empty[..], 0)));
        cell(&$p("read_exact_volatile_from-0/empty-slice"), $judged, $frame, $dirty, || oku($t.read_exact_volatile_from($a, &mut &empty[..], 0)));
        for pos in [0u64, 3, 4, u64::MAX] {
            let pc = match pos { 0 => "start", 3 => "end", 4 => "past-end", _ => "max" };
            cell(&$p(&format!("read_volatile_from-0/cursor-{}", pc)), $judged, $frame, $dirty, || {
                let mut c = Cursor::new(&data[..]);
                c.set_position(pos);
                okz($t.read_volatile_from($a, &mut c, 0)).and_then(|()| if c.position() == pos { Ok(()) } else { Err(format!("cursor moved to {}", c.position())) })
            });
            cell(&$p(&format!("read_exact_volatile_from-0/cursor-{}", pc)), $judged, $frame, $dirty, || {
                let mut c = Cursor::new(&data[..]);
                c.set_position(pos);
                oku($t.read_exact_volatile_from($a, &mut c, 0)).and_then(|()| if c.position() == pos { Ok(()) } else { Err(format!("cursor moved to {}", c.position())) })
            });
        }
        // idle descriptors: connected stream sockets with nothing pending (non-blocking, and
        // blocking with a short receive timeout), an empty non-blocking pipe, a file at EOF - a
        // zero-count transfer returns Ok without waiting for, or consuming, anything
        #[cfg(not(miri))]
        {
            use std::os::fd::AsRawFd;
            let (mut ua, ub) = std::os::unix::net::UnixStream::pair().expect("socketpair");
            let _ = ua.set_nonblocking(true);
            let (mut ta, tb) = std::os::unix::net::UnixStream::pair().expect("socketpair");
            let _ = ta.set_read_timeout(Some(std::time::Duration::from_millis(150)));
            let _ = ta.set_write_timeout(Some(std::time::Duration::from_millis(150)));
            let tcp = std::net::TcpListener::bind("127.0.0.1:0").ok().and_then(|l| {
                let c = std::net::TcpStream::connect(l.local_addr().ok()?).ok()?;
                let (s, _) = l.accept().ok()?;
                let _ = s.set_nonblocking(true);
                Some((s, c))
            });
            let mut eof_file = crate::models::world::temp_file(0);
            cell(&$p("read_volatile_from-0/idle-unix-stream(non-blocking)"), $judged, $frame, $dirty, || okz($t.read_volatile_from($a, &mut ua, 0)));
            cell(&$p("read_exact_volatile_from-0/idle-unix-stream(non-blocking)"), $judged, $frame, $dirty, || oku($t.read_exact_volatile_from($a, &mut ua, 0)));
            cell(&$p("write_volatile_to-0/idle-unix-stream(non-blocking)"), $judged, $frame, $dirty, || okz($t.write_volatile_to($a, &mut ua, 0)));
            cell(&$p("write_all_volatile_to-0/idle-unix-stream(non-blocking)"), $judged, $frame, $dirty, || oku($t.write_all_volatile_to($a, &mut ua, 0)));
            cell(&$p("read_volatile_from-0/idle-unix-stream(timeout)"), $judged, $frame, $dirty, || okz($t.read_volatile_from($a, &mut ta, 0)));
            cell(&$p("read_exact_volatile_from-0/idle-unix-stream(timeout)"), $judged, $frame, $dirty, || oku($t.read_exact_volatile_from($a, &mut ta, 0)));
            if let Some((mut s, _c)) = tcp {
                cell(&$p("read_volatile_from-0/idle-tcp-stream(non-blocking)"), $judged, $frame, $dirty, || okz($t.read_volatile_from($a, &mut s, 0)));
                cell(&$p("read_exact_volatile_from-0/idle-tcp-stream(non-blocking)"), $judged, $frame, $dirty, || oku($t.read_exact_volatile_from($a, &mut s, 0)));
                cell(&$p("write_all_volatile_to-0/idle-tcp-stream(non-blocking)"), $judged, $frame, $dirty, || oku($t.write_all_volatile_to($a, &mut s, 0)));
            }
            cell(&$p("read_exact_volatile_from-0/file-at-eof"), $judged, $frame, $dirty, || oku($t.read_exact_volatile_from($a, &mut eof_file, 0)));
            cell(&$p("read_volatile_from-0/file-at-eof"), $judged, $frame, $dirty, || okz($t.read_volatile_from($a, &mut eof_file, 0)));
            // nothing was consumed from or sent to the peers
            let mut probe = [0u8; 1];
            let _ = ub.set_nonblocking(true);
            let _ = tb.set_nonblocking(true);
            for (pn, peer) in [("non-blocking", &ub), ("timeout", &tb)] {
                // SAFETY: non-blocking read from our own socket.
                let n = unsafe { libc::recv(peer.as_raw_fd(), probe.as_mut_ptr() as *mut libc::c_void, 1, libc::MSG_DONTWAIT) };
                if n > 0 {
                    cell(&$p(&format!("idle-unix-stream({})/peer-received-bytes", pn)), $judged, $frame, $dirty, || Err("the peer of an idle socket received data from zero-count transfers".to_string()));
                }
            }
        }
        // sinks
        cell(&$p("write_volatile_to-0/empty-mut-slice"), $judged, $frame, $dirty, || {
            let mut b: [u8; 0] = [];
            okz($t.write_volatile_to($a, &mut &mut b[..], 0))
        });
        cell(&$p("write_all_volatile_to-0/empty-mut-slice"), $judged, $frame, $dirty, || {
            let mut b: [u8; 0] = [];
            oku($t.write_all_volatile_to($a, &mut &mut b[..], 0))
        });
        cell(&$p("write_all_volatile_to-0/mut-slice"), $judged, $frame, $dirty, || {
            let mut b = [0xeeu8; 2];
            oku($t.write_all_volatile_to($a, &mut &mut b[..], 0)).and_then(|()| if b == [0xee; 2] { Ok(()) } else { Err("sink received bytes".into()) })
        });
        for pos in [0u64, 2, 3, u64::MAX] {
            let pc = match pos { 0 => "start", 2 => "end", 3 => "past-end", _ => "max" };
            cell(&$p(&format!("write_volatile_to-0/cursor-mut-slice-{}", pc)), $judged, $frame, $dirty, || {
                let mut b = [0xeeu8; 2];
                let mut c = Cursor::new(&mut b[..]);
                c.set_position(pos);
                okz($t.write_volatile_to($a, &mut c, 0)).and_then(|()| if c.position() == pos { Ok(()) } else { Err(format!("cursor moved to {}", c.position())) })
            });
            cell(&$p(&format!("write_all_volatile_to-0/cursor-mut-slice-{}", pc)), $judged, $frame, $dirty, || {
                let mut b = [0xeeu8; 2];
                let mut c = Cursor::new(&mut b[..]);
                c.set_position(pos);
                let res = oku($t.write_all_volatile_to($a, &mut c, 0));
                let moved = c.position() != pos;
                res.and_then(|()| if !moved && b == [0xee; 2] { Ok(()) } else { Err("cursor moved or sink received bytes".into()) })
            });
        }
    }};
}

fn slice_matrix<B: vm_memory::bitmap::BitmapSlice>(s: &VolatileSlice<B>, cname: &str, frame: &Frame, dirty: &dyn Fn() -> usize) {
    let len = s.len();
    let offs: Vec<(usize, &str, bool)> = vec![
        (0, "off0", len > 0),
        (len / 2, "inside", len > 1),
        (len.saturating_sub(1), "last", len > 0),
        (len, "at-len", false),
        (len + 1, "len+1", false),
        (usize::MAX, "usize::MAX", false),
        (usize::MAX / 2 + 1, "2^63", false),
    ];
    for (off, oc, valid_nonempty) in offs {
        let p = |e: &str| format!("slice/{}/{}/{}", cname, e, oc);
        cell(&p("write-empty"), true, frame, dirty, || okz(s.write(&[], off)));
        cell(&p("read-empty"), true, frame, dirty, || okz(s.read(&mut [], off)));
        cell(&p("write_slice-empty"), true, frame, dirty, || oku(s.write_slice(&[], off)));
        cell(&p("read_slice-empty"), true, frame, dirty, || oku(s.read_slice(&mut [], off)));
        macro_rules! obj {
            ($T:ty, $tn:expr) => {
                cell(&format!("{}/{}", p("write_obj-zst"), $tn), true, frame, dirty, || oku(s.write_obj::<$T>(<$T>::default(), off)));
                cell(&format!("{}/{}", p("read_obj-zst"), $tn), true, frame, dirty, || okt(s.read_obj::<$T>(off)));
            };
        }
        zst_cells!(obj);
        // zero-count stream transfers: pinned at offsets valid for a non-empty access
        let data = [1u8, 2, 3];
        cell(&p("read_volatile_from-0"), valid_nonempty, frame, dirty, || okz(s.read_volatile_from(off, &mut &data[..], 0)));
        cell(&p("read_exact_volatile_from-0"), valid_nonempty, frame, dirty, || oku(s.read_exact_volatile_from(off, &mut Cursor::new(&data[..]), 0)));
        cell(&p("write_volatile_to-0"), valid_nonempty, frame, dirty, || {
            let mut v: Vec<u8> = vec![];
            okz(s.write_volatile_to(off, &mut v, 0)).and_then(|()| if v.is_empty() { Ok(()) } else { Err("sink received bytes".into()) })
        });
        cell(&p("write_all_volatile_to-0"), valid_nonempty, frame, dirty, || {
            let mut v: Vec<u8> = vec![];
            oku(s.write_all_volatile_to(off, &mut v, 0))
        });
        stream_kinds!(s, off, valid_nonempty, p, frame, dirty);
        if !cfg!(miri) && valid_nonempty {
            cell(&p("read_volatile_from-0-file"), true, frame, dirty, || {
                let mut f = std::fs::File::open("/dev/zero").unwrap();
                okz(s.read_volatile_from(off, &mut f, 0))
            });
            cell(&p("write_all_volatile_to-0-file"), true, frame, dirty, || {
                let mut f = std::fs::OpenOptions::new().write(true).open("/dev/null").unwrap();
                oku(s.write_all_volatile_to(off, &mut f, 0))
            });
        }
        // zero-sized typed accessors at offsets inside the container (valid for non-empty access)
        if off <= len {
            macro_rules! refs {
                ($T:ty, $tn:expr) => {
                    cell(&format!("{}/{}", p("get_ref-zst.load/store"), $tn), true, frame, dirty, || {
                        let r = s.get_ref::<$T>(off).map_err(|e| format!("Err({:?})", e))?;
                        let v = r.load();
                        r.store(v);
                        Ok(())
                    });
                    for n in [0usize, 1, 5] {
                        cell(&format!("{}/{}/n{}", p("array-zst"), $tn, n), true, frame, dirty, || {
                            let a = s.get_array_ref::<$T>(off, n).map_err(|e| format!("Err({:?})", e))?;
                            let mut buf = [<$T>::default(); 3];
                            let _ = a.copy_to(&mut buf);
                            a.copy_from(&buf);
                            a.copy_from(&[]);
                            let _ = a.copy_to(&mut []);
                            if n > 0 {
                                let v = a.load(n - 1);
                                a.store(0, v);
                                let _ = a.ref_at(n - 1).load();
                            }
                            let _ = a.to_slice();
                            Ok(())
                        });
                    }
                };
            }
            zst_cells!(refs);
        }
    }
    // copies of zero-sized elements / with empty buffers on the whole container
    macro_rules! copies {
        ($T:ty, $tn:expr) => {
            cell(&format!("slice/{}/copy_to-zst/{}", cname, $tn), true, frame, dirty, || {
                let mut buf = [<$T>::default(); 4];
                let _ = s.copy_to(&mut buf);
                Ok(())
            });
            cell(&format!("slice/{}/copy_from-zst/{}", cname, $tn), true, frame, dirty, || {
                let buf = [<$T>::default(); 4];
                s.copy_from(&buf);
                Ok(())
            });
            // buffers of zero-sized elements can be as long as the address space allows
            // (`vec![x; usize::MAX]` of a zero-sized type allocates nothing)
            for (ln, blen) in [("isize::MAX", isize::MAX as usize), ("isize::MAX+1", isize::MAX as usize + 1), ("usize::MAX", usize::MAX)] {
                // (in a forked child with a CPU-time limit: a no-op that walks 2^63 elements never ends)
                cell(&format!("slice/{}/copy_to+copy_from-zst-huge-buf-{}/{}", cname, ln, $tn), true, frame, dirty, || {
                    if cfg!(miri) {
                        return Ok(());
                    }
                    match crate::common::fork::run(5, || {
                        let mut buf = vec![<$T>::default(); blen];
                        let _ = s.copy_to(&mut buf);
                        s.copy_from(&buf);
                        vec![]
                    }) {
                        crate::common::fork::Exit::Ok(_) => Ok(()),
                        crate::common::fork::Exit::CpuLimit => Err("did not finish within 5 CPU-seconds".into()),
                        crate::common::fork::Exit::Panic(p) => Err(format!("panicked: {}", p)),
                        other => Err(format!("{:?}", other)),
                    }
                });
            }
            cell(&format!("slice/{}/copy_to-zst-empty-buf/{}", cname, $tn), true, frame, dirty, || {
                let mut buf: [$T; 0] = [];
                let _ = s.copy_to(&mut buf);
                s.copy_from(&buf);
                Ok(())
            });
        };
    }
    zst_cells!(copies);
    // empty buffers are empty wherever their (never dereferenced) pointer points: at the start of
    // the guest slice, inside it, at its end
    if s.len() > 0 {
        for (pn, at) in [("at-slice-start", 0usize), ("inside-slice", s.len() / 2), ("at-slice-end", s.len())] {
            let g = s.ptr_guard();
            // SAFETY: zero-length slices; the pointer is non-null and only carried around.
            let p = unsafe { (g.as_ptr() as *mut u8).add(at) };
            drop(g);
            if p.is_null() {
                continue;
            }
            cell(&format!("slice/{}/copy_to+copy_from-empty-buf-{}/u8", cname, pn), true, frame, dirty, || {
                let e8: &mut [u8] = unsafe { std::slice::from_raw_parts_mut(p, 0) };
                let a = s.copy_to::<u8>(e8);
                s.copy_from::<u8>(e8);
                let w = s.write(e8, 0).map_err(|e| format!("write Err({:?})", e))?;
                let r = s.read(e8, 0).map_err(|e| format!("read Err({:?})", e))?;
                if a == 0 && w == 0 && r == 0 { Ok(()) } else { Err("nonzero count".into()) }
            });
            if (p as usize) % 4 == 0 {
                cell(&format!("slice/{}/copy_to+copy_from-empty-buf-{}/u32", cname, pn), true, frame, dirty, || {
                    let e32: &mut [u32] = unsafe { std::slice::from_raw_parts_mut(p as *mut u32, 0) };
                    let a = s.copy_to::<u32>(e32);
                    s.copy_from::<u32>(e32);
                    if a == 0 { Ok(()) } else { Err("nonzero count".into()) }
                });
            }
        }
    }
    cell(&format!("slice/{}/copy_to-empty-buf/u8", cname), true, frame, dirty, || if s.copy_to::<u8>(&mut []) == 0 { Ok(()) } else { Err("nonzero count".into()) });
    cell(&format!("slice/{}/copy_to-empty-buf/u32", cname), true, frame, dirty, || if s.copy_to::<u32>(&mut []) == 0 { Ok(()) } else { Err("nonzero count".into()) });
    cell(&format!("slice/{}/copy_from-empty-buf/u8", cname), true, frame, dirty, || {
        s.copy_from::<u8>(&[]);
        Ok(())
    });
    cell(&format!("slice/{}/copy_from-empty-buf/u64", cname), true, frame, dirty, || {
        s.copy_from::<u64>(&[]);
        Ok(())
    });
    cell(&format!("slice/{}/copy_to_volatile_slice-empty", cname), true, frame, dirty, || {
        let e = s.subslice(0, 0).map_err(|e| format!("Err({:?})", e))?;
        e.copy_to_volatile_slice(s.subslice(0, 0).unwrap());
        s.copy_to_volatile_slice(e);
        Ok(())
    });
}

/// Region-level matrix.
fn region_matrix<R: GuestMemoryRegion>(reg: &R, lname: &str, frame: &Frame, dirty: &dyn Fn() -> usize) {
    let len = reg.len();
    let offs: Vec<(u64, &str, bool)> = vec![
        (0, "off0", true),
        (len / 2, "inside", true),
        (len - 1, "last", true),
        (len, "at-len", false),
        (len + 1, "len+1", false),
        (u64::MAX, "u64::MAX", false),
    ];
    for (off, oc, valid) in offs {
        let a = MemoryRegionAddress(off);
        let p = |e: &str| format!("{}/{}/{}", lname, e, oc);
        cell(&p("write-empty"), true, frame, dirty, || okz(reg.write(&[], a)));
        cell(&p("read-empty"), true, frame, dirty, || okz(reg.read(&mut [], a)));
        cell(&p("write_slice-empty"), true, frame, dirty, || oku(reg.write_slice(&[], a)));
        cell(&p("read_slice-empty"), true, frame, dirty, || oku(reg.read_slice(&mut [], a)));
        macro_rules! obj {
            ($T:ty, $tn:expr) => {
                cell(&format!("{}/{}", p("write_obj-zst"), $tn), true, frame, dirty, || oku(reg.write_obj::<$T>(<$T>::default(), a)));
                cell(&format!("{}/{}", p("read_obj-zst"), $tn), true, frame, dirty, || okt(reg.read_obj::<$T>(a)));
            };
        }
        zst_cells!(obj);
        let data = [9u8; 4];
        cell(&p("read_volatile_from-0"), valid, frame, dirty, || okz(reg.read_volatile_from(a, &mut &data[..], 0)));
        cell(&p("read_exact_volatile_from-0"), valid, frame, dirty, || oku(reg.read_exact_volatile_from(a, &mut &data[..], 0)));
        cell(&p("write_volatile_to-0"), valid, frame, dirty, || {
            let mut v: Vec<u8> = vec![];
            okz(reg.write_volatile_to(a, &mut v, 0))
        });
        cell(&p("write_all_volatile_to-0"), valid, frame, dirty, || {
            let mut v: Vec<u8> = vec![];
            oku(reg.write_all_volatile_to(a, &mut v, 0))
        });
        stream_kinds!(reg, a, valid, p, frame, dirty);
    }
}

/// Guest-memory-level matrix.
fn guest_matrix<M: GuestMemory>(mem: &M, lay: &Layout, lname: &str, frame: &Frame, dirty: &dyn Fn() -> usize) {
    let mut addrs: Vec<(u64, String, bool)> = vec![];
    for (i, (s, l)) in lay.regions.iter().enumerate() {
        let (s, l) = (*s as u64, *l as u64);
        addrs.push((s, format!("r{}-start", i), true));
        addrs.push((s + l / 2, format!("r{}-inside", i), true));
        addrs.push((s + (l - 1), format!("r{}-last", i), true));
        let past = s.wrapping_add(l);
        let mapped = lay.mapped(past as u128) && (s as u128 + l as u128) < (1u128 << 64);
        addrs.push((past, format!("r{}-one-past{}", i, if mapped { "(mapped)" } else { "" }), mapped));
        if s > 0 {
            let m = lay.mapped(s as u128 - 1);
            addrs.push((s - 1, format!("r{}-one-before{}", i, if m { "(mapped)" } else { "" }), m));
        }
    }
    for (a, n) in [(0u64, "addr0"), (u64::MAX, "u64::MAX"), (1 << 63, "2^63"), (0x5555_5555_5555, "far-hole")] {
        addrs.push((a, n.to_string(), lay.mapped(a as u128)));
    }
    for (a, ac, valid) in addrs {
        let ga = GuestAddress(a);
        let p = |e: &str| format!("{}/{}/{}", lname, e, ac);
        cell(&p("write-empty"), true, frame, dirty, || okz(mem.write(&[], ga)));
        cell(&p("read-empty"), true, frame, dirty, || okz(mem.read(&mut [], ga)));
        cell(&p("write_slice-empty"), true, frame, dirty, || oku(mem.write_slice(&[], ga)));
        cell(&p("read_slice-empty"), true, frame, dirty, || oku(mem.read_slice(&mut [], ga)));
        macro_rules! obj {
            ($T:ty, $tn:expr) => {
                cell(&format!("{}/{}", p("write_obj-zst"), $tn), true, frame, dirty, || oku(mem.write_obj::<$T>(<$T>::default(), ga)));
                cell(&format!("{}/{}", p("read_obj-zst"), $tn), true, frame, dirty, || okt(mem.read_obj::<$T>(ga)));
            };
        }
        zst_cells!(obj);
        let data = [7u8; 4];
        cell(&p("read_volatile_from-0"), valid, frame, dirty, || okz(mem.read_volatile_from(ga, &mut &data[..], 0)));
        cell(&p("read_exact_volatile_from-0"), valid, frame, dirty, || oku(mem.read_exact_volatile_from(ga, &mut Cursor::new(&data[..]), 0)));
        cell(&p("write_volatile_to-0"), valid, frame, dirty, || {
            let mut v: Vec<u8> = vec![];
            okz(mem.write_volatile_to(ga, &mut v, 0))
        });
        cell(&p("write_all_volatile_to-0"), valid, frame, dirty, || {
            let mut v: Vec<u8> = vec![];
            oku(mem.write_all_volatile_to(ga, &mut v, 0))
        });
        stream_kinds!(mem, ga, valid, p, frame, dirty);
    }
}

fn count_dirty<B: Bitmap + 'static>(gm: &GuestMemoryMmap<B>) -> usize {
    let mut n = 0;
    for reg in gm.iter() {
        let l = reg.len() as usize;
        let mut o = 0;
        while o < l {
            if reg.bitmap().dirty_at(o) {
                n += 1;
            }
            o += 512; // finer than any page size used here => counts every dirty page at least once
        }
    }
    n
}

fn new_region(start: u64, len: usize) -> GuestRegionMmap<AtomicBitmap> {
    GuestRegionMmap::<AtomicBitmap>::from_range(GuestAddress(start), len, None).expect("region")
}

fn one_layout(lay: &Layout, tag: &str, r: &mut Rng) {
    // GuestMemoryMmap with dirty tracking
    if lay.regions.iter().all(|(s, l)| s + l < (1u128 << 64)) {
        let regs: Vec<GuestRegionMmap<AtomicBitmap>> = lay.regions.iter().map(|(s, l)| new_region(*s as u64, *l as usize)).collect();
        let gm = GuestMemoryMmap::from_regions(regs).unwrap();
        let ptrs: Vec<(*mut u8, usize)> = gm.iter().map(|reg| (reg.as_ptr(), reg.len() as usize)).collect();
        for (p, l) in &ptrs {
            for i in 0..*l {
                unsafe { p.add(i).write_volatile((i as u8) ^ 0x3c) };
            }
        }
        let frame = Frame::new(ptrs);
        let dirty = || count_dirty(&gm);
        guest_matrix(&gm, lay, &format!("guest-mmap/{}", tag), &frame, &dirty);
        for (i, reg) in gm.iter().enumerate() {
            if i < 2 {
                region_matrix(reg, &format!("region-mmap/{}", tag), &frame, &dirty);
                let s = GuestMemoryRegion::as_volatile_slice(reg).unwrap();
                slice_matrix(&s, &format!("region-slice/{}", tag), &frame, &dirty);
                let sub = s.subslice(1, (reg.len() as usize - 1).min(17)).unwrap();
                slice_matrix(&sub, &format!("region-subslice/{}", tag), &frame, &dirty);
                // MmapRegion as VolatileMemory with zero-sized requests
                let mr: &vm_memory::MmapRegion<AtomicBitmap> = reg;
                for off in [0usize, reg.len() as usize, reg.len() as usize + 1] {
                    let judged = off <= reg.len() as usize;
                    cell(&format!("mmapregion/{}/get_slice-0/{}", tag, if off < reg.len() as usize { "inside" } else if off == reg.len() as usize { "at-len" } else { "len+1" }), judged && off < reg.len() as usize, &frame, &dirty, || okt(mr.get_slice(off, 0)));
                }
            }
        }
    }
    // MockMemory (default trait methods), incl. layouts reaching 2^64-1
    if lay.regions.iter().all(|(_, l)| *l <= 1 << 16) {
        let (mm, raws, _) = build_mock(lay, Some(64), r);
        let ptrs: Vec<(*mut u8, usize)> = raws.iter().map(|x| (x.ptr, x.len)).collect();
        let frame = Frame::new(ptrs);
        let dirty = || {
            let mut n = 0;
            for reg in mm.iter() {
                let mut o = 0;
                while o < reg.len() as usize {
                    if reg.bitmap().dirty_at(o) {
                        n += 1;
                    }
                    o += 64;
                }
            }
            n
        };
        guest_matrix(&mm, lay, &format!("guest-mock/{}", tag), &frame, &dirty);
        region_matrix(mm.iter().next().unwrap(), &format!("region-mock/{}", tag), &frame, &dirty);
    }
}

/// Xen build: the same matrix on grant regions mapped on demand, grant regions mapped in advance
/// and foreign regions (emulated devices).
#[cfg(feature = "xen")]
fn xen_regions() {
    use crate::models::xenemu::Emu;
    use vm_memory::{MmapRange, MmapRegion};
    for (flags, kname) in [(0x2u32 | 0x8, "ondemand"), (0x2, "grant-advance"), (0x1, "foreign")] {
        out::case(100, jobj! {"op" => kname});
        let emu = Emu::install(8 << 20);
        let gbase = 0x20000u64;
        let size = 3 * 4096 + 5;
        let foff = if flags & 0x1 != 0 { 0 } else { gbase };
        let init: Vec<u8> = (0..size).map(|i| (i as u8) ^ 0x6d).collect();
        emu.write_guest(foff, &init);
        let range = MmapRange::new(size, Some(emu.file_offset(0)), GuestAddress(gbase), flags, 2);
        let region = match MmapRegion::<AtomicBitmap>::from_range(range) {
            Ok(r) => r,
            Err(e) => {
                out::viol(&format!("C18/xen/{}/construction-failed", kname), J::dbg(&e));
                continue;
            }
        };
        let gm = GuestMemoryMmap::from_regions(vec![GuestRegionMmap::new(region, GuestAddress(gbase)).unwrap()]).unwrap();
        let file = emu.file.clone();
        let frame = Frame::with_reader(Box::new(move || {
            use std::os::unix::fs::FileExt;
            let mut b = vec![0u8; size];
            file.read_exact_at(&mut b, foff).unwrap();
            b
        }));
        let dirty = || count_dirty(&gm);
        let lay = Layout::new(vec![(gbase as u128, size as u128)]);
        guest_matrix(&gm, &lay, &format!("guest-xen-{}/single", kname), &frame, &dirty);
        let reg = gm.iter().next().unwrap();
        region_matrix(reg, &format!("region-xen-{}/single", kname), &frame, &dirty);
        let s = GuestMemoryRegion::as_volatile_slice(reg).unwrap();
        slice_matrix(&s, &format!("xen-{}-slice", kname), &frame, &dirty);
        let sub = s.subslice(4090, 40).unwrap();
        slice_matrix(&sub, &format!("xen-{}-subslice", kname), &frame, &dirty);
        // nothing may be left mapped by zero-length accesses
        let baseline = if flags & 0x8 != 0 { 0 } else if flags & 0x2 != 0 { 1 } else { 0 };
        if emu.live().len() != baseline {
            out::viol(&format!("C18/xen/{}/window-left-mapped-by-zero-length-access", kname), J::dbg(&emu.live()));
        }
        drop(gm);
        drop(emu);
    }
}

/// The process-wide sinks (`Stdout`) in states a long-running program leaves them in: an
/// unfinished line pending in std's buffer, and a descriptor 1 whose reader has gone away. A
/// zero-count transfer is a successful no-op there too: nothing is emitted on the descriptor and
/// the result is Ok whatever the state of the sink.
#[cfg(all(not(miri), not(feature = "xen")))]
fn stdout_in_awkward_states() {
    use crate::common::fork::{self, Exit};
    use std::io::Write;
    for state in ["partial-line-pending", "partial-line-pending+reader-gone", "reader-gone", "plain"] {
        let ex = fork::run(20, move || {
            let mut fds = [0i32; 2];
            // SAFETY: plain pipe/dup2/fcntl in the forked child.
            unsafe {
                libc::pipe(fds.as_mut_ptr());
                libc::dup2(fds[1], 1);
                libc::close(fds[1]);
                let fl = libc::fcntl(fds[0], libc::F_GETFL);
                libc::fcntl(fds[0], libc::F_SETFL, fl | libc::O_NONBLOCK);
                libc::signal(libc::SIGPIPE, libc::SIG_IGN);
            }
            let mut so = std::io::stdout();
            if state.starts_with("partial") {
                let _ = so.write_all(b"an unfinished line");
            }
            if state.contains("reader-gone") {
                // SAFETY: closing the read end of our own pipe.
                unsafe { libc::close(fds[0]) };
            }
            let gm = vm_memory::GuestMemoryMmap::<()>::from_ranges(&[(GuestAddress(0x1000), 0x1000)]).unwrap();
            let reg = gm.iter().next().unwrap();
            let vs = reg.as_volatile_slice().unwrap();
            let mut report = String::new();
            let results = [
                ("slice.write_volatile_to", vs.write_volatile_to(5, &mut so, 0).map(|n| n == 0).unwrap_or(false)),
                ("slice.write_all_volatile_to", vs.write_all_volatile_to(5, &mut so, 0).is_ok()),
                ("region.write_volatile_to", reg.write_volatile_to(vm_memory::MemoryRegionAddress(9), &mut so, 0).map(|n| n == 0).unwrap_or(false)),
                ("region.write_all_volatile_to", reg.write_all_volatile_to(vm_memory::MemoryRegionAddress(9), &mut so, 0).is_ok()),
                ("guest.write_volatile_to", gm.write_volatile_to(GuestAddress(0x1010), &mut so, 0).map(|n| n == 0).unwrap_or(false)),
                ("guest.write_all_volatile_to", gm.write_all_volatile_to(GuestAddress(0x1010), &mut so, 0).is_ok()),
                ("Stdout.write_volatile(empty slice)", vm_memory::WriteVolatile::write_volatile(&mut so, &vs.subslice(7, 0).unwrap()).map(|n| n == 0).unwrap_or(false)),
            ];
            for (name, ok) in results {
                if !ok {
                    report.push_str(&format!("{}: not Ok(0); ", name));
                }
            }
            if !state.contains("reader-gone") {
                let mut b = [0u8; 64];
                // SAFETY: non-blocking read from our own pipe.
                let n = unsafe { libc::read(fds[0], b.as_mut_ptr() as *mut libc::c_void, 64) };
                if n > 0 {
                    report.push_str(&format!("{} bytes appeared on descriptor 1; ", n));
                }
            }
            report.into_bytes()
        });
        match ex {
            Exit::Ok(rep) if rep.is_empty() => {
                out::key(&format!("stdout-state|{}|zero-count", state), true);
                out::eval(7);
            }
            Exit::Ok(rep) => out::viol(&format!("C18/Stdout({})/zero-count-transfer-is-not-a-successful-no-op", state), J::s(String::from_utf8_lossy(&rep).to_string())),
            Exit::Panic(p) => out::viol(&format!("C18/Stdout({})/panic/{}", state, panic_sig(&p)), J::s(p)),
            other => out::note("C18/stdout-child-inconclusive", J::dbg(&other)),
        }
    }
}

pub fn run(args: &Args) {
    out::set_quiet_cases(true);
    #[cfg(feature = "xen")]
    if crate::common::interpose::available() {
        if let Err(p) = guarded(xen_regions) {
            out::viol(&format!("C18/xen/panic/{}", panic_sig(&p)), J::s(p));
        }
    }
    #[cfg(all(not(miri), not(feature = "xen")))]
    if let Err(p) = guarded(stdout_in_awkward_states) {
        out::viol(&format!("C18/panic/stdout-states/{}", panic_sig(&p)), J::s(p));
    }
    // fixed layouts (complete matrix)
    let top = 1u128 << 64;
    let layouts: Vec<(&str, Vec<(u128, u128)>)> = vec![
        ("single", vec![(0x1000, 0x2000)]),
        ("at0", vec![(0, 0x1000)]),
        ("adjacent", vec![(0x1000, 0x1000), (0x2000, 0x1003)]),
        ("hole", vec![(0x1000, 0x1000), (0x2001, 0x20)]),
        ("near-top", vec![(0, 0x1000), (top - 0x1001, 0x1000)]),
        ("top", vec![(0, 0x40), (top - 0x40, 0x40)]),
        ("one-byte", vec![(0x10, 1), (0x12, 1)]),
    ];
    for (tag, regs) in &layouts {
        let mut r = Rng::new(args.seed(), "c18", 0);
        out::case(0, jobj! {"op" => *tag});
        one_layout(&Layout::new(regs.clone()), tag, &mut r);
    }
    // standalone containers: empty and non-empty arena slices at odd alignments
    for (len, place, cname) in [(0usize, Place::C(3), "empty-C"), (0, Place::R, "empty-R"), (1, Place::R, "one-R"), (37, Place::C(5), "odd-C"), (64, Place::L, "64-L")] {
        let a = Arena::new(len, place);
        a.fill(|i| i as u8 ^ 0x77);
        let frame = Frame::new(vec![(a.ptr, a.len)]);
        let s = unsafe { VolatileSlice::new(a.ptr, a.len) };
        slice_matrix(&s, cname, &frame, &|| 0);
        if let Some(at) = a.check_canaries() {
            out::viol(&format!("C18/slice/{}/wrote-outside-container", cname), jobj! {"at" => at as i64});
        }
        // with a byte-granular bitmap
        let bm = AtomicBitmap::new(len, std::num::NonZeroUsize::new(1).unwrap());
        let sb = unsafe { VolatileSlice::with_bitmap(a.ptr, a.len, bm.slice_at(0), None) };
        let dirty = || (0..len).filter(|i| bm.dirty_at(*i)).count();
        slice_matrix(&sb, &format!("{}+bitmap", cname), &frame, &dirty);
    }
    // a null-based empty slice (as in the crate's own doc examples)
    {
        let frame = Frame::new(vec![]);
        // SAFETY: zero bytes are valid at any address.
        let s = unsafe { VolatileSlice::new(std::ptr::null_mut(), 0) };
        slice_matrix(&s, "empty-null", &frame, &|| 0);
    }
    // random layouts
    for case in args.cases(40) {
        let mut r = Rng::new(args.seed(), "c18", case + 1);
        let lay = crate::models::world::small_layout(&mut r, true, true);
        out::case(case + 1, jobj! {"op" => "random-layout", "shape" => lay.shape()});
        one_layout(&lay, "random", &mut r);
    }
    out::sample(jobj! {"cell" => "guest-mmap/hole/write-empty/r0-one-past", "meaning" => "GuestMemoryMmap::write(&[], first unmapped address after region 0) must be Ok(0), change no byte, mark nothing"});
    out::sample(jobj! {"cell" => "slice/odd-C/copy_to-zst/[u16;0]", "meaning" => "VolatileSlice::copy_to::<[u16;0]> must not panic"});
    let _ = panic_sig;
    let _ = J::Null;
}
