//! vmv — runtime monitors for the vm-memory properties C01..C20.
//! usage: vmv <monitor> [key=value ...]   (seed=, cases=, shard=i/n, only=<case>, tier=quick|thorough)

macro_rules! jobj {
    ($($k:expr => $v:expr),* $(,)?) => {
        $crate::common::out::J::O(vec![$(($k.to_string(), $crate::common::out::J::from($v))),*])
    };
}

pub mod common;
pub mod models;

mod mon_c01;
mod mon_c02;
mod mon_c03;
mod mon_c04;
mod mon_c05;
mod mon_c06;
mod mon_c07;
mod mon_c08;
mod mon_c09;
mod mon_c10;
mod mon_c11;
mod mon_c12;
mod mon_c13;
mod mon_c14;
mod mon_c15;
mod mon_c17;
mod mon_c18;
mod mon_c19;
mod mon_c20;

use common::Args;

fn main() {
    let args = Args::parse();
    common::install_quiet_panic_hook();
    common::out::init(&args.monitor);
    match args.monitor.as_str() {
        "noop" => {}
        "c01" => mon_c01::run(&args),
        "c02" => mon_c02::run(&args),
        "c03" => mon_c03::run(&args),
        "c04" => mon_c04::run(&args),
        "c05" => mon_c05::run(&args),
        "c06" => mon_c06::run(&args),
        "c07" => mon_c07::run(&args),
        "c08" => mon_c08::run(&args),
        "c09" => mon_c09::run(&args),
        "c10" => mon_c10::run(&args),
        "c11" => mon_c11::run(&args),
        "c12" => mon_c12::run(&args),
        "c13" => mon_c13::run(&args),
        "c14" => mon_c14::run(&args),
        "c15" => mon_c15::run(&args),
        "c17" => mon_c17::run(&args),
        "c18" => mon_c18::run(&args),
        "c19" => mon_c19::run(&args),
        "c20" => mon_c20::run(&args),
        other => {
            eprintln!("unknown monitor {:?}", other);
            std::process::exit(3);
        }
    }
    common::out::finish();
}
