//! vmv — runtime monitors for the vm-memory properties C01..C20.
//! usage: vmv <monitor> [key=value ...]   (seed=, cases=, shard=i/n, only=<case>, tier=quick|thorough)

macro_rules! jobj {
    ($($k:expr => $v:expr),* $(,)?) => {
        $crate::common::out::J::O(vec![$(($k.to_string(), $crate::common::out::J::from($v))),*])
    };
}

pub mod common;
pub mod models;

#[cfg(feature = "rawfd")]
mod mon_c01;
#[cfg(feature = "rawfd")]
mod mon_c02;
#[cfg(feature = "rawfd")]
mod mon_c03;
#[cfg(feature = "rawfd")]
mod mon_c04;
#[cfg(feature = "rawfd")]
mod mon_c05;
#[cfg(feature = "rawfd")]
mod mon_c06;
#[cfg(feature = "rawfd")]
mod mon_c07;
#[cfg(feature = "rawfd")]
mod mon_c08;
#[cfg(feature = "rawfd")]
mod mon_c09;
#[cfg(feature = "rawfd")]
mod mon_c10;
#[cfg(feature = "rawfd")]
mod mon_c11;
#[cfg(feature = "rawfd")]
mod mon_c12;
#[cfg(feature = "rawfd")]
mod mon_c13;
mod mon_c14;
#[cfg(feature = "rawfd")]
mod mon_c15;
#[cfg(feature = "rawfd")]
mod mon_c17;
#[cfg(feature = "rawfd")]
mod mon_c18;
#[cfg(feature = "rawfd")]
mod mon_c19;
#[cfg(feature = "rawfd")]
mod mon_c20;

use common::Args;

fn main() {
    let args = Args::parse();
    common::install_quiet_panic_hook();
    common::out::init(&args.monitor);
    match args.monitor.as_str() {
        "noop" => {}
        #[cfg(feature = "rawfd")]
        "c01" => mon_c01::run(&args),
        #[cfg(feature = "rawfd")]
        "c02" => mon_c02::run(&args),
        #[cfg(feature = "rawfd")]
        "c03" => mon_c03::run(&args),
        #[cfg(feature = "rawfd")]
        "c04" => mon_c04::run(&args),
        #[cfg(feature = "rawfd")]
        "c05" => mon_c05::run(&args),
        #[cfg(feature = "rawfd")]
        "c06" => mon_c06::run(&args),
        #[cfg(feature = "rawfd")]
        "c07" => mon_c07::run(&args),
        #[cfg(feature = "rawfd")]
        "c08" => mon_c08::run(&args),
        #[cfg(feature = "rawfd")]
        "c09" => mon_c09::run(&args),
        #[cfg(feature = "rawfd")]
        "c10" => mon_c10::run(&args),
        #[cfg(feature = "rawfd")]
        "c11" => mon_c11::run(&args),
        #[cfg(feature = "rawfd")]
        "c12" => mon_c12::run(&args),
        #[cfg(feature = "rawfd")]
        "c13" => mon_c13::run(&args),
        "c14" => mon_c14::run(&args),
        #[cfg(feature = "rawfd")]
        "c15" => mon_c15::run(&args),
        #[cfg(feature = "rawfd")]
        "c17" => mon_c17::run(&args),
        #[cfg(feature = "rawfd")]
        "c18" => mon_c18::run(&args),
        #[cfg(feature = "rawfd")]
        "c19" => mon_c19::run(&args),
        #[cfg(feature = "rawfd")]
        "c20" => mon_c20::run(&args),
        other => {
            eprintln!("unknown monitor {:?}", other);
            std::process::exit(3);
        }
    }
    common::out::finish();
}
