//! vmv — runtime monitors for the vm-memory properties C01..C20.
//! usage: vmv <monitor> [key=value ...]   (seed=, cases=, shard=i/n, only=<case>, tier=quick|thorough)

macro_rules! jobj {
    ($($k:expr => $v:expr),* $(,)?) => {
        $crate::common::out::J::O(vec![$(($k.to_string(), $crate::common::out::J::from($v))),*])
    };
}

pub mod common;
pub mod models;

mod mon_c02;
mod mon_c09;
mod mon_c10;
mod mon_c19;
mod mon_c20;

use common::Args;

fn main() {
    let args = Args::parse();
    common::install_quiet_panic_hook();
    common::out::init(&args.monitor);
    match args.monitor.as_str() {
        "noop" => {}
        "c02" => mon_c02::run(&args),
        "c09" => mon_c09::run(&args),
        "c10" => mon_c10::run(&args),
        "c19" => mon_c19::run(&args),
        "c20" => mon_c20::run(&args),
        other => {
            eprintln!("unknown monitor {:?}", other);
            std::process::exit(3);
        }
    }
    common::out::finish();
}
