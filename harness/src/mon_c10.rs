//! C10 — adding or removing a region yields a new valid map and leaves the old one intact.
//! Oracle: list model Vec<(start, len, id)>; every map / handle ever produced in the history is
//! kept alive and re-listed + fully re-read after every step.

use crate::common::out::{self, J};
use crate::common::prng::Rng;
use crate::common::{guarded, panic_sig, Args};
use std::collections::HashMap;
use std::sync::Arc;
use vm_memory::mmap::Error as MmapError;
use vm_memory::{Bytes, GuestAddress, GuestMemory, GuestMemoryMmap, GuestMemoryRegion, GuestRegionMmap, MmapRegion};

type Reg = (u64, u64, u32); // start, len, id

fn new_mapping(len: usize) -> MmapRegion<()> {
    #[cfg(not(feature = "xen"))]
    {
        MmapRegion::<()>::new(len).expect("mmap")
    }
    #[cfg(feature = "xen")]
    {
        MmapRegion::<()>::from_range(vm_memory::MmapRange::new_unix(len, None, GuestAddress(0))).expect("mmap")
    }
}

thread_local! {
    static SHARED_FILE: std::cell::RefCell<Option<Arc<std::fs::File>>> = const { std::cell::RefCell::new(None) };
}

fn pat(id: u32, ver: u32, i: usize) -> u8 {
    ((id as usize).wrapping_mul(37) ^ (ver as usize).wrapping_mul(101) ^ i.wrapping_mul(13).wrapping_add(i >> 8)) as u8
}

struct World {
    next_id: u32,
    content: HashMap<u32, Vec<u8>>,
    maps: Vec<(GuestMemoryMmap<()>, Vec<Reg>)>,
    handles: Vec<(Arc<GuestRegionMmap<()>>, Reg)>,
}

fn v(sig: &str, d: J) {
    out::viol(&format!("C10/{}", sig), d);
}

fn err_name(e: &MmapError) -> &'static str {
    match e {
        MmapError::InvalidGuestRegion => "InvalidGuestRegion",
        MmapError::MmapRegion(_) => "MmapRegion",
        MmapError::NoMemoryRegion => "NoMemoryRegion",
        MmapError::MemoryRegionOverlap => "MemoryRegionOverlap",
        MmapError::UnsortedMemoryRegions => "UnsortedMemoryRegions",
    }
}

impl World {
    fn make_region(&mut self, start: u64, len: u64) -> Option<(Arc<GuestRegionMmap<()>>, Reg)> {
        let id = self.next_id;
        self.next_id += 1;
        // one region in three is a private mapping of ONE shared file descriptor, at offsets whose
        // file ranges may coincide or intersect (e.g. an image mirrored at two guest addresses):
        // only guest address ranges decide whether a set of regions is a valid map
        #[cfg(not(feature = "xen"))]
        let m = if !cfg!(miri) && id % 3 == 0 && len <= (1 << 20) {
            let f = SHARED_FILE.with(|c| c.borrow_mut().get_or_insert_with(|| Arc::new(crate::models::world::temp_file(2 << 20))).clone());
            let off = 4096 * ((id as u64 / 3) % 4);
            out::count("regions_backed_by_the_shared_descriptor", 1);
            MmapRegion::<()>::build(Some(vm_memory::FileOffset::from_arc(f, off)), len as usize, libc::PROT_READ | libc::PROT_WRITE, libc::MAP_PRIVATE | libc::MAP_NORESERVE).expect("file mapping")
        } else {
            new_mapping(len as usize)
        };
        #[cfg(feature = "xen")]
        let m = new_mapping(len as usize);
        // attributes that have nothing to do with the guest address range
        #[allow(unused_mut)]
        let mut m = m;
        if id % 4 == 1 {
            m.set_hugetlbfs(id % 8 == 1);
        }
        let p = m.as_ptr();
        let bytes: Vec<u8> = (0..len as usize).map(|i| pat(id, 0, i)).collect();
        for (i, b) in bytes.iter().enumerate() {
            // SAFETY: inside the fresh mapping.
            unsafe { p.add(i).write_volatile(*b) };
        }
        match GuestRegionMmap::new(m, GuestAddress(start)) {
            Ok(r) => {
                self.content.insert(id, bytes);
                Some((Arc::new(r), (start, len, id)))
            }
            Err(e) => {
                v("region-new-rejected-valid", jobj! {"start" => start, "len" => len, "err" => err_name(&e)});
                None
            }
        }
    }

    /// Re-list and re-read everything that is alive.
    fn check_all(&self, ctx: &str) -> bool {
        for (mi, (map, model)) in self.maps.iter().enumerate() {
            let listed: Vec<(u64, u64)> = map.iter().map(|r| (r.start_addr().0, r.len())).collect();
            let want: Vec<(u64, u64)> = model.iter().map(|r| (r.0, r.1)).collect();
            if listed != want || map.num_regions() != want.len() {
                v("old-map-changed/list", jobj! {"ctx" => ctx, "map" => mi, "got" => J::dbg(&listed), "want" => J::dbg(&want)});
                return false;
            }
            // sorted & disjoint (independent of the model)
            for w in listed.windows(2) {
                if w[0].0 as u128 + w[0].1 as u128 > w[1].0 as u128 {
                    v("map-not-sorted-disjoint", jobj! {"ctx" => ctx, "map" => mi, "got" => J::dbg(&listed)});
                    return false;
                }
            }
            for (ri, reg) in map.iter().enumerate() {
                let (s, l, id) = model[ri];
                let want = &self.content[&id];
                // through the library
                let mut buf = vec![0u8; l as usize];
                match map.read_slice(&mut buf, GuestAddress(s)) {
                    Ok(()) => {}
                    Err(e) => {
                        v("old-map-unreadable", jobj! {"ctx" => ctx, "map" => mi, "region" => ri, "err" => J::dbg(&e)});
                        return false;
                    }
                }
                // raw
                let p = reg.as_ptr();
                let raw: Vec<u8> = (0..l as usize).map(|i| unsafe { p.add(i).read_volatile() }).collect();
                if &buf != want || &raw != want {
                    let at = buf.iter().zip(want.iter()).position(|(a, b)| a != b);
                    v("old-map-changed/bytes", jobj! {"ctx" => ctx, "map" => mi, "region" => ri, "id" => id, "first_diff" => J::dbg(&at)});
                    return false;
                }
                // every address of the region resolves to it (edges)
                for a in [s, s + l - 1] {
                    match map.find_region(GuestAddress(a)) {
                        Some(r) if std::ptr::eq(r, reg) => {}
                        _ => {
                            v("map-find-region", jobj! {"ctx" => ctx, "map" => mi, "addr" => a});
                            return false;
                        }
                    }
                }
            }
        }
        for (hi, (h, (s, l, id))) in self.handles.iter().enumerate() {
            if h.start_addr().0 != *s || h.len() != *l {
                v("handle-changed", jobj! {"ctx" => ctx, "handle" => hi});
                return false;
            }
            let p = h.as_ptr();
            let raw: Vec<u8> = (0..*l as usize).map(|i| unsafe { p.add(i).read_volatile() }).collect();
            if raw != self.content[id] {
                v("handle-bytes-changed", jobj! {"ctx" => ctx, "handle" => hi, "id" => *id});
                return false;
            }
        }
        true
    }
}

/// Expected result of validating a construction list.
#[derive(Debug, PartialEq)]
enum Expect {
    Ok,
    Err(Vec<&'static str>),
}

fn expect_list(list: &[Reg]) -> Expect {
    if list.is_empty() {
        return Expect::Err(vec!["NoMemoryRegion"]);
    }
    let mut unsorted = false;
    let mut overlap = false;
    let mut first: Option<&'static str> = None;
    for w in list.windows(2) {
        if w[0].0 > w[1].0 {
            unsorted = true;
            first.get_or_insert("UnsortedMemoryRegions");
        } else if w[0].0 as u128 + w[0].1 as u128 - 1 >= w[1].0 as u128 {
            overlap = true;
            first.get_or_insert("MemoryRegionOverlap");
        }
    }
    match (unsorted, overlap) {
        (false, false) => Expect::Ok,
        (true, false) => Expect::Err(vec!["UnsortedMemoryRegions"]),
        (false, true) => Expect::Err(vec!["MemoryRegionOverlap"]),
        // both kinds of defect present: the statement does not say which one is reported
        (true, true) => Expect::Err(vec!["UnsortedMemoryRegions", "MemoryRegionOverlap"]),
    }
}

fn adjacency(model: &[Reg], s: u64, l: u64) -> &'static str {
    let e = s as u128 + l as u128; // exclusive
    let mut cls = "free";
    for (rs, rl, _) in model {
        let re = *rs as u128 + *rl as u128;
        let (rs, s) = (*rs as u128, s as u128);
        if s == rs {
            return "equal-start";
        }
        if s < re && rs < e {
            // overlapping: by how much?
            let ov = e.min(re) - s.max(rs);
            cls = if ov == 1 { "overlap-1" } else { "overlap-n" };
        } else if e == rs {
            if cls == "free" {
                cls = "adjacent-below";
            }
        } else if re == s {
            if cls == "free" {
                cls = "adjacent-above";
            }
        } else if e + 1 == rs || re + 1 == s {
            if cls == "free" {
                cls = "gap-1";
            }
        }
    }
    cls
}

fn pick_len(r: &mut Rng) -> u64 {
    if cfg!(miri) {
        return 1 + r.below(24);
    }
    match r.below(10) {
        0 | 1 => 1,
        2 => 2,
        3 => 4096,
        4 => 4097,
        5 => 8192,
        _ => 1 + r.below(64),
    }
}

/// A start address for a new region of length l, chosen relative to an existing region.
fn pick_start(r: &mut Rng, model: &[Reg], l: u64) -> u64 {
    if model.is_empty() || r.chance(1, 6) {
        return match r.below(4) {
            0 => 0,
            1 => u64::MAX - l - r.below(3), // last byte <= 2^64-2
            2 => r.below(1 << 20),
            _ => r.next() >> r.below(50),
        };
    }
    let (s, rl, _) = *r.pick(model);
    let e = s as i128 + rl as i128; // exclusive end
    let cands: [i128; 10] = [
        e,                        // adjacent above
        e + 1,                    // gap 1
        e - 1,                    // overlap by one from above
        s as i128 - l as i128,     // adjacent below
        s as i128 - l as i128 - 1, // gap 1 below
        s as i128 - l as i128 + 1, // overlap by one from below
        s as i128,                 // equal start
        s as i128 + (rl / 2) as i128,
        e + 4096,
        s as i128 - l as i128 - 4096,
    ];
    let c = *r.pick(&cands);
    c.clamp(0, (u64::MAX - l - 1) as i128) as u64
}

fn history(case: u64, args: &Args) {
    let mut r = Rng::new(args.seed(), "c10", case);
    let mut w = World { next_id: 1, content: HashMap::new(), maps: vec![], handles: vec![] };
    let steps = r.range(args.u64("minsteps", 10), args.u64("maxsteps", 60));
    let mut trace: Vec<String> = vec![];

    // starting layout through from_regions (valid by construction)
    {
        let n = 1 + r.usize_below(4);
        let mut cur = match r.below(3) {
            0 => 0u64,
            1 => r.below(100_000),
            _ => u64::MAX - 200_000,
        };
        let mut regs = vec![];
        let mut model = vec![];
        for _ in 0..n {
            let l = pick_len(&mut r);
            if cur as u128 + l as u128 >= (1u128 << 64) - 1 {
                break;
            }
            if let Some((a, m)) = w.make_region(cur, l) {
                regs.push(a);
                model.push(m);
            }
            cur = cur.saturating_add(l + *r.pick(&[0u64, 0, 1, 2, 4096, 70000]));
        }
        if regs.is_empty() {
            return;
        }
        match GuestMemoryMmap::from_arc_regions(regs) {
            Ok(m) => w.maps.push((m, model)),
            Err(e) => {
                v("from_arc_regions-valid-rejected", jobj! {"err" => err_name(&e), "model" => J::dbg(&model)});
                return;
            }
        }
    }
    // an empty collection is a legitimate starting point too (GuestMemoryMmap::new / Default)
    if r.chance(1, 4) {
        let e = if r.chance(1, 2) { GuestMemoryMmap::<()>::new() } else { GuestMemoryMmap::<()>::default() };
        w.maps.push((e, vec![]));
        out::key("start|empty-map", true);
    }
    if !w.check_all("initial") {
        return;
    }

    for step in 0..steps {
        let k = r.below(100);
        let alive = w.maps.len();
        let alive_c = if alive <= 2 { "maps<=2" } else if alive <= 6 { "maps<=6" } else { "maps>6" };
        let mi = r.usize_below(w.maps.len());
        let ctx;
        let res = guarded(|| -> Result<String, ()> {
            if k < 45 {
                // insert: a fresh region, or (k < 9) a handle that already exists - the very Arc the
                // target map holds, or one removed from / rejected by some map earlier
                let model = w.maps[mi].1.clone();
                let mut existing: Option<(Arc<GuestRegionMmap<()>>, Reg, &'static str)> = None;
                if k < 5 && !model.is_empty() {
                    let reg = *r.pick(&model);
                    if let Ok((_, a)) = w.maps[mi].0.remove_region(GuestAddress(reg.0), reg.1) {
                        existing = Some((a, reg, "own-arc"));
                    }
                } else if k < 9 && !w.handles.is_empty() {
                    let (a, reg) = r.pick(&w.handles).clone();
                    existing = Some((a, reg, "held-handle"));
                }
                let (arc, reg, s, l, adj) = match existing {
                    Some((a, reg, how)) => (a, reg, reg.0, reg.1, how),
                    None => {
                        let l = pick_len(&mut r);
                        let s = pick_start(&mut r, &model, l);
                        let adj = adjacency(&model, s, l);
                        match w.make_region(s, l) {
                            Some((a, reg)) => (a, reg, s, l, adj),
                            None => return Err(()),
                        }
                    }
                };
                let overlaps = model.iter().any(|(rs, rl, _)| (s as u128) < *rs as u128 + *rl as u128 && (*rs as u128) < s as u128 + l as u128);
                let got = w.maps[mi].0.insert_region(arc.clone());
                let outcome;
                match (got, overlaps) {
                    (Ok(nm), false) => {
                        let mut nmodel = model.clone();
                        nmodel.push(reg);
                        nmodel.sort();
                        w.maps.push((nm, nmodel));
                        outcome = "ok";
                    }
                    (Err(e), true) => {
                        if err_name(&e) != "MemoryRegionOverlap" {
                            v("insert/wrong-error", jobj! {"got" => err_name(&e), "adjacency" => adj, "start" => s, "len" => l, "model" => J::dbg(&model)});
                        }
                        // the rejected region stays reachable through our handle
                        w.handles.push((arc, reg));
                        outcome = "overlap";
                    }
                    (Ok(_), true) => {
                        v("insert/overlap-accepted", jobj! {"adjacency" => adj, "start" => s, "len" => l, "model" => J::dbg(&model)});
                        return Err(());
                    }
                    (Err(e), false) => {
                        v("insert/valid-rejected", jobj! {"err" => err_name(&e), "adjacency" => adj, "start" => s, "len" => l, "model" => J::dbg(&model)});
                        return Err(());
                    }
                }
                out::key(&format!("insert|{}|{}|{}", outcome, adj, alive_c), true);
                Ok(format!("insert({:#x},{}) on map{} -> {} [{}]", s, l, mi, outcome, adj))
            } else if k < 75 {
                // remove
                let model = w.maps[mi].1.clone();
                let (base, size, cls) = if model.is_empty() {
                    (0, 1, "empty-map")
                } else {
                    let (s, l, _) = *r.pick(&model);
                    match r.below(11) {
                        8 => (s, l.div_ceil(4096) * 4096 + if l % 4096 == 0 { 4096 } else { 0 }, "size-rounded-to-4KiB"),
                        9 => (s, l.div_ceil(2 << 20) * (2 << 20) + if l % (2 << 20) == 0 { 2 << 20 } else { 0 }, "size-rounded-to-2MiB"),
                        10 => (s, l.div_ceil(1 << 30) * (1 << 30), "size-rounded-to-1GiB"),
                        0 => (s, l + 1, "size+1"),
                        1 => (s, l.saturating_sub(1), "size-1"),
                        2 => (s + 1, l, "start+1"),
                        3 => (s.wrapping_sub(1), l, "start-1"),
                        4 => (s + l - 1, 1, "last-byte"),
                        5 => (r.next(), l, "absent"),
                        _ => (s, l, "exact"),
                    }
                };
                let exact = model.iter().position(|(s, l, _)| *s == base && *l == size);
                let got = w.maps[mi].0.remove_region(GuestAddress(base), size);
                let outcome;
                match (got, exact) {
                    (Ok((nm, reg)), Some(i)) => {
                        let mut nmodel = model.clone();
                        let removed = nmodel.remove(i);
                        if reg.start_addr().0 != removed.0 || reg.len() != removed.1 {
                            v("remove/wrong-region-returned", jobj! {"base" => base, "size" => size});
                        }
                        if nmodel.is_empty() {
                            out::key("remove|last-region", true);
                        }
                        w.maps.push((nm, nmodel));
                        w.handles.push((reg, removed));
                        outcome = "ok";
                    }
                    (Err(e), None) => {
                        if err_name(&e) != "InvalidGuestRegion" {
                            v("remove/wrong-error", jobj! {"got" => err_name(&e), "class" => cls});
                        }
                        outcome = "invalid";
                    }
                    (Ok(_), None) => {
                        v("remove/inexact-accepted", jobj! {"class" => cls, "base" => base, "size" => size, "model" => J::dbg(&model)});
                        return Err(());
                    }
                    (Err(e), Some(_)) => {
                        v("remove/exact-rejected", jobj! {"err" => err_name(&e), "base" => base, "size" => size, "model" => J::dbg(&model)});
                        return Err(());
                    }
                }
                out::key(&format!("remove|{}|{}|{}", outcome, cls, alive_c), true);
                Ok(format!("remove({:#x},{}) on map{} -> {} [{}]", base, size, mi, outcome, cls))
            } else if k < 85 {
                // construct from a list of shared Arcs taken from live maps/handles, possibly
                // shuffled / duplicated / empty
                let mut pool: Vec<(Arc<GuestRegionMmap<()>>, Reg)> = vec![];
                for (m, model) in &w.maps {
                    for (i, reg) in model.iter().enumerate() {
                        // obtain the Arc via remove_region on a throw-away derived map
                        if pool.len() < 12 {
                            if let Ok((_, a)) = m.remove_region(GuestAddress(reg.0), reg.1) {
                                pool.push((a, *reg));
                            }
                        }
                        let _ = i;
                    }
                }
                for (h, reg) in &w.handles {
                    if pool.len() < 16 {
                        pool.push((h.clone(), *reg));
                    }
                }
                let n = r.usize_below(5);
                let mut list: Vec<(Arc<GuestRegionMmap<()>>, Reg)> = vec![];
                for _ in 0..n {
                    if pool.is_empty() {
                        break;
                    }
                    list.push(pool[r.usize_below(pool.len())].clone());
                }
                if r.chance(2, 3) {
                    list.sort_by_key(|x| x.1);
                }
                let lm: Vec<Reg> = list.iter().map(|x| x.1).collect();
                let exp = expect_list(&lm);
                let got = GuestMemoryMmap::from_arc_regions(list.iter().map(|x| x.0.clone()).collect());
                let outcome: String;
                match (got, &exp) {
                    (Ok(nm), Expect::Ok) => {
                        w.maps.push((nm, lm.clone()));
                        outcome = "ok".into();
                    }
                    (Err(e), Expect::Err(names)) => {
                        if !names.contains(&err_name(&e)) {
                            v("from_arc_regions/wrong-error", jobj! {"got" => err_name(&e), "want" => J::dbg(names), "list" => J::dbg(&lm)});
                        }
                        outcome = err_name(&e).into();
                    }
                    (Ok(_), Expect::Err(names)) => {
                        v("from_arc_regions/invalid-accepted", jobj! {"want" => J::dbg(names), "list" => J::dbg(&lm)});
                        return Err(());
                    }
                    (Err(e), Expect::Ok) => {
                        v("from_arc_regions/valid-rejected", jobj! {"err" => err_name(&e), "list" => J::dbg(&lm)});
                        return Err(());
                    }
                }
                out::key(&format!("from_arc_regions|{}|n{}|{}", outcome, lm.len(), alive_c), true);
                Ok(format!("from_arc_regions({} regions) -> {}", lm.len(), outcome))
            } else if k < 90 {
                let c = w.maps[mi].0.clone();
                let m = w.maps[mi].1.clone();
                w.maps.push((c, m));
                out::key(&format!("clone|{}", alive_c), true);
                Ok(format!("clone map{}", mi))
            } else if k < 96 {
                // write through one map; every map/handle sharing the region must see it
                let model = w.maps[mi].1.clone();
                if model.is_empty() {
                    return Ok("write skipped (empty map)".into());
                }
                let (s, l, id) = *r.pick(&model);
                let off = r.below(l);
                let n = 1 + r.below((l - off).min(32));
                let data = r.bytes(n as usize);
                match w.maps[mi].0.write_slice(&data, GuestAddress(s + off)) {
                    Ok(()) => {
                        let c = w.content.get_mut(&id).unwrap();
                        c[off as usize..(off + n) as usize].copy_from_slice(&data);
                    }
                    Err(e) => {
                        v("write-through-map-failed", jobj! {"err" => J::dbg(&e)});
                        return Err(());
                    }
                }
                out::key(&format!("write-shared|{}", alive_c), true);
                Ok(format!("write {} bytes at {:#x} through map{}", n, s + off, mi))
            } else {
                // drop a map or a handle (others must stay intact)
                if w.maps.len() > 1 && r.chance(2, 3) {
                    w.maps.remove(mi);
                    out::key(&format!("drop-map|{}", alive_c), true);
                    Ok(format!("drop map{}", mi))
                } else if !w.handles.is_empty() {
                    let hi = r.usize_below(w.handles.len());
                    w.handles.remove(hi);
                    out::key("drop-handle", true);
                    Ok(format!("drop handle{}", hi))
                } else {
                    Ok("nop".into())
                }
            }
        });
        match res {
            Ok(Ok(desc)) => {
                ctx = desc;
            }
            Ok(Err(())) => return,
            Err(p) => {
                v(&format!("panic/{}", panic_sig(&p)), jobj! {"step" => step, "panic" => p});
                return;
            }
        }
        if trace.len() < 10 {
            trace.push(ctx.clone());
        }
        out::eval(1);
        if !w.check_all(&ctx) {
            return;
        }
        // bound memory: keep at most 14 maps
        while w.maps.len() > 14 {
            w.maps.remove(1);
        }
        while w.handles.len() > 24 {
            w.handles.remove(0);
        }
    }
    if out::want_sample() {
        out::sample(jobj! {"case" => case, "steps" => trace, "maps_alive_at_end" => w.maps.len(), "handles_alive_at_end" => w.handles.len()});
    }
}

/// Pairwise boundary grid for construction and insertion, enumerated completely, plus the
/// region-creation bound at the top of the address space.
fn grids() {
    let mut w = World { next_id: 1000, content: HashMap::new(), maps: vec![], handles: vec![] };
    let lens = [1u64, 2, 7, 4096];
    let mut n = 0u64;
    for &la in &lens {
        for &lb in &lens {
            for d in [-2i64, -1, 0, 1, 2] {
                let sa = 0x10000u64;
                let sb = (sa as i64 + la as i64 + d) as u64;
                let (a, ra) = w.make_region(sa, la).unwrap();
                let (b, rb) = w.make_region(sb, lb).unwrap();
                for order in 0..2 {
                    let list = if order == 0 { vec![(a.clone(), ra), (b.clone(), rb)] } else { vec![(b.clone(), rb), (a.clone(), ra)] };
                    let lm: Vec<Reg> = list.iter().map(|x| x.1).collect();
                    let exp = expect_list(&lm);
                    let got = GuestMemoryMmap::from_arc_regions(list.iter().map(|x| x.0.clone()).collect());
                    let gname = match &got {
                        Ok(_) => "ok",
                        Err(e) => err_name(e),
                    };
                    let okk = match &exp {
                        Expect::Ok => gname == "ok",
                        Expect::Err(names) => names.contains(&gname),
                    };
                    if !okk {
                        v("grid/from_arc_regions", jobj! {"la" => la, "lb" => lb, "delta" => d, "order" => order, "got" => gname, "want" => J::dbg(&exp)});
                    }
                    out::key(&format!("grid|construct|d{}|order{}|{}", d, order, gname), true);
                    n += 1;
                }
                // insertion from both sides
                for (base, bm, ins, im) in [(a.clone(), ra, b.clone(), rb), (b.clone(), rb, a.clone(), ra)] {
                    let m = GuestMemoryMmap::from_arc_regions(vec![base]).unwrap();
                    let overlaps = (bm.0 as u128) < im.0 as u128 + im.1 as u128 && (im.0 as u128) < bm.0 as u128 + bm.1 as u128;
                    let got = m.insert_region(ins);
                    let gname = match &got {
                        Ok(_) => "ok",
                        Err(e) => err_name(e),
                    };
                    if (gname == "ok") == overlaps || (overlaps && gname != "MemoryRegionOverlap") {
                        v("grid/insert", jobj! {"la" => la, "lb" => lb, "delta" => d, "got" => gname, "overlaps" => overlaps});
                    }
                    if let Ok(nm) = got {
                        let listed: Vec<u64> = nm.iter().map(|r| r.start_addr().0).collect();
                        let mut sorted = listed.clone();
                        sorted.sort();
                        if listed != sorted || listed.len() != 2 {
                            v("grid/insert-result-not-sorted", jobj! {"listed" => J::dbg(&listed)});
                        }
                    }
                    out::key(&format!("grid|insert|d{}|{}", d, gname), true);
                    n += 1;
                }
            }
        }
    }
    // empty list
    match GuestMemoryMmap::<()>::from_regions(vec![]) {
        Err(MmapError::NoMemoryRegion) => {}
        other => v("grid/empty-list", jobj! {"got" => J::dbg(&other.map(|_| ()))}),
    }
    n += 1;
    // region creation at the top of the address space
    for l in [1u64, 2, 4096, 4097] {
        for d in -2i128..=2 {
            let base = (1i128 << 64) - l as i128 + d; // base + l = 2^64 + d
            if base < 0 || base > u64::MAX as i128 {
                continue;
            }
            let m = new_mapping(l as usize);
            let got = GuestRegionMmap::new(m, GuestAddress(base as u64));
            let cls = if d > 0 { "beyond" } else if d == 0 { "exactly-2^64" } else { "below" };
            match (&got, d) {
                (Ok(_), d) if d > 0 => v("region-new/end-beyond-address-space-accepted", jobj! {"base" => base as u64, "len" => l}),
                (Err(e), d) if d < 0 => v("region-new/valid-rejected", jobj! {"base" => base as u64, "len" => l, "err" => err_name(e)}),
                (Err(e), d) if d > 0 && err_name(e) != "InvalidGuestRegion" => v("region-new/wrong-error", jobj! {"err" => err_name(e)}),
                (r, 0) => out::note("C10/region-new(base+size==2^64)", jobj! {"ok" => r.is_ok()}),
                _ => {}
            }
            if let Ok(reg) = got {
                // last_addr must not wrap
                if reg.last_addr().0 as u128 != base as u128 + l as u128 - 1 {
                    v("region-new/last_addr-wrapped", jobj! {"base" => base as u64, "len" => l, "last" => reg.last_addr().0});
                }
            }
            out::key(&format!("grid|region-new|{}|l{}", cls, l), true);
            n += 1;
        }
    }
    out::eval(n);
    out::count("grid_cases", n as i128);
}

/// Regions that ALIAS one another in host memory (windows over one mapping handed in by the caller:
/// the same host address behind several guest addresses, nested and overlapping windows). The
/// collection is a set of region OBJECTS keyed by guest range; what the regions point at plays no
/// part in insertion, removal or derivation.
#[cfg(not(any(feature = "xen", miri)))]
fn aliased_host_memory() {
    use vm_memory::{GuestMemory, GuestMemoryRegion};
    let owner = new_mapping(0x8000);
    let p = owner.as_ptr();
    // (guest start, len, host offset inside the owner mapping)
    let specs: [(u64, usize, usize); 6] = [(0x0, 0x1000, 0), (0x10000, 0x2000, 0), (0x20000, 0x1000, 0x1000), (0x30000, 0x1000, 0), (0x40000, 0x3000, 0x800 * 2), (0x50000, 0x1000, 0x7000)];
    let mk = |(g, l, ho): (u64, usize, usize)| -> Arc<GuestRegionMmap<()>> {
        // SAFETY: a window inside `owner`, which outlives every region built here.
        let raw = unsafe { MmapRegion::<()>::build_raw(p.add(ho), l, libc::PROT_READ | libc::PROT_WRITE, libc::MAP_PRIVATE | libc::MAP_ANONYMOUS) }.unwrap();
        Arc::new(GuestRegionMmap::new(raw, GuestAddress(g)).unwrap())
    };
    let regs: Vec<Arc<GuestRegionMmap<()>>> = specs.iter().map(|s| mk(*s)).collect();
    let list = |m: &GuestMemoryMmap<()>| -> Vec<(u64, u64, usize)> { m.iter().map(|r| (r.start_addr().0, r.len(), r as *const _ as usize)).collect() };
    let want_of = |idx: &[usize]| -> Vec<(u64, u64, usize)> { idx.iter().map(|i| (specs[*i].0, specs[*i].1 as u64, Arc::as_ptr(&regs[*i]) as usize)).collect() };
    let full = match GuestMemoryMmap::from_arc_regions(regs.clone()) {
        Ok(m) => m,
        Err(e) => {
            v("alias/valid-layout-of-aliasing-regions-refused", jobj! {"error" => err_name(&e)});
            return;
        }
    };
    if list(&full) != want_of(&[0, 1, 2, 3, 4, 5]) {
        v("alias/collection-differs-from-the-regions-given", J::dbg(&list(&full)));
        return;
    }
    let mut n = 0u64;
    for i in 0..specs.len() {
        match full.remove_region(GuestAddress(specs[i].0), specs[i].1 as u64) {
            Ok((m2, arc)) => {
                let rest: Vec<usize> = (0..specs.len()).filter(|k| *k != i).collect();
                if list(&m2) != want_of(&rest) || !Arc::ptr_eq(&arc, &regs[i]) {
                    v("alias/remove/result-is-not-the-old-set-minus-the-one-region", jobj! {"removed_guest_start" => specs[i].0, "host_offset_of_the_removed_region" => specs[i].2, "got" => J::dbg(&list(&m2).iter().map(|t| t.0).collect::<Vec<_>>()), "want" => J::dbg(&rest.iter().map(|k| specs[*k].0).collect::<Vec<_>>())});
                    return;
                }
                if list(&full) != want_of(&[0, 1, 2, 3, 4, 5]) {
                    v("alias/remove/old-map-changed", J::Null);
                    return;
                }
                // remove a second one from the derived map, then put both back in the other order
                for j in rest.iter().copied() {
                    if let Ok((m3, arc2)) = m2.remove_region(GuestAddress(specs[j].0), specs[j].1 as u64) {
                        let rest2: Vec<usize> = rest.iter().copied().filter(|k| *k != j).collect();
                        let back = m3.insert_region(arc.clone()).and_then(|m| m.insert_region(arc2.clone()));
                        let ok = list(&m3) == want_of(&rest2) && back.as_ref().map(|m| list(m) == want_of(&[0, 1, 2, 3, 4, 5])).unwrap_or(false);
                        if !ok {
                            v("alias/remove+insert/result-differs-from-the-set-model", jobj! {"first_removed" => specs[i].0, "second_removed" => specs[j].0, "after_two_removals" => J::dbg(&list(&m3).iter().map(|t| t.0).collect::<Vec<_>>()), "reinsertion_ok" => back.is_ok()});
                            return;
                        }
                        n += 1;
                    } else {
                        v("alias/remove/exact-region-refused", jobj! {"guest_start" => specs[j].0});
                        return;
                    }
                }
            }
            Err(e) => {
                v("alias/remove/exact-region-refused", jobj! {"guest_start" => specs[i].0, "error" => err_name(&e)});
                return;
            }
        }
    }
    out::key("alias|regions-sharing-host-memory|remove+insert", true);
    out::count("aliased_region_derivations", n as i128);
    out::eval(n);
}

pub fn run(args: &Args) {
    out::set_quiet_cases(true);
    let (si, _) = args.shard();
    if si == 0 && !args.flag("nogrid") {
        match guarded(grids) {
            Ok(()) => {}
            Err(p) => v(&format!("panic/grid/{}", panic_sig(&p)), J::s(p)),
        }
    }
    #[cfg(not(any(feature = "xen", miri)))]
    if si == 0 {
        if let Err(p) = guarded(aliased_host_memory) {
            v(&format!("panic/alias/{}", panic_sig(&p)), J::s(p));
        }
    }
    for case in args.cases(2000) {
        out::case(case, J::Null);
        history(case, args);
    }
}
