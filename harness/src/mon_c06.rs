//! C06 — aligned 1/2/4/8-byte guest accesses are never torn.
//!
//! Oracle 1 (deciding): trace hook H1 in the byte-copy helper. For every transfer the recorded
//!   primitive accesses must tile [0, n) exactly once in ascending order, each aligned to its
//!   width on both sides; in the judged class (n in {1,2,4,8}, guest and local address multiples
//!   of n) there must be exactly one Single{width n} and never a Bulk copy.
//! Oracle 2: valgrind lackey on the `probe` mode of this monitor (machine-level access widths);
//!   judged by the orchestrator from the memory trace between marker stores.
//! Oracle 3: black-box tearing detector (writer flips all-zeros / all-ones, reader checks that
//!   all bytes are equal), bounded by iteration count.

use crate::common::arena::{Arena, Place};
use crate::common::out::{self, J};
use crate::common::{guarded, panic_sig, Args};
use crate::mon_c04::ABuf;
use std::cell::RefCell;
use std::io::Cursor;
use std::sync::atomic::{AtomicBool, AtomicU64, Ordering};
use std::sync::Arc;
use vm_memory::verif::{set_copy_hook, CopyEvent};
use vm_memory::{
    Bytes, GuestAddress, GuestMemory, GuestMemoryMmap, GuestMemoryRegion, MemoryRegionAddress, VolatileMemory, VolatileSlice,
};

thread_local! {
    static EVENTS: RefCell<Vec<CopyEvent>> = RefCell::new(Vec::new());
}
fn hook(ev: CopyEvent) {
    EVENTS.with(|e| e.borrow_mut().push(ev));
}
fn take_events() -> Vec<CopyEvent> {
    EVENTS.with(|e| std::mem::take(&mut *e.borrow_mut()))
}

fn v(sig: &str, d: J) {
    out::viol(&format!("C06/{}", sig), d);
}

#[derive(Clone, Copy, PartialEq, Eq, Debug)]
enum Dir {
    /// local -> guest
    Write,
    /// guest -> local
    Read,
}

/// Judge the trace of one transfer of n bytes between guest address `g` and local address `l`.
fn judge(entry: &str, dir: Dir, n: usize, g: usize, l: usize, evs: &[CopyEvent], expect_traced: bool) {
    let (gm, lm) = (g % 8, l % 8);
    let ctx = || jobj! {"entry" => entry, "dir" => J::dbg(&dir), "n" => n, "guest_mod8" => gm, "local_mod8" => lm, "events" => J::dbg(&evs)};
    let judged = matches!(n, 1 | 2 | 4 | 8) && g % n == 0 && l % n == 0;
    if n == 0 {
        if evs.iter().any(|e| !matches!(e, CopyEvent::Bulk { len: 0, .. })) && !evs.is_empty() {
            v(&format!("{}/access-for-empty-transfer", entry), ctx());
        }
        return;
    }
    if evs.is_empty() {
        // the transfer did not go through the instrumented helper: nothing to judge here (the
        // machine-level lackey oracle and the tearing detector still cover it; the coverage
        // floor on judged transfers turns a wholesale bypass into an inconclusive run)
        if expect_traced {
            out::note("C06/transfer-not-traced-by-hook", J::s(entry));
            out::count("untraced_transfers", 1);
        }
        return;
    }
    // (a) tiling in ascending order, aligned on both sides
    let mut pos = 0usize;
    for e in evs {
        let (w, s, d, bulk) = match e {
            CopyEvent::Single { width, src, dst } => (*width, *src, *dst, false),
            CopyEvent::Bulk { len, src, dst } => (*len, *src, *dst, true),
        };
        let (ge, le) = if dir == Dir::Write { (d, s) } else { (s, d) };
        if ge != g + pos || le != l + pos {
            v(&format!("{}/accesses-do-not-tile-the-transfer", entry), ctx());
            return;
        }
        if bulk {
            if n <= 8 {
                v(&format!("{}/bulk-copy-for-a-transfer-of-at-most-8-bytes", entry), ctx());
                return;
            }
        } else {
            if !matches!(w, 1 | 2 | 4 | 8) || ge % w != 0 || le % w != 0 {
                v(&format!("{}/misaligned-primitive-access", entry), ctx());
                return;
            }
        }
        pos += w;
    }
    if pos != n {
        v(&format!("{}/accesses-do-not-cover-the-transfer-exactly", entry), ctx());
        return;
    }
    // (b) the judged class: exactly one access of width n
    if judged && !(evs.len() == 1 && matches!(evs[0], CopyEvent::Single { width, .. } if width == n)) {
        v(&format!("{}/aligned-{}-byte-transfer-not-a-single-access", entry, n), ctx());
    }
    out::key(&format!("{}|{:?}|n{}|g{}|l{}|{}", entry, dir, n, gm, lm, if judged { "judged-single" } else { "tiling" }), true);
    if judged {
        out::count("judged_single_access_transfers", 1);
    }
    out::eval(1);
}

struct Env {
    arena: Arena,
    gm: GuestMemoryMmap<()>,
}

/// The same judgement with HOST-address bits above 31 chosen: the guest bytes straddle an address
/// whose low 32 bits are zero, and the local buffer lies exactly 4 GiB above them (equal modulo
/// 2^32, yet disjoint), 4 GiB +- 8, or is an ordinary buffer.
#[cfg(not(miri))]
fn high_address_bits_grid() {
    use crate::common::bigspace::TwoWindows;
    let Some(w) = TwoWindows::new() else {
        out::note("C06/high-address-bits-skipped", J::s("could not reserve 8 GiB of address space".to_string()));
        return;
    };
    w.fill(0x11);
    let gbase = w.a - 64;
    // SAFETY: 128 bytes inside the first read-write window.
    let vs = unsafe { VolatileSlice::new(gbase as *mut u8, 128) };
    let mut cells = 0u64;
    for n in 1..=12usize {
        for goff in [40usize, 48, 56, 57, 60, 62, 63, 64, 65, 66, 68, 72, 80] {
            for (lname, delta) in [("4GiB-above", 0isize), ("4GiB+8-above", 8), ("4GiB-8-above", -8), ("4GiB+1-above", 1)] {
                let laddr = ((w.b - 64 + goff) as isize + delta) as usize;
                // SAFETY: `n` bytes inside the second read-write window, referenced by nothing else.
                let lbuf: &mut [u8] = unsafe { std::slice::from_raw_parts_mut(laddr as *mut u8, n) };
                lbuf.iter_mut().enumerate().for_each(|(i, b)| *b = 0x80 | i as u8);
                let g = gbase + goff;
                take_events();
                let _ = vs.write(lbuf, goff);
                judge(&format!("slice.write(local {})", lname), Dir::Write, n, g, laddr, &take_events(), true);
                let _ = vs.write_slice(lbuf, goff);
                judge(&format!("slice.write_slice(local {})", lname), Dir::Write, n, g, laddr, &take_events(), true);
                let _ = vs.read(lbuf, goff);
                judge(&format!("slice.read(local {})", lname), Dir::Read, n, g, laddr, &take_events(), true);
                let _ = vs.read_slice(lbuf, goff);
                judge(&format!("slice.read_slice(local {})", lname), Dir::Read, n, g, laddr, &take_events(), true);
                if let Ok(sub) = vs.subslice(goff, n) {
                    let _ = sub.copy_from::<u8>(lbuf);
                    judge(&format!("slice.copy_from<u8>(local {})", lname), Dir::Write, n, g, laddr, &take_events(), true);
                    let _ = sub.copy_to::<u8>(lbuf);
                    judge(&format!("slice.copy_to<u8>(local {})", lname), Dir::Read, n, g, laddr, &take_events(), true);
                }
                cells += 6;
            }
        }
    }
    out::count("high_address_bits_cells", cells as i128);
}

/// Complete grid for every entry point that funnels into the helper.
fn grid(env: &Env) {
    let abase = env.arena.ptr as usize; // 16-aligned (Place::C(0))
    // SAFETY: arena valid for its length.
    let vs = unsafe { VolatileSlice::new(env.arena.ptr, env.arena.len) };
    let reg = env.gm.iter().next().unwrap();
    let rbase = reg.as_ptr() as usize;
    let gstart = reg.start_addr().0;
    for n in 0..=12usize {
        for gm in 0..8usize {
            for lm in 0..8usize {
                let goff = 16 + gm;
                // ---- slice level
                let buf = ABuf::new(n, lm, |i| 0x80 | i as u8);
                let l = buf.as_ref().as_ptr() as usize;
                take_events();
                let _ = vs.write(buf.as_ref(), goff);
                judge("slice.write", Dir::Write, n, abase + goff, l, &take_events(), true);
                let _ = vs.write_slice(buf.as_ref(), goff);
                judge("slice.write_slice", Dir::Write, n, abase + goff, l, &take_events(), true);
                let mut rb = ABuf::new(n, lm, |_| 0);
                let l2 = rb.as_ref().as_ptr() as usize;
                let _ = vs.read(rb.as_mut(), goff);
                judge("slice.read", Dir::Read, n, abase + goff, l2, &take_events(), true);
                let _ = vs.read_slice(rb.as_mut(), goff);
                judge("slice.read_slice", Dir::Read, n, abase + goff, l2, &take_events(), true);
                // 1-byte element copies
                let sub = vs.subslice(goff, n).unwrap();
                sub.copy_from::<u8>(buf.as_ref());
                judge("slice.copy_from<u8>", Dir::Write, n, abase + goff, l, &take_events(), true);
                let _ = sub.copy_to::<u8>(rb.as_mut());
                judge("slice.copy_to<u8>", Dir::Read, n, abase + goff, l2, &take_events(), true);
                let arr = vs.get_array_ref::<u8>(goff, n).unwrap();
                arr.copy_from(buf.as_ref());
                judge("array.copy_from<u8>", Dir::Write, n, abase + goff, l, &take_events(), true);
                let _ = arr.copy_to(rb.as_mut());
                judge("array.copy_to<u8>", Dir::Read, n, abase + goff, l2, &take_events(), true);
                // the same element array obtained by conversion from a slice
                let arr2: vm_memory::VolatileArrayRef<u8, ()> = vs.subslice(goff, n).unwrap().into();
                arr2.copy_from(buf.as_ref());
                judge("array-from-slice.copy_from<u8>", Dir::Write, n, abase + goff, l, &take_events(), true);
                let _ = arr2.copy_to(rb.as_mut());
                judge("array-from-slice.copy_to<u8>", Dir::Read, n, abase + goff, l2, &take_events(), true);
                // in-memory stream adapters
                let mut src: &[u8] = buf.as_ref();
                let _ = vs.read_volatile_from(goff, &mut src, n);
                judge("slice.read_volatile_from(&[u8])", Dir::Write, n, abase + goff, l, &take_events(), true);
                let mut cur = Cursor::new(buf.as_ref());
                let _ = vs.read_exact_volatile_from(goff, &mut cur, n);
                judge("slice.read_exact_volatile_from(Cursor)", Dir::Write, n, abase + goff, l, &take_events(), true);
                {
                    let mut dst: &mut [u8] = rb.as_mut();
                    let _ = vs.write_volatile_to(goff, &mut dst, n);
                }
                judge("slice.write_volatile_to(&mut [u8])", Dir::Read, n, abase + goff, l2, &take_events(), true);
                {
                    let mut vecsink: Vec<u8> = Vec::with_capacity(64);
                    vecsink.extend(std::iter::repeat(0).take(lm));
                    let lp = vecsink.as_ptr() as usize + lm;
                    let _ = vs.write_all_volatile_to(goff, &mut vecsink, n);
                    judge("slice.write_all_volatile_to(Vec)", Dir::Read, n, abase + goff, lp, &take_events(), true);
                }
                if n >= 2 {
                    // a Vec whose spare capacity is smaller than the transfer (it has to grow):
                    // the guest side must still be read by one access of width n
                    for spare in [1usize, n / 2, n - 1] {
                        let mut vecsink: Vec<u8> = Vec::with_capacity(lm + spare);
                        vecsink.extend(std::iter::repeat(0).take(lm));
                        let tight = vecsink.capacity() - vecsink.len() < n;
                        let _ = vs.write_all_volatile_to(goff, &mut vecsink, n);
                        // where the transferred bytes live now (the Vec may have moved)
                        let lp = vecsink.as_ptr() as usize + lm;
                        let ev = take_events();
                        // events that wrote into the old buffer cannot tile [lp, lp+n): judge on the guest side only
                        let single = ev.len() == 1 && matches!(ev[0], CopyEvent::Single { width, src, .. } if width == n && src == abase + goff);
                        let judged_class = (abase + goff) % n == 0 && matches!(n, 2 | 4 | 8) && lp % n == 0;
                        if judged_class && !ev.is_empty() && !single {
                            v(&format!("slice.write_all_volatile_to(Vec,growing)/aligned-{}-byte-transfer-not-a-single-access", n), jobj! {"n" => n, "guest_mod8" => gm, "vec_len" => lm, "spare" => spare, "events" => J::dbg(&ev)});
                        }
                        if vecsink.len() != lm + n {
                            v("slice.write_all_volatile_to(Vec,growing)/length", jobj! {"n" => n, "got" => vecsink.len()});
                        }
                        out::key(&format!("slice.write_all_volatile_to(Vec)|growing{}|n{}|g{}|l{}", if tight { "" } else { "-roomy" }, n, gm, lm), true);
                        if judged_class {
                            out::count("judged_single_access_transfers", 1);
                        }
                        out::eval(1);
                    }
                }
                // the local buffer lies in the SAME memory, directly below / directly above the guest
                // bytes (ranges touch but do not overlap): still one access of width n
                if matches!(n, 1 | 2 | 4 | 8) && gm == 0 && lm == 0 {
                    for (pos, loff) in [("local-directly-below", 32usize - n), ("local-directly-above", 32 + n), ("local-one-gap-above", 32 + 2 * n)] {
                        let g = abase + 32;
                        // SAFETY: disjoint parts of the live arena.
                        let local: &mut [u8] = unsafe { std::slice::from_raw_parts_mut((abase + loff) as *mut u8, n) };
                        for (i, b) in local.iter_mut().enumerate() {
                            *b = 0x90 | i as u8;
                        }
                        take_events();
                        let _ = vs.write(local, 32);
                        judge(&format!("slice.write({})", pos), Dir::Write, n, g, abase + loff, &take_events(), true);
                        let _ = vs.read(local, 32);
                        judge(&format!("slice.read({})", pos), Dir::Read, n, g, abase + loff, &take_events(), true);
                        let _ = vs.write_slice(local, 32);
                        judge(&format!("slice.write_slice({})", pos), Dir::Write, n, g, abase + loff, &take_events(), true);
                        let _ = vs.read_slice(local, 32);
                        judge(&format!("slice.read_slice({})", pos), Dir::Read, n, g, abase + loff, &take_events(), true);
                    }
                }
                // ---- region level
                let ma = MemoryRegionAddress(goff as u64);
                let _ = reg.write(buf.as_ref(), ma);
                judge("region.write", Dir::Write, n, rbase + goff, l, &take_events(), true);
                let _ = reg.read(rb.as_mut(), ma);
                judge("region.read", Dir::Read, n, rbase + goff, l2, &take_events(), true);
                let _ = reg.write_slice(buf.as_ref(), ma);
                judge("region.write_slice", Dir::Write, n, rbase + goff, l, &take_events(), true);
                let _ = reg.read_slice(rb.as_mut(), ma);
                judge("region.read_slice", Dir::Read, n, rbase + goff, l2, &take_events(), true);
                // ---- guest-memory level
                let ga = GuestAddress(gstart + goff as u64);
                let _ = env.gm.write(buf.as_ref(), ga);
                judge("guest.write", Dir::Write, n, rbase + goff, l, &take_events(), true);
                let _ = env.gm.read(rb.as_mut(), ga);
                judge("guest.read", Dir::Read, n, rbase + goff, l2, &take_events(), true);
                let _ = env.gm.write_slice(buf.as_ref(), ga);
                judge("guest.write_slice", Dir::Write, n, rbase + goff, l, &take_events(), true);
                let _ = env.gm.read_slice(rb.as_mut(), ga);
                judge("guest.read_slice", Dir::Read, n, rbase + goff, l2, &take_events(), true);
                let mut s2: &[u8] = buf.as_ref();
                let _ = env.gm.read_exact_volatile_from(ga, &mut s2, n);
                judge("guest.read_exact_volatile_from(&[u8])", Dir::Write, n, rbase + goff, l, &take_events(), true);
            }
        }
    }
    // whole-object forms: the local value is naturally aligned by construction; its address is
    // not observable from outside, so only the guest side and the event shape are judged
    macro_rules! obj {
        ($T:ty, $tn:expr) => {
            let n = std::mem::size_of::<$T>();
            for gm in 0..8usize {
                let goff = 24 + gm;
                let val: $T = 0x1122334455667788u64 as $T;
                for (lvl, base) in [("slice", abase), ("region", rbase), ("guest", rbase)] {
                    take_events();
                    match lvl {
                        "slice" => {
                            let _ = vs.write_obj::<$T>(val, goff);
                        }
                        "region" => {
                            let _ = reg.write_obj::<$T>(val, MemoryRegionAddress(goff as u64));
                        }
                        _ => {
                            let _ = env.gm.write_obj::<$T>(val, GuestAddress(gstart + goff as u64));
                        }
                    }
                    let ev = take_events();
                    let l = match ev.first() {
                        Some(CopyEvent::Single { src, .. }) | Some(CopyEvent::Bulk { src, .. }) => *src,
                        None => 0,
                    };
                    if l % n != 0 {
                        out::note("C06/local-object-not-naturally-aligned", jobj! {"type" => $tn});
                    }
                    judge(&format!("{}.write_obj<{}>", lvl, $tn), Dir::Write, n, base + goff, l, &ev, true);
                    match lvl {
                        "slice" => {
                            let _ = vs.read_obj::<$T>(goff);
                        }
                        "region" => {
                            let _ = reg.read_obj::<$T>(MemoryRegionAddress(goff as u64));
                        }
                        _ => {
                            let _ = env.gm.read_obj::<$T>(GuestAddress(gstart + goff as u64));
                        }
                    }
                    let ev = take_events();
                    let l = match ev.first() {
                        Some(CopyEvent::Single { dst, .. }) | Some(CopyEvent::Bulk { dst, .. }) => *dst,
                        None => 0,
                    };
                    judge(&format!("{}.read_obj<{}>", lvl, $tn), Dir::Read, n, base + goff, l, &ev, true);
                }
            }
        };
    }
    obj!(u8, "u8");
    obj!(u16, "u16");
    obj!(u32, "u32");
    obj!(u64, "u64");
    obj!(i32, "i32");
    obj!(usize, "usize");
}

/// Atomic store/load: round trip, refusal of every misaligned offset.
fn atomics(env: &Env) {
    // SAFETY: arena valid for its length.
    let vs = unsafe { VolatileSlice::new(env.arena.ptr, env.arena.len) };
    macro_rules! at {
        ($T:ty, $tn:expr) => {
            let n = std::mem::size_of::<$T>();
            for off in 16..40usize {
                let aligned = (env.arena.ptr as usize + off) % n == 0;
                let val: $T = (0x0102030405060708u64 as $T) ^ (off as $T);
                for ord in [Ordering::Relaxed, Ordering::Release, Ordering::SeqCst] {
                    let r = vs.store::<$T>(val, off, ord);
                    let lo = if ord == Ordering::Release { Ordering::Acquire } else { ord };
                    let back = vs.load::<$T>(off, lo);
                    match (aligned, &r, &back) {
                        (true, Ok(()), Ok(b)) if *b == val => {}
                        (false, Err(_), Err(_)) => {}
                        _ => v(&format!("atomic/{}/{}", $tn, if aligned { "aligned-roundtrip" } else { "misaligned-accepted" }), jobj! {"off" => off, "store" => J::dbg(&r.is_ok()), "load_ok" => back.is_ok()}),
                    }
                    out::key(&format!("atomic|{}|{}|{:?}", $tn, if aligned { "aligned" } else { "misaligned" }, ord), true);
                    out::eval(1);
                }
                // guest level too
                let ga = GuestAddress(env.gm.iter().next().unwrap().start_addr().0 + off as u64);
                let galigned = (env.gm.iter().next().unwrap().as_ptr() as usize + off) % n == 0;
                let r = env.gm.store::<$T>(val, ga, Ordering::SeqCst);
                let b = env.gm.load::<$T>(ga, Ordering::SeqCst);
                if galigned != r.is_ok() || galigned != b.is_ok() || (galigned && b.ok() != Some(val)) {
                    v(&format!("atomic/guest/{}", $tn), jobj! {"off" => off, "aligned" => galigned, "store_ok" => r.is_ok()});
                }
            }
        };
    }
    at!(u8, "u8");
    at!(u16, "u16");
    at!(u32, "u32");
    at!(u64, "u64");
    at!(i64, "i64");
    at!(usize, "usize");
}

/// Atomic store/load through views whose BASE is skewed (offset / get_slice / split_at by 0..8
/// bytes): acceptance must follow the alignment of the ADDRESS, not of the offset. A wrongly
/// accepted misaligned access forms a misaligned `&Atomic*` (abort in checked builds), so every
/// (type, skew) batch runs in a forked child.
fn atomics_skewed(env: &Env) {
    use crate::common::fork::{self, Exit};
    let ptr = env.arena.ptr as usize;
    let len = env.arena.len;
    macro_rules! at {
        ($T:ty, $tn:expr) => {
            for skew in 0..=8usize {
                out::case(7000 + skew as u64, jobj! {"op" => format!("atomic-skewed<{}> skew {}", $tn, skew)});
                let ex = fork::run(20, || {
                    // SAFETY: arena valid for its length.
                    let vs = unsafe { VolatileSlice::new(ptr as *mut u8, len) };
                    let sub = match skew % 3 {
                        0 => vs.offset(skew).unwrap(),
                        1 => vs.get_slice(skew, len - skew).unwrap(),
                        _ => vs.split_at(skew).unwrap().1,
                    };
                    let n = std::mem::size_of::<$T>();
                    let mut bad = String::new();
                    for off in 8..24usize {
                        let aligned = (ptr + skew + off) % n == 0;
                        let val: $T = (0x1112131415161718u64 as $T) ^ (off as $T);
                        for ord in [Ordering::Relaxed, Ordering::SeqCst] {
                            let r = sub.store::<$T>(val, off, ord);
                            let back = sub.load::<$T>(off, ord);
                            let ok = match (aligned, &r, &back) {
                                (true, Ok(()), Ok(b)) => *b == val,
                                (false, Err(_), Err(_)) => true,
                                _ => false,
                            };
                            if !ok && bad.len() < 300 {
                                bad.push_str(&format!("off {} address%{}={} store_ok={} load_ok={}; ", off, n, (ptr + skew + off) % n, r.is_ok(), back.is_ok()));
                            }
                        }
                        // typed atomic reference: same rule
                        let ar = sub.get_atomic_ref::<<$T as vm_memory::AtomicAccess>::A>(off);
                        if ar.is_ok() != aligned && bad.len() < 300 {
                            bad.push_str(&format!("get_atomic_ref off {} accepted={} aligned={}; ", off, ar.is_ok(), aligned));
                        }
                    }
                    bad.into_bytes()
                });
                let how = ["offset", "get_slice", "split_at"][skew % 3];
                match ex {
                    Exit::Ok(b) if b.is_empty() => {}
                    Exit::Ok(b) => v(&format!("atomic-skewed/{}/acceptance-does-not-follow-address-alignment", $tn), jobj! {"skew" => skew, "derived_by" => how, "mismatches" => String::from_utf8_lossy(&b).to_string()}),
                    Exit::Signal(sig) => v(&format!("atomic-skewed/{}/crash-signal-{}", $tn, sig), jobj! {"skew" => skew, "derived_by" => how}),
                    Exit::Panic(m) => v(&format!("atomic-skewed/{}/panic", $tn), jobj! {"skew" => skew, "derived_by" => how, "panic" => m}),
                    other => out::note("C06/atomic-skewed/harness", jobj! {"exit" => J::dbg(&other)}),
                }
                out::key(&format!("atomic-skewed|{}|skew{}|{}", $tn, skew, how), true);
                out::eval(16 * 2 + 16);
                out::count("skewed_atomic_batches", 1);
            }
        };
    }
    at!(u8, "u8");
    at!(u16, "u16");
    at!(u32, "u32");
    at!(u64, "u64");
    at!(i16, "i16");
    at!(i64, "i64");
    at!(usize, "usize");
}

/// "Refusal of every misaligned offset" for an atomic type the CALLER defines (16 bytes, aligned
/// to 16, value type u64): what must be aligned is the atomic that is referenced, not the value
/// type. Forked child: creating a misaligned reference aborts a debug build inside the library.
#[cfg(not(any(miri, feature = "xen")))]
fn caller_defined_atomic_alignment() {
    use crate::common::fork::{self, Exit};
    use crate::mon_c01::overaligned::{PaddedAtomicU64, ViaPadded};
    use vm_memory::{GuestMemoryRegion, MemoryRegionAddress, VolatileMemory};
    let ex = fork::run(20, || {
        let mut report = String::new();
        let gm = GuestMemoryMmap::<()>::from_ranges(&[(GuestAddress(0x4000), 0x2000)]).unwrap();
        let reg = gm.iter().next().unwrap();
        let host = reg.as_ptr() as usize;
        let vs = reg.as_volatile_slice().unwrap();
        for off in (0..0x120usize).chain(0x1fe0..0x2001) {
            let fits = off + 16 <= 0x2000;
            let want = fits && (host + off) % 16 == 0;
            let a = vs.get_atomic_ref::<PaddedAtomicU64>(off).is_ok();
            let b = vs.store(ViaPadded(off as u64), off, Ordering::SeqCst).is_ok();
            let c = vs.load::<ViaPadded>(off, Ordering::SeqCst).map(|v| v.0 == off as u64).unwrap_or(false);
            let d = reg.store(ViaPadded(1), MemoryRegionAddress(off as u64), Ordering::Release).is_ok();
            let e = gm.load::<ViaPadded>(GuestAddress(0x4000 + off as u64), Ordering::Acquire).is_ok();
            if [a, b, c, d, e] != [want; 5] {
                report.push_str(&format!("offset {:#x} (address % 16 = {}): aligned+fits={} but slice.get_atomic_ref={} slice.store={} slice.load={} region.store={} guest.load={}; ", off, (host + off) % 16, want, a, b, c, d, e));
                if report.len() > 1200 {
                    break;
                }
            }
        }
        report.into_bytes()
    });
    match ex {
        Exit::Ok(rep) if rep.is_empty() => {
            out::key("atomic|caller-defined-16-byte-atomic|misaligned-refused", true);
            out::eval(0x120 + 0x21);
        }
        Exit::Ok(rep) => v("atomic/caller-defined-atomic/misaligned-accepted-or-aligned-refused", J::s(String::from_utf8_lossy(&rep).to_string())),
        Exit::Signal(sig) => v("atomic/caller-defined-atomic/process-aborted-inside-the-library (misaligned atomic reference created)", jobj! {"signal" => fork::signal_name(sig)}),
        Exit::Panic(p) => v(&format!("atomic/caller-defined-atomic/panic/{}", panic_sig(&p)), J::s(p)),
        other => out::note("C06/caller-defined-atomic-child-inconclusive", J::dbg(&other)),
    }
}

/// The REQUESTED ORDERING of atomic store/load: store-buffering litmus on real threads. Each of two
/// threads stores 1 to its own guest word with SeqCst and then loads the other's with SeqCst; under
/// sequential consistency at least one of them sees the other's store. (On x86-64 a SeqCst store
/// is an `xchg` / `mov`+`mfence`; a store silently weakened to Release is a plain `mov`, and both
/// loads can then return 0.)
fn ordering_litmus(rounds: u64) {
    use std::sync::atomic::{AtomicU64 as A64, Ordering as O};
    let gm = std::sync::Arc::new(GuestMemoryMmap::<()>::from_ranges(&[(GuestAddress(0x8000), 0x2000)]).unwrap());
    let (xa, ya) = (GuestAddress(0x8000 + 64), GuestAddress(0x8000 + 0x1000 + 128));
    let phase = std::sync::Arc::new(A64::new(0));
    let r2 = std::sync::Arc::new(A64::new(9));
    let both_zero = std::sync::Arc::new(A64::new(0));
    let (g2, p2, rr2) = (gm.clone(), phase.clone(), r2.clone());
    let h = std::thread::spawn(move || {
        for r in 1..=rounds {
            while p2.load(O::Acquire) != 2 * r - 1 {
                std::hint::spin_loop();
            }
            let _ = g2.store::<u32>(1, ya, O::SeqCst);
            let v = g2.load::<u32>(xa, O::SeqCst).unwrap_or(7);
            rr2.store(v as u64, O::Release);
            p2.store(2 * r, O::Release);
        }
    });
    let mut first = 0u64;
    for r in 1..=rounds {
        let _ = gm.store::<u32>(0, xa, O::SeqCst);
        let _ = gm.store::<u32>(0, ya, O::SeqCst);
        phase.store(2 * r - 1, O::Release);
        let _ = gm.store::<u32>(1, xa, O::SeqCst);
        let r1 = gm.load::<u32>(ya, O::SeqCst).unwrap_or(7);
        while phase.load(O::Acquire) != 2 * r {
            std::hint::spin_loop();
        }
        if r1 == 0 && r2.load(O::Acquire) == 0 {
            if both_zero.fetch_add(1, O::Relaxed) == 0 {
                first = r;
            }
        }
    }
    let _ = h.join();
    let n = both_zero.load(O::Relaxed);
    if n > 0 {
        v("atomic-ordering/SeqCst-store-then-load-both-threads-saw-0", jobj! {"rounds" => rounds, "forbidden_outcomes" => n, "first_round" => first});
    }
    // CONTROL (harness-side, no library code): the same litmus with Release stores / Acquire
    // loads on two plain atomics. It shows how often THIS machine, under THIS load, exhibits the
    // forbidden outcome when the ordering is weakened - the litmus above is only informative if
    // this number is not zero.
    {
        static X: std::sync::atomic::AtomicU32 = std::sync::atomic::AtomicU32::new(0);
        static PAD: [std::sync::atomic::AtomicU64; 16] = [const { A64::new(0) }; 16];
        static Y: std::sync::atomic::AtomicU32 = std::sync::atomic::AtomicU32::new(0);
        let _ = &PAD;
        let crounds = (rounds / 3).max(1);
        let phase = std::sync::Arc::new(A64::new(0));
        let r2 = std::sync::Arc::new(A64::new(9));
        let (p2, rr2) = (phase.clone(), r2.clone());
        let h = std::thread::spawn(move || {
            for r in 1..=crounds {
                while p2.load(O::Acquire) != 2 * r - 1 {
                    std::hint::spin_loop();
                }
                Y.store(1, O::Release);
                let v = X.load(O::Acquire);
                rr2.store(v as u64, O::Release);
                p2.store(2 * r, O::Release);
            }
        });
        let mut seen = 0u64;
        for r in 1..=crounds {
            X.store(0, O::SeqCst);
            Y.store(0, O::SeqCst);
            phase.store(2 * r - 1, O::Release);
            X.store(1, O::Release);
            let r1 = Y.load(O::Acquire);
            while phase.load(O::Acquire) != 2 * r {
                std::hint::spin_loop();
            }
            if r1 == 0 && r2.load(O::Acquire) == 0 {
                seen += 1;
            }
        }
        let _ = h.join();
        out::count("ordering_litmus_control_rounds", crounds as i128);
        out::count("ordering_litmus_control_forbidden_outcomes", seen as i128);
        if seen == 0 {
            out::note("ordering-litmus-control-saw-no-reordering", jobj! {"control_rounds" => crounds, "meaning" => "the weakened control never showed the forbidden outcome in this run: the ordering litmus was not discriminating here"});
        }
    }
    out::count("ordering_litmus_rounds", rounds as i128);
    out::key("atomic|ordering-litmus|store-buffering|SeqCst", true);
    out::eval(rounds);
}

#[repr(align(8))]
struct A8([u8; 8]);
fn pad8(b: &[u8]) -> [u8; 8] {
    let mut o = [0u8; 8];
    o[..b.len()].copy_from_slice(b);
    o
}

/// Black-box tearing detector.
fn tearing(iters: u64) {
    let gm = Arc::new(GuestMemoryMmap::<()>::from_ranges(&[(GuestAddress(0x1000), 0x1000)]).unwrap());
    let arena = Arena::new(256, Place::C(0));
    arena.fill(|_| 0); // the reader may run before the writer's first store
    let abase = arena.ptr as usize;
    macro_rules! tear {
        ($T:ty, $tn:expr) => {
            for level in ["slice", "region", "guest"] {
                for aligned in [true] {
                    let off = 64usize + if aligned { 0 } else { 1 };
                    // start from all-zeros (the previous type may have left all-ones behind)
                    arena.fill(|_| 0);
                    gm.write_obj::<[u64; 4]>([0; 4], GuestAddress(0x1000 + 56)).unwrap();
                    let stop = Arc::new(AtomicBool::new(false));
                    let torn = Arc::new(AtomicU64::new(0));
                    let reads = Arc::new(AtomicU64::new(0));
                    let mixed_seen = Arc::new(AtomicU64::new(0));
                    let (gm_w, gm_r) = (gm.clone(), gm.clone());
                    let (stop_w, stop_r) = (stop.clone(), stop.clone());
                    let (torn_r, reads_r, mixed_r) = (torn.clone(), reads.clone(), mixed_seen.clone());
                    let lvl_w = level.to_string();
                    let lvl_r = level.to_string();
                    let writer = std::thread::spawn(move || {
                        // SAFETY: the arena outlives both threads (joined below).
                        let vs = unsafe { VolatileSlice::new(abase as *mut u8, 256) };
                        let reg_slice = gm_w.iter().next().unwrap();
                        let mut k = 0u64;
                        while !stop_w.load(Ordering::Relaxed) {
                            let val: $T = if k & 1 == 0 { 0 } else { !0 };
                            match lvl_w.as_str() {
                                "slice" => {
                                    if k % 3 == 0 {
                                        // naturally aligned local buffer (a bare [u8; N] temporary has alignment 1)
                                        let a = A8(pad8(&val.to_ne_bytes()));
                                        let _ = vs.write(&a.0[..std::mem::size_of::<$T>()], off);
                                    } else {
                                        let _ = vs.write_obj::<$T>(val, off);
                                    }
                                }
                                "region" => {
                                    let _ = reg_slice.write_obj::<$T>(val, MemoryRegionAddress(off as u64));
                                }
                                _ => {
                                    let _ = gm_w.write_obj::<$T>(val, GuestAddress(0x1000 + off as u64));
                                }
                            }
                            k += 1;
                        }
                    });
                    let reader = std::thread::spawn(move || {
                        let vs = unsafe { VolatileSlice::new(abase as *mut u8, 256) };
                        let reg_slice = gm_r.iter().next().unwrap();
                        let mut last: $T = 0;
                        for i in 0..iters {
                            let x: $T = match lvl_r.as_str() {
                                "slice" => {
                                    if i % 3 == 0 {
                                        let mut a = A8([0u8; 8]);
                                        let _ = vs.read(&mut a.0[..std::mem::size_of::<$T>()], off);
                                        <$T>::from_ne_bytes(a.0[..std::mem::size_of::<$T>()].try_into().unwrap())
                                    } else {
                                        vs.read_obj::<$T>(off).unwrap()
                                    }
                                }
                                "region" => reg_slice.read_obj::<$T>(MemoryRegionAddress(off as u64)).unwrap(),
                                _ => gm_r.read_obj::<$T>(GuestAddress(0x1000 + off as u64)).unwrap(),
                            };
                            if x != 0 && x != !0 {
                                torn_r.fetch_add(1, Ordering::Relaxed);
                            }
                            if x != last {
                                mixed_r.fetch_add(1, Ordering::Relaxed);
                                last = x;
                            }
                        }
                        reads_r.store(iters, Ordering::Relaxed);
                        stop_r.store(true, Ordering::Relaxed);
                    });
                    reader.join().unwrap();
                    stop.store(true, Ordering::Relaxed);
                    writer.join().unwrap();
                    let t = torn.load(Ordering::Relaxed);
                    if t > 0 {
                        v(&format!("tearing/{}/{}", level, $tn), jobj! {"torn_reads" => t, "reads" => iters});
                    }
                    out::key(&format!("tearing|{}|{}", level, $tn), true);
                    out::count("tearing_reads", iters as i128);
                    out::count("tearing_value_changes_observed", mixed_seen.load(Ordering::Relaxed) as i128);
                }
            }
        };
    }
    tear!(u16, "u16");
    tear!(u32, "u32");
    tear!(u64, "u64");
    drop(arena);
}

/// Probe for valgrind lackey: scripted transfers delimited by 8-byte marker stores.
/// Prints "LACKEY marker=<addr>" and one "XFER <i> <S|L> <addr> <n> <entry>" line per transfer.
fn probe() {
    let arena = Arena::new(256, Place::C(0));
    let gm = GuestMemoryMmap::<()>::from_ranges(&[(GuestAddress(0x1000), 0x1000)]).unwrap();
    let reg = gm.iter().next().unwrap();
    let rbase = reg.as_ptr() as usize;
    let abase = arena.ptr as usize;
    let vs = unsafe { VolatileSlice::new(arena.ptr, arena.len) };
    // begin marker = 4-byte store to marker[0], end marker = 4-byte store to marker[1]
    // (allocator bookkeeping touches the block with 8/16-byte stores only)
    let marker: Box<[u32; 2]> = Box::new([0; 2]);
    let mp = Box::into_raw(marker) as *mut u32;
    println!("LACKEY marker={} arena={} arena_len=256 region={} region_len=4096", mp as usize, abase, rbase);
    let mut idx = 0u64;
    let mark = |i: u64, end: bool| {
        // SAFETY: mp is a live heap allocation of two u32.
        unsafe { std::ptr::write_volatile(mp.add(end as usize), i as u32) };
    };
    macro_rules! xfer {
        ($kind:expr, $addr:expr, $n:expr, $entry:expr, $body:expr) => {{
            println!("XFER {} {} {} {} {}", idx, $kind, $addr, $n, $entry);
            mark(idx, false);
            $body;
            mark(idx, true);
            idx += 1;
        }};
    }
    macro_rules! objs {
        ($T:ty, $tn:expr) => {
            let n = std::mem::size_of::<$T>();
            for k in 0..3usize {
                let off = 64 + k * 8; // aligned to n for every n <= 8
                let val: $T = 0x5566778811223344u64 as $T;
                xfer!("S", abase + off, n, concat!("slice.write_obj<", $tn, ">"), { let _ = vs.write_obj::<$T>(val, off); });
                xfer!("L", abase + off, n, concat!("slice.read_obj<", $tn, ">"), { let _ = std::hint::black_box(vs.read_obj::<$T>(off)); });
                xfer!("S", rbase + off, n, concat!("region.write_obj<", $tn, ">"), { let _ = reg.write_obj::<$T>(val, MemoryRegionAddress(off as u64)); });
                xfer!("L", rbase + off, n, concat!("region.read_obj<", $tn, ">"), { let _ = std::hint::black_box(reg.read_obj::<$T>(MemoryRegionAddress(off as u64))); });
                xfer!("S", rbase + off, n, concat!("guest.write_obj<", $tn, ">"), { let _ = gm.write_obj::<$T>(val, GuestAddress(0x1000 + off as u64)); });
                xfer!("L", rbase + off, n, concat!("guest.read_obj<", $tn, ">"), { let _ = std::hint::black_box(gm.read_obj::<$T>(GuestAddress(0x1000 + off as u64))); });
                // buffer forms with an aligned local buffer
                let buf = ABuf::new(n, 0, |i| i as u8 | 0x10);
                let mut rb = ABuf::new(n, 0, |_| 0);
                xfer!("S", abase + off, n, concat!("slice.write[", $tn, "]"), { let _ = vs.write(buf.as_ref(), off); });
                xfer!("L", abase + off, n, concat!("slice.read[", $tn, "]"), { let _ = vs.read(rb.as_mut(), off); });
                xfer!("S", rbase + off, n, concat!("guest.write_slice[", $tn, "]"), { let _ = gm.write_slice(buf.as_ref(), GuestAddress(0x1000 + off as u64)); });
                xfer!("L", rbase + off, n, concat!("guest.read_slice[", $tn, "]"), { let _ = gm.read_slice(rb.as_mut(), GuestAddress(0x1000 + off as u64)); });
                xfer!("S", abase + off, n, concat!("slice.copy_from<u8>[", $tn, "]"), { vs.subslice(off, n).unwrap().copy_from::<u8>(buf.as_ref()); });
                xfer!("L", abase + off, n, concat!("slice.copy_to<u8>[", $tn, "]"), { let _ = vs.subslice(off, n).unwrap().copy_to::<u8>(rb.as_mut()); });
                // the array-ref copy helpers called directly, the region- and guest-level buffer
                // forms and the remaining in-memory stream adapters
                let arr = vs.get_array_ref::<u8>(off, n).unwrap();
                xfer!("S", abase + off, n, concat!("array.copy_from<u8>[", $tn, "]"), { arr.copy_from(buf.as_ref()); });
                xfer!("L", abase + off, n, concat!("array.copy_to<u8>[", $tn, "]"), { let _ = arr.copy_to(rb.as_mut()); });
                let arr2: vm_memory::VolatileArrayRef<u8, ()> = vs.subslice(off, n).unwrap().into();
                xfer!("S", abase + off, n, concat!("array-from-slice.copy_from<u8>[", $tn, "]"), { arr2.copy_from(buf.as_ref()); });
                xfer!("S", rbase + off, n, concat!("region.write[", $tn, "]"), { let _ = reg.write(buf.as_ref(), MemoryRegionAddress(off as u64)); });
                xfer!("L", rbase + off, n, concat!("region.read[", $tn, "]"), { let _ = reg.read(rb.as_mut(), MemoryRegionAddress(off as u64)); });
                xfer!("S", rbase + off, n, concat!("region.write_slice[", $tn, "]"), { let _ = reg.write_slice(buf.as_ref(), MemoryRegionAddress(off as u64)); });
                xfer!("L", rbase + off, n, concat!("region.read_slice[", $tn, "]"), { let _ = reg.read_slice(rb.as_mut(), MemoryRegionAddress(off as u64)); });
                xfer!("S", rbase + off, n, concat!("guest.write[", $tn, "]"), { let _ = gm.write(buf.as_ref(), GuestAddress(0x1000 + off as u64)); });
                xfer!("L", rbase + off, n, concat!("guest.read[", $tn, "]"), { let _ = gm.read(rb.as_mut(), GuestAddress(0x1000 + off as u64)); });
                let mut cur = std::io::Cursor::new(buf.as_ref());
                xfer!("S", abase + off, n, concat!("slice.read_exact_volatile_from(Cursor)[", $tn, "]"), { let _ = vs.read_exact_volatile_from(off, &mut cur, n); });
                let mut sink = ABuf::new(n, 0, |_| 0);
                {
                    let mut dst: &mut [u8] = sink.as_mut();
                    xfer!("L", abase + off, n, concat!("slice.write_volatile_to(&mut [u8])[", $tn, "]"), { let _ = vs.write_volatile_to(off, &mut dst, n); });
                }
                let mut vsink: Vec<u8> = Vec::with_capacity(16);
                xfer!("L", abase + off, n, concat!("slice.write_all_volatile_to(Vec)[", $tn, "]"), { let _ = vs.write_all_volatile_to(off, &mut vsink, n); });
                if n >= 2 {
                    // spare capacity smaller than the transfer: the Vec must grow
                    let mut tight: Vec<u8> = Vec::with_capacity(8 + n / 2);
                    tight.extend_from_slice(&[0u8; 8]);
                    xfer!("L", abase + off, n, concat!("slice.write_all_volatile_to(Vec,growing)[", $tn, "]"), { let _ = vs.write_all_volatile_to(off, &mut tight, n); });
                }
                let mut gsrc: &[u8] = buf.as_ref();
                xfer!("S", rbase + off, n, concat!("guest.read_exact_volatile_from(&[u8])[", $tn, "]"), { let _ = gm.read_exact_volatile_from(GuestAddress(0x1000 + off as u64), &mut gsrc, n); });
                let mut src: &[u8] = buf.as_ref();
                xfer!("S", abase + off, n, concat!("slice.read_volatile_from(&[u8])[", $tn, "]"), { let _ = vs.read_volatile_from(off, &mut src, n); });
                // atomic forms: store may be an xchg (reported as a modify)
                xfer!("A", abase + off, n, concat!("slice.store<", $tn, ">"), { let _ = vs.store::<$T>(val, off, Ordering::SeqCst); });
                xfer!("L", abase + off, n, concat!("slice.load<", $tn, ">"), { let _ = std::hint::black_box(vs.load::<$T>(off, Ordering::SeqCst)); });
                xfer!("A", rbase + off, n, concat!("guest.store<", $tn, ">"), { let _ = gm.store::<$T>(val, GuestAddress(0x1000 + off as u64), Ordering::Release); });
            }
        };
    }
    objs!(u8, "u8");
    objs!(u16, "u16");
    objs!(u32, "u32");
    objs!(u64, "u64");
    println!("LACKEY transfers={}", idx);
    // SAFETY: allocated above.
    unsafe { drop(Box::from_raw(mp as *mut [u32; 2])) };
}

pub fn run(args: &Args) {
    out::set_quiet_cases(true);
    if args.flag("probe") {
        probe();
        return;
    }
    let env = Env { arena: Arena::new(128, Place::C(0)), gm: GuestMemoryMmap::<()>::from_ranges(&[(GuestAddress(0x4000), 0x1000)]).unwrap() };
    env.arena.fill(|i| i as u8);
    set_copy_hook(Some(hook));
    if let Err(p) = guarded(|| grid(&env)) {
        v(&format!("panic/grid/{}", panic_sig(&p)), J::s(p));
    }
    #[cfg(not(miri))]
    if std::env::var("VMV_ARENA").as_deref() != Ok("heap") {
        if let Err(p) = guarded(high_address_bits_grid) {
            v(&format!("panic/high-address-bits/{}", panic_sig(&p)), J::s(p));
        }
    }
    set_copy_hook(None);
    // the hook must be inert when unregistered
    take_events();
    {
        let vs = unsafe { VolatileSlice::new(env.arena.ptr, env.arena.len) };
        let _ = vs.write_obj::<u32>(1, 0);
        if !take_events().is_empty() {
            v("harness/hook-still-active-after-unregistering", J::Null);
        }
    }
    if let Err(p) = guarded(|| atomics(&env)) {
        v(&format!("panic/atomics/{}", panic_sig(&p)), J::s(p));
    }
    if !cfg!(miri) {
        atomics_skewed(&env);
    }
    #[cfg(not(any(miri, feature = "xen")))]
    if std::env::var("VMV_ARENA").as_deref() != Ok("heap") {
        caller_defined_atomic_alignment();
    }
    if !cfg!(miri) {
        tearing(args.u64("tear", 200_000));
        ordering_litmus(args.u64("sb", 1_500_000));
    }
    out::sample(jobj! {"transfer" => "guest.write_obj<u32> at guest address with host address % 8 == 4", "trace" => "[Single{width:4}]", "verdict" => "judged class: exactly one 4-byte access"});
    out::sample(jobj! {"transfer" => "slice.write of 7 bytes, guest % 8 == 1, local % 8 == 3", "trace" => "seven Single{width:1}", "verdict" => "tiling only (not in the judged class)"});
}
