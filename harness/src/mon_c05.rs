//! C05 (dirty tracking is sound) and C16 (dirty tracking is precise): one harness, two verdict
//! streams (signatures start with "C05/" resp. "C16/").
//!
//! Oracle: diff-driven. Before every operation all bytes and all bitmap bits of all regions are
//! snapshotted; write payloads are the complement of the current contents so that every written
//! byte changes; afterwards every changed byte must be dirty in the bitmap of the region that
//! owns it (and through the accessor's own bitmap view) [C05], and every newly set bit must
//! belong to a page that overlaps the changed bytes [C16]; non-writing operations may set
//! nothing. Only a failed descriptor read may mark its whole target.

use crate::common::out::{self, J};
use crate::common::prng::Rng;
use crate::common::{guarded, panic_sig, Args};
use crate::models::world::temp_file;
use crate::mon_c04::t_from_bytes;
use std::io::{Cursor, Seek, SeekFrom, Write};
use std::mem::size_of;
use std::num::NonZeroUsize;
use std::sync::atomic::Ordering;
use std::sync::Arc;
use vm_memory::bitmap::{ArcSlice, AtomicBitmap, Bitmap, BitmapSlice, WithBitmapSlice, BS};
use vm_memory::{
    Bytes, GuestAddress, GuestMemory, GuestMemoryMmap, GuestMemoryRegion, GuestRegionMmap,
    MemoryRegionAddress, ReadVolatile, VolatileMemory, VolatileMemoryError, VolatileSlice,
};

// ---------------------------------------------------------------------------------------------
// bitmap flavours

pub struct ArcBm(pub Arc<AtomicBitmap>);
impl WithBitmapSlice<'_> for ArcBm {
    type S = ArcSlice<AtomicBitmap>;
}
impl Bitmap for ArcBm {
    fn mark_dirty(&self, offset: usize, len: usize) {
        self.0.set_addr_range(offset, len)
    }
    fn dirty_at(&self, offset: usize) -> bool {
        self.0.is_addr_set(offset)
    }
    fn slice_at(&self, offset: usize) -> ArcSlice<AtomicBitmap> {
        ArcSlice::new(self.0.clone(), offset)
    }
}

pub trait Flavor: 'static {
    type B: Bitmap + Send + Sync + 'static;
    const NAME: &'static str;
    fn make(len: usize, page: usize, r: &mut Rng) -> Self::B;
    fn inner(b: &Self::B) -> Option<&AtomicBitmap>;
    /// identity under which this bitmap reports its mark events (probe flavour only)
    fn probe_id(_b: &Self::B) -> Option<u64> {
        None
    }
}
pub struct FAtomic;
impl Flavor for FAtomic {
    type B = AtomicBitmap;
    const NAME: &'static str = "atomic";
    fn make(len: usize, page: usize, r: &mut Rng) -> AtomicBitmap {
        // one time in three the bitmap starts smaller and is ENLARGED to the region's size before
        // it is handed over (a clone of it another time in six)
        match r.below(6) {
            0 | 1 if len >= 2 => {
                let first = match r.below(3) {
                    0 => 0,
                    1 => len / 2,
                    _ => (len / page.max(1)).saturating_sub(1) * page,
                };
                let mut b = AtomicBitmap::new(first, NonZeroUsize::new(page).unwrap());
                b.enlarge(len - first);
                if b.byte_size() == len { b } else { AtomicBitmap::new(len, NonZeroUsize::new(page).unwrap()) }
            }
            2 => AtomicBitmap::new(len, NonZeroUsize::new(page).unwrap()).clone(),
            _ => AtomicBitmap::new(len, NonZeroUsize::new(page).unwrap()),
        }
    }
    fn inner(b: &AtomicBitmap) -> Option<&AtomicBitmap> {
        Some(b)
    }
}
pub struct FOption;
impl Flavor for FOption {
    type B = Option<AtomicBitmap>;
    const NAME: &'static str = "option";
    fn make(len: usize, page: usize, r: &mut Rng) -> Option<AtomicBitmap> {
        if r.chance(1, 6) {
            None
        } else {
            Some(AtomicBitmap::new(len, NonZeroUsize::new(page).unwrap()))
        }
    }
    fn inner(b: &Option<AtomicBitmap>) -> Option<&AtomicBitmap> {
        b.as_ref()
    }
}
pub struct FArc;
impl Flavor for FArc {
    type B = ArcBm;
    const NAME: &'static str = "arcslice";
    fn make(len: usize, page: usize, _r: &mut Rng) -> ArcBm {
        ArcBm(Arc::new(AtomicBitmap::new(len, NonZeroUsize::new(page).unwrap())))
    }
    fn inner(b: &ArcBm) -> Option<&AtomicBitmap> {
        Some(&b.0)
    }
}

// A bitmap that OBSERVES the moment of every mark: it snapshots the bytes of the pages being
// marked, so that the judge can tell whether the bytes an operation changed had already been
// written when their page was marked. (A harvest may run at any moment; a page marked before
// its bytes are written is harvested clean-to-be-dirtied, and the later write goes unreported.)
thread_local! {
    /// probe id -> (host address of the region, region length, page size)
    static PROBE_REGIONS: std::cell::RefCell<Vec<(u64, usize, usize, usize)>> = const { std::cell::RefCell::new(Vec::new()) };
    /// (probe id, offset of the first snapshotted byte, bytes)
    static PROBE_EVENTS: std::cell::RefCell<Vec<(u64, usize, Vec<u8>)>> = const { std::cell::RefCell::new(Vec::new()) };
}
static PROBE_NEXT: std::sync::atomic::AtomicU64 = std::sync::atomic::AtomicU64::new(1);

fn probe_mark(id: u64, abs: usize, len: usize) {
    if len == 0 {
        return;
    }
    let reg = PROBE_REGIONS.with(|t| t.borrow().iter().find(|e| e.0 == id).cloned());
    let Some((_, host, rlen, page)) = reg else { return };
    if abs >= rlen {
        return;
    }
    let first = abs / page * page;
    let end = abs.saturating_add(len).min(rlen);
    let last = ((end - 1) / page + 1).saturating_mul(page).min(rlen);
    // SAFETY: inside the live region registered by the history that owns it.
    let bytes: Vec<u8> = (first..last).map(|k| unsafe { ((host + k) as *const u8).read_volatile() }).collect();
    PROBE_EVENTS.with(|t| t.borrow_mut().push((id, first, bytes)));
}

pub struct ProbeBm {
    bm: Arc<AtomicBitmap>,
    id: u64,
}
#[derive(Clone, Debug)]
pub struct ProbeSlice {
    bm: Arc<AtomicBitmap>,
    id: u64,
    base: usize,
}
impl WithBitmapSlice<'_> for ProbeBm {
    type S = ProbeSlice;
}
impl WithBitmapSlice<'_> for ProbeSlice {
    type S = ProbeSlice;
}
impl BitmapSlice for ProbeSlice {}
impl Bitmap for ProbeBm {
    fn mark_dirty(&self, offset: usize, len: usize) {
        probe_mark(self.id, offset, len);
        self.bm.set_addr_range(offset, len)
    }
    fn dirty_at(&self, offset: usize) -> bool {
        self.bm.is_addr_set(offset)
    }
    fn slice_at(&self, offset: usize) -> ProbeSlice {
        ProbeSlice { bm: self.bm.clone(), id: self.id, base: offset }
    }
}
impl Bitmap for ProbeSlice {
    fn mark_dirty(&self, offset: usize, len: usize) {
        let abs = self.base.saturating_add(offset);
        probe_mark(self.id, abs, len);
        self.bm.set_addr_range(abs, len)
    }
    fn dirty_at(&self, offset: usize) -> bool {
        self.bm.is_addr_set(self.base.saturating_add(offset))
    }
    fn slice_at(&self, offset: usize) -> ProbeSlice {
        ProbeSlice { bm: self.bm.clone(), id: self.id, base: self.base.saturating_add(offset) }
    }
}
impl Default for ProbeBm {
    fn default() -> Self {
        ProbeBm { bm: Arc::new(AtomicBitmap::default()), id: PROBE_NEXT.fetch_add(1, Ordering::Relaxed) }
    }
}
impl vm_memory::bitmap::NewBitmap for ProbeBm {
    fn with_len(len: usize) -> Self {
        ProbeBm { bm: Arc::new(AtomicBitmap::with_len(len)), id: PROBE_NEXT.fetch_add(1, Ordering::Relaxed) }
    }
}
pub struct FProbe;
impl Flavor for FProbe {
    type B = ProbeBm;
    const NAME: &'static str = "probe";
    fn make(len: usize, page: usize, _r: &mut Rng) -> ProbeBm {
        ProbeBm { bm: Arc::new(AtomicBitmap::new(len, NonZeroUsize::new(page).unwrap())), id: PROBE_NEXT.fetch_add(1, Ordering::Relaxed) }
    }
    fn inner(b: &ProbeBm) -> Option<&AtomicBitmap> {
        Some(&b.bm)
    }
    fn probe_id(b: &ProbeBm) -> Option<u64> {
        Some(b.id)
    }
}
#[cfg(feature = "xen")]
impl XenMake for FProbe {
    fn make_xen(start: u64, len: usize) -> Option<GuestRegionMmap<ProbeBm>> {
        GuestRegionMmap::<ProbeBm>::from_range(GuestAddress(start), len, None).ok()
    }
}

impl Default for ArcBm {
    fn default() -> Self {
        ArcBm(Arc::new(AtomicBitmap::default()))
    }
}
impl vm_memory::bitmap::NewBitmap for ArcBm {
    fn with_len(len: usize) -> Self {
        ArcBm(Arc::new(AtomicBitmap::with_len(len)))
    }
}

/// Xen build: the bitmap is created by the region constructor (`B::with_len`, system page size);
/// regions are Xen-UNIX mappings. Only flavours that implement NewBitmap can be used.
#[cfg(feature = "xen")]
trait XenMake: Flavor {
    fn make_xen(start: u64, len: usize) -> Option<GuestRegionMmap<Self::B>>;
}
#[cfg(feature = "xen")]
impl XenMake for FAtomic {
    fn make_xen(start: u64, len: usize) -> Option<GuestRegionMmap<AtomicBitmap>> {
        GuestRegionMmap::<AtomicBitmap>::from_range(GuestAddress(start), len, None).ok()
    }
}
#[cfg(feature = "xen")]
impl XenMake for FArc {
    fn make_xen(start: u64, len: usize) -> Option<GuestRegionMmap<ArcBm>> {
        GuestRegionMmap::<ArcBm>::from_range(GuestAddress(start), len, None).ok()
    }
}
#[cfg(feature = "xen")]
impl XenMake for FOption {
    fn make_xen(_start: u64, _len: usize) -> Option<GuestRegionMmap<Option<AtomicBitmap>>> {
        None // Option<B> has no NewBitmap impl: cannot be built through from_range
    }
}
#[cfg(feature = "xen")]
fn make_region<F: Flavor + XenMake>(start: u64, len: usize, _page: usize, _r: &mut Rng) -> GuestRegionMmap<F::B> {
    F::make_xen(start, len).expect("xen-unix region")
}

#[cfg(not(feature = "xen"))]
trait XenMake {}
#[cfg(not(feature = "xen"))]
impl<T> XenMake for T {}

#[cfg(not(feature = "xen"))]
fn make_region<F: Flavor>(start: u64, len: usize, page: usize, r: &mut Rng) -> GuestRegionMmap<F::B> {
    use vm_memory::mmap::MmapRegionBuilder;
    let reg = MmapRegionBuilder::new_with_bitmap(len, F::make(len, page, r))
        .with_mmap_prot(libc::PROT_READ | libc::PROT_WRITE)
        .with_mmap_flags(libc::MAP_ANONYMOUS | libc::MAP_PRIVATE | libc::MAP_NORESERVE)
        .build()
        .expect("mmap");
    GuestRegionMmap::new(reg, GuestAddress(start)).expect("region")
}

// ---------------------------------------------------------------------------------------------

struct World {
    /// (guest start, len, host ptr)
    regs: Vec<(u64, usize, *mut u8)>,
    page: usize,
    tracked: Vec<bool>,
    snap_bytes: Vec<Vec<u8>>,
    snap_bits: Vec<Vec<bool>>,
    flavor: &'static str,
    trace: Vec<String>,
    bad: bool,
    /// first witness already reported for C05 / for C16 in this history (the two verdict
    /// streams are judged independently: a failure of one must not silence the other)
    bad05: bool,
    bad16: bool,
    /// probe identity of each region's bitmap (probe flavour only)
    probe: Vec<Option<u64>>,
}

#[derive(Clone, Copy, PartialEq, Eq, Debug)]
enum Kind {
    /// operation is allowed to write
    Write,
    /// operation must not modify memory nor marks
    NoWrite,
    /// failed descriptor read: may mark its whole target (region idx, off, len)
    FailedFdRead(usize, usize, usize),
    /// bitmap maintenance (reset...): bits may be cleared, nothing may be set, no bytes change
    Maintenance,
}

impl World {
    fn npages(&self, i: usize) -> usize {
        self.regs[i].1.div_ceil(self.page)
    }
    fn read_bytes(&self, i: usize) -> Vec<u8> {
        let (_, l, p) = self.regs[i];
        (0..l).map(|k| unsafe { p.add(k).read_volatile() }).collect()
    }
    fn compl(&self, i: usize, x: usize, n: usize) -> Vec<u8> {
        (0..n).map(|k| self.snap_bytes[i].get(x + k).map_or(0x5A, |b| !*b)).collect()
    }
    /// complement payload for a guest address range that may span regions
    fn compl_guest(&self, a: u64, n: usize) -> Vec<u8> {
        (0..n)
            .map(|k| {
                let g = a as u128 + k as u128;
                for (i, (s, l, _)) in self.regs.iter().enumerate() {
                    if g >= *s as u128 && g < *s as u128 + *l as u128 {
                        return !self.snap_bytes[i][(g - *s as u128) as usize];
                    }
                }
                0xA5
            })
            .collect()
    }
    fn fail(&mut self, prop: &str, sig: &str, d: J) {
        self.bad = true;
        if prop == "C05" {
            self.bad05 = true;
        } else {
            self.bad16 = true;
        }
        let tr: Vec<String> = self.trace.iter().rev().take(3).cloned().collect();
        out::viol(
            &format!("{}/{}", prop, sig),
            jobj! {"flavor" => self.flavor, "page" => self.page, "regions" => J::A(self.regs.iter().map(|(s, l, _)| J::S(format!("{:#x}+{}", s, l))).collect()), "detail" => d, "recent_ops" => tr},
        );
    }
}

/// The marked set of a region. Where the bitmap is (or wraps) an `AtomicBitmap` it is read by PAGE
/// INDEX (`is_bit_set`), the way a harvester sees it - an address-based read-out goes through the
/// same address-to-page computation as the marking itself and would hide a mistake made in both -
/// and the address-based view (`dirty_at`) must agree with it.
fn read_bits<B: Bitmap + 'static>(reg: &GuestRegionMmap<B>, page: usize, npages: usize) -> Vec<bool> {
    let by_addr: Vec<bool> = (0..npages + 3).map(|p| reg.bitmap().dirty_at(p.saturating_mul(page))).collect();
    let any = reg.bitmap() as &dyn std::any::Any;
    let inner: Option<&AtomicBitmap> = any.downcast_ref::<AtomicBitmap>().or_else(|| any.downcast_ref::<Option<AtomicBitmap>>().and_then(|o| o.as_ref()));
    if let Some(ab) = inner {
        let by_index: Vec<bool> = (0..npages + 3).map(|p| ab.is_bit_set(p)).collect();
        if by_index != by_addr {
            let p = by_index.iter().zip(by_addr.iter()).position(|(a, b)| a != b).unwrap();
            out::viol(if by_index[p] { "C16/page-index-view-shows-a-page-the-address-view-does-not" } else { "C05/address-view-shows-a-page-the-page-index-view-does-not" }, jobj! {"page_size" => page, "page" => p, "is_bit_set" => by_index[p], "dirty_at(page*page_size)" => by_addr[p]});
        }
        return by_index;
    }
    by_addr
}

fn straddle(page: usize, x: usize, n: usize, rlen: usize) -> &'static str {
    if n == 0 {
        return "empty";
    }
    let first = x / page;
    let last = (x + n - 1) / page;
    if x == 0 && n >= rlen {
        "whole-region"
    } else if first == last {
        if (x + n) % page == 0 {
            "ends-at-page-end"
        } else if x % page == 0 {
            "starts-at-page-start"
        } else {
            "in-page"
        }
    } else if last == first + 1 && (x + n) % page == 1 {
        "one-byte-into-next"
    } else if last == first + 1 {
        "two-pages"
    } else {
        "multi-page"
    }
}
fn page_class(page: usize, rlen: usize) -> &'static str {
    if page == 1 {
        "p1"
    } else if page > rlen {
        "p>region"
    } else if page == rlen {
        "p=region"
    } else if page + 1 == rlen {
        "p=region-1"
    } else if page.is_power_of_two() {
        "p2^k"
    } else {
        "podd"
    }
}

/// Judge the operation that just ran. `acc` is the accessor's own bitmap view:
/// (region idx, base offset within the region, dirty_at closure).
fn judge<B: Bitmap + 'static>(w: &mut World, gm: &GuestMemoryMmap<B>, route: &str, level: &str, kind: Kind, acc: Option<(usize, usize, &dyn Fn(usize) -> bool)>) {
    let n = w.regs.len();
    let mut changed_pages: Vec<Vec<bool>> = vec![];
    let mut any_changed = false;
    let mut after_bytes = vec![];
    let mut after_bits = vec![];
    for (i, reg) in gm.iter().enumerate() {
        let ab = w.read_bytes(i);
        let bits = read_bits(reg, w.page, w.npages(i));
        let mut cp = vec![false; bits.len()];
        let changed_idx: Vec<usize> = ab.iter().zip(w.snap_bytes[i].iter()).enumerate().filter(|(_, (a, b))| a != b).map(|(x, _)| x).collect();
        // probe flavour: when its page was marked, the byte must already have held its new value
        if let Some(id) = w.probe[i] {
            let evs: Vec<(usize, Vec<u8>)> = PROBE_EVENTS.with(|t| t.borrow().iter().filter(|e| e.0 == id).map(|e| (e.1, e.2.clone())).collect());
            if !changed_idx.is_empty() {
                out::count("probe_ops_with_mark_events", (!evs.is_empty()) as i128);
            }
            for &x in &changed_idx {
                let covering: Vec<&(usize, Vec<u8>)> = evs.iter().filter(|(f, b)| x >= *f && x < *f + b.len()).collect();
                if !covering.is_empty() && !covering.iter().any(|(f, b)| b[x - *f] == ab[x]) && !w.bad05 {
                    w.fail("C05", &format!("{}/{}/page-marked-before-its-bytes-were-written", route, level), jobj! {"region" => i, "offset" => x, "page" => x / w.page, "mark_events" => evs.len()});
                }
            }
        }
        for x in changed_idx {
            {
                any_changed = true;
                cp[x / w.page] = true;
                if w.tracked[i] && !bits[x / w.page] && !w.bad05 {
                    w.fail("C05", &format!("{}/{}/changed-byte-reported-clean", route, level), jobj! {"region" => i, "offset" => x, "page" => x / w.page});
                }
                if let Some((ai, base, f)) = &acc {
                    if *ai == i && x >= *base && w.tracked[i] && !f(x - *base) && !w.bad05 {
                        w.fail("C05", &format!("{}/{}/accessor-view-reports-clean", route, level), jobj! {"region" => i, "offset" => x, "accessor_base" => *base});
                    }
                }
            }
        }
        changed_pages.push(cp);
        after_bytes.push(ab);
        after_bits.push(bits);
    }
    for i in 0..n {
        let np = w.npages(i);
        for p in 0..after_bits[i].len() {
            let before = w.snap_bits[i][p];
            let after = after_bits[i][p];
            if p >= np && after && !w.bad16 {
                w.fail("C16", &format!("{}/{}/page-beyond-region-marked", route, level), jobj! {"region" => i, "page_index" => p, "pages" => np});
            }
            if before && !after && kind != Kind::Maintenance && !w.bad05 {
                w.fail("C05", &format!("{}/{}/mark-cleared-by-access", route, level), jobj! {"region" => i, "page_index" => p});
            }
            if after && !before {
                let mut allowed = kind != Kind::Maintenance && kind != Kind::NoWrite && changed_pages[i][p];
                if let Kind::FailedFdRead(ri, off, len) = kind {
                    if ri == i && len > 0 && p >= off / w.page && p <= (off + len - 1) / w.page {
                        allowed = true;
                    }
                }
                if !allowed && !w.bad16 {
                    let why = match kind {
                        Kind::NoWrite => "non-writing-operation-marked-page",
                        Kind::Maintenance => "maintenance-set-a-bit",
                        _ => "page-not-overlapping-the-write-marked",
                    };
                    w.fail("C16", &format!("{}/{}/{}", route, level, why), jobj! {"region" => i, "page_index" => p, "changed_pages" => J::A(changed_pages[i].iter().enumerate().filter(|(_, c)| **c).map(|(k, _)| J::from(k)).collect())});
                }
            }
        }
    }
    if any_changed && (kind == Kind::NoWrite || kind == Kind::Maintenance) {
        out::note("C05-16/non-writing-op-changed-bytes", jobj! {"route" => route});
    }
    if any_changed {
        out::count("ops_that_changed_bytes", 1);
    }
    w.snap_bytes = after_bytes;
    w.snap_bits = after_bits;
    PROBE_EVENTS.with(|t| t.borrow_mut().clear());
}

/// A descriptor-backed sink every write(2) to which fails (opened read-only: EBADF).
fn failing_fd_sink() -> std::fs::File {
    std::fs::File::open("/dev/zero").expect("open /dev/zero")
}

/// Scripted reader: delivers `first` bytes on the first call (through the slice's own write
/// path), then fails with a hard error. Each of the two steps is preceded by `eintr` calls that
/// report an interruption without touching the buffer (what a caller's stream over a socket does).
struct FailAfter {
    data: Vec<u8>,
    first: usize,
    calls: usize,
    eintr: usize,
    pending: usize,
}
impl ReadVolatile for FailAfter {
    fn read_volatile<B: BitmapSlice>(&mut self, buf: &mut VolatileSlice<B>) -> Result<usize, VolatileMemoryError> {
        if self.pending > 0 {
            self.pending -= 1;
            return Err(VolatileMemoryError::IOError(std::io::Error::from(std::io::ErrorKind::Interrupted)));
        }
        self.pending = self.eintr;
        self.calls += 1;
        if self.calls == 1 {
            let n = self.first.min(buf.len()).min(self.data.len());
            let mut s = &self.data[..n];
            return s.read_volatile(buf);
        }
        Err(VolatileMemoryError::IOError(std::io::Error::from_raw_os_error(libc::EIO)))
    }
}

const NTYPES: u64 = 6;
macro_rules! with_t {
    ($idx:expr, $f:ident, $($a:expr),*) => {
        match $idx % NTYPES {
            0 => $f::<u8, _>($($a),*, "u8"),
            1 => $f::<u16, _>($($a),*, "u16"),
            2 => $f::<u32, _>($($a),*, "u32"),
            3 => $f::<u64, _>($($a),*, "u64"),
            4 => $f::<u128, _>($($a),*, "u128"),
            _ => $f::<[u8; 3], _>($($a),*, "[u8;3]"),
        }
    };
}

fn typed_write<T: vm_memory::ByteValued, S: BitmapSlice>(s: &VolatileSlice<S>, off: usize, payload: &[u8], which: u64, r: &mut Rng, _tn: &str) -> &'static str {
    let es = size_of::<T>();
    match which {
        0 => {
            let _ = s.write_obj::<T>(t_from_bytes(&payload[..es]), off);
            "write_obj"
        }
        1 => {
            if let Ok(rf) = s.get_ref::<T>(off) {
                rf.store(t_from_bytes(&payload[..es]));
            }
            "VolatileRef::store"
        }
        2 => {
            let n = payload.len() / es;
            if let Ok(a) = s.get_array_ref::<T>(off, n) {
                if n > 0 {
                    let i = r.usize_below(n);
                    a.store(i, t_from_bytes(&payload[i * es..(i + 1) * es]));
                }
            }
            "VolatileArrayRef::store"
        }
        3 => {
            let n = payload.len() / es;
            if let Ok(a) = s.get_array_ref::<T>(off, n) {
                let extra = r.usize_below(3);
                let mut buf: Vec<T> = (0..n).map(|i| t_from_bytes::<T>(&payload[i * es..(i + 1) * es])).collect();
                for _ in 0..extra {
                    buf.push(T::zeroed());
                }
                let take = if r.chance(1, 3) && n > 0 { r.usize_below(n + 1) } else { buf.len() };
                a.copy_from(&buf[..take]);
            }
            "VolatileArrayRef::copy_from"
        }
        4 => {
            let n = payload.len() / es;
            if let Ok(a) = s.get_array_ref::<T>(off, n) {
                if n > 0 {
                    let i = r.usize_below(n);
                    a.ref_at(i).store(t_from_bytes(&payload[i * es..(i + 1) * es]));
                }
            }
            "ref_at.store"
        }
        _ => {
            // copy_from on the sub-slice starting at off; one time in two the destination is a
            // window whose length is NOT a multiple of the element size (or shorter than one
            // element) and the buffer holds more elements than fit: only whole elements are written
            let n = payload.len() / es;
            let buf: Vec<T> = (0..n).map(|i| t_from_bytes::<T>(&payload[i * es..(i + 1) * es])).collect();
            // (the window is SHORTER than the payload, so that every byte that can land is the
            // complement of what it lands on - the diff-driven oracle needs every written byte to change)
            if es > 1 && payload.len() >= es && r.chance(1, 2) {
                let k = payload.len().saturating_sub(1 + r.usize_below(2 * es));
                if let Ok(sub) = s.subslice(off, k) {
                    sub.copy_from(&buf);
                    return "copy_from(window-not-a-multiple-of-the-element)";
                }
            }
            if let Ok(sub) = s.offset(off) {
                sub.copy_from(&buf);
            }
            "copy_from"
        }
    }
}

fn typed_read<T: vm_memory::ByteValued, S: BitmapSlice>(s: &VolatileSlice<S>, off: usize, len: usize, which: u64, _r: &mut Rng, _tn: &str) -> &'static str {
    let es = size_of::<T>();
    match which {
        0 => {
            let _ = s.read_obj::<T>(off);
            "read_obj"
        }
        1 => {
            if let Ok(rf) = s.get_ref::<T>(off) {
                let _ = rf.load();
                let _ = rf.to_slice();
                let _ = rf.ptr_guard();
            }
            "VolatileRef::load"
        }
        2 => {
            let n = len / es;
            if let Ok(a) = s.get_array_ref::<T>(off, n) {
                if n > 0 {
                    let _ = a.load(n - 1);
                    let _ = a.ref_at(0).load();
                }
                let mut buf = vec![T::zeroed(); n + 1];
                let _ = a.copy_to(&mut buf);
                let _ = a.to_slice();
            }
            "VolatileArrayRef::load/copy_to"
        }
        _ => {
            if let Ok(sub) = s.offset(off) {
                let mut buf = vec![T::zeroed(); len / es + 1];
                let _ = sub.copy_to(&mut buf);
            }
            "copy_to"
        }
    }
}

/// One slice-level operation on `s` (= region `ri` at base offset `base`).
fn slice_op<B: Bitmap + 'static, S: BitmapSlice>(w: &mut World, gm: &GuestMemoryMmap<B>, s: &VolatileSlice<S>, ri: usize, base: usize, depth: usize, r: &mut Rng) {
    let sl = s.len();
    let off = match r.below(6) {
        0 => 0,
        1 => sl,
        2 => sl.saturating_sub(1),
        3 => sl + 1 + r.usize_below(4),
        _ => r.usize_below(sl + 1),
    };
    let room = sl.saturating_sub(off);
    let len = match r.below(8) {
        0 => 1,
        1 => room,
        2 => room + 1 + r.usize_below(4),
        3 => {
            // end exactly at a page end / one byte into the next page
            let x = base + off;
            let to_end = w.page - (x % w.page);
            to_end + r.usize_below(2)
        }
        4 => w.page + r.usize_below(3),
        5 => 0,
        _ => 1 + r.usize_below(room.min(64) + 2),
    };
    let payload = w.compl(ri, base + off, len.max(16));
    let dcls = match depth {
        0 => "d0",
        1 => "d1",
        2 | 3 => "d2-3",
        _ => "d4+",
    };
    let acc_bitmap = s.bitmap().clone();
    let accf = move |rel: usize| acc_bitmap.dirty_at(rel);
    let route: &str;
    let mut kind = Kind::Write;
    let k = r.below(100);
    match k {
        0..=7 => {
            let _ = s.write(&payload[..len], off);
            route = "write";
        }
        8..=13 => {
            let _ = s.write_slice(&payload[..len], off);
            route = "write_slice";
        }
        14..=33 => {
            let which = r.below(6);
            let t = r.below(NTYPES);
            let plen = len.min(room).max(16);
            let pl = w.compl(ri, base + off, plen);
            let pslice = if which < 2 { &pl[..16] } else { &pl[..len.min(room)] };
            route = with_t!(t, typed_write, s, off, pslice, which, r);
        }
        34..=39 => {
            // atomic store
            match r.below(4) {
                0 => {
                    let _ = s.store::<u8>(payload[0], off, Ordering::SeqCst);
                }
                1 => {
                    let _ = s.store::<u16>(u16::from_ne_bytes([payload[0], payload[1]]), off, Ordering::SeqCst);
                }
                2 => {
                    let _ = s.store::<u32>(u32::from_ne_bytes(payload[..4].try_into().unwrap()), off, Ordering::Relaxed);
                }
                _ => {
                    let _ = s.store::<u64>(u64::from_ne_bytes(payload[..8].try_into().unwrap()), off, Ordering::SeqCst);
                }
            }
            route = "atomic-store";
        }
        40..=45 => {
            // slice -> slice copy from a scratch buffer holding the complement
            let mut scratch = payload[..len].to_vec();
            let src = VolatileSlice::from(&mut scratch[..]);
            if let Ok(dst) = s.offset(off) {
                if r.chance(1, 2) {
                    src.copy_to_volatile_slice(dst);
                    route = "VolatileSlice::copy_to_volatile_slice";
                } else {
                    let a = src.get_array_ref::<u8>(0, len).unwrap();
                    a.copy_to_volatile_slice(dst);
                    route = "VolatileArrayRef::copy_to_volatile_slice";
                }
            } else {
                route = "copy_to_volatile_slice-offset-rejected";
                kind = Kind::NoWrite;
            }
        }
        46..=57 => {
            // stream into memory from in-memory readers
            // stream contents: a prefix of the complement payload, possibly shorter or (up to 2
            // bytes) longer than the requested count - every byte that can land differs from memory
            let extra = r.usize_below(3);
            let full = w.compl(ri, base + off, len + extra);
            let keep = if r.chance(1, 4) { r.usize_below(len + 1) } else { len + extra };
            let data = full[..keep.min(full.len())].to_vec();
            let exact = r.chance(1, 2);
            if r.chance(1, 2) {
                let mut src = &data[..];
                if exact {
                    let _ = s.read_exact_volatile_from(off, &mut src, len);
                    route = "read_exact_volatile_from(&[u8])";
                } else {
                    let _ = s.read_volatile_from(off, &mut src, len);
                    route = "read_volatile_from(&[u8])";
                }
            } else {
                let mut c = Cursor::new(data);
                if exact {
                    let _ = s.read_exact_volatile_from(off, &mut c, len);
                    route = "read_exact_volatile_from(Cursor)";
                } else {
                    let _ = s.read_volatile_from(off, &mut c, len);
                    route = "read_volatile_from(Cursor)";
                }
            }
        }
        58..=63 if !cfg!(miri) => {
            // real descriptor
            let mut f = temp_file(0);
            f.write_all(&payload[..len]).unwrap();
            f.seek(SeekFrom::Start(0)).unwrap();
            if r.chance(1, 2) {
                let _ = s.read_volatile_from(off, &mut f, len);
                route = "read_volatile_from(File)";
            } else {
                let _ = s.read_exact_volatile_from(off, &mut f, len + r.usize_below(2));
                route = "read_exact_volatile_from(File)";
            }
        }
        64..=67 if !cfg!(miri) => {
            // failing descriptor: reading a directory fails with EISDIR
            let mut d = std::fs::File::open("/").unwrap();
            let res = s.read_volatile_from(off, &mut d, len);
            route = "read_volatile_from(failing-fd)";
            let tgt = len.min(room);
            kind = match res {
                Err(_) if off <= sl => Kind::FailedFdRead(ri, base + off, tgt),
                _ => Kind::Write,
            };
        }
        68..=71 => {
            let first = r.usize_below(len + 1);
            let eintr = if r.chance(1, 2) { 0 } else { 1 + r.usize_below(3) };
            let mut src = FailAfter { data: payload[..len].to_vec(), first, calls: 0, eintr, pending: eintr };
            let _ = s.read_exact_volatile_from(off, &mut src, len);
            route = if eintr == 0 { "read_exact_volatile_from(fails-after-partial-fill)" } else { "read_exact_volatile_from(eintr+partial-fill+eintr+hard-error)" };
        }
        // ---- non-writing operations
        72..=76 => {
            let mut buf = vec![0u8; len];
            let _ = if r.chance(1, 2) { s.read(&mut buf, off).map(|_| ()) } else { s.read_slice(&mut buf, off) };
            route = "read/read_slice";
            kind = Kind::NoWrite;
        }
        77..=84 => {
            let which = r.below(4);
            let t = r.below(NTYPES);
            route = with_t!(t, typed_read, s, off, len.min(room), which, r);
            kind = Kind::NoWrite;
        }
        85..=87 => {
            let _ = s.load::<u32>(off, Ordering::SeqCst);
            let _ = s.load::<u8>(off, Ordering::Relaxed);
            let _ = s.get_atomic_ref::<std::sync::atomic::AtomicU16>(off);
            route = "atomic-load/get_atomic_ref";
            kind = Kind::NoWrite;
        }
        88..=93 => {
            let mut sink: Vec<u8> = vec![];
            let mut arr = [0u8; 40];
            match r.below(4) {
                0 => {
                    let _ = s.write_volatile_to(off, &mut sink, len);
                }
                1 => {
                    let _ = s.write_all_volatile_to(off, &mut sink, len);
                }
                2 => {
                    let mut m = &mut arr[..];
                    let _ = s.write_volatile_to(off, &mut m, len);
                }
                _ => {
                    if !cfg!(miri) {
                        let mut f = temp_file(0);
                        let _ = s.write_all_volatile_to(off, &mut f, len.min(room));
                        // a descriptor write that FAILS still only reads guest memory
                        let mut bad = failing_fd_sink();
                        let e1 = s.write_volatile_to(off, &mut bad, len.min(room));
                        let e2 = s.write_all_volatile_to(off, &mut bad, len.min(room));
                        if len.min(room) > 0 && off < s.len() && (e1.is_ok() || e2.is_ok()) {
                            out::note("C05-16/write-to-read-only-descriptor-succeeded", J::Null);
                        }
                        out::count("failing_descriptor_writes", 2);
                    }
                }
            }
            route = "write_volatile_to/write_all_volatile_to";
            kind = Kind::NoWrite;
        }
        _ => {
            // derivations, guards and rejected requests
            let _ = s.subslice(off, len);
            let _ = s.offset(off);
            let _ = s.split_at(off);
            let _ = s.get_slice(off, len);
            let _ = s.ptr_guard();
            let _ = s.ptr_guard_mut();
            let _ = s.compute_end_offset(off, len);
            let _ = s.write_obj::<u64>(0, sl.saturating_sub(3).max(sl + 5)); // rejected: does not fit
            let _ = s.store::<u32>(7, sl + 8, Ordering::SeqCst);
            route = "derivations+rejected-requests";
            kind = Kind::NoWrite;
        }
    }
    w.trace.push(format!("slice[{}:{}+{}] {} off {} len {}", ri, base, sl, route, off, len));
    let rlen = w.regs[ri].1;
    out::key(&format!("{}|slice|{}|{}|{}|{}", route, dcls, page_class(w.page, rlen), straddle(w.page, base + off, len.min(room), rlen), w.flavor), true);
    judge(w, gm, route, "slice", kind, Some((ri, base, &accf)));
}

/// Derive a slice from region `ri` by a random chain and run `nops` slice-level operations on it.
fn derive_and_operate<B: Bitmap + 'static>(w: &mut World, gm: &GuestMemoryMmap<B>, ri: usize, r: &mut Rng, nops: u64) {
    let reg = gm.iter().nth(ri).unwrap();
    let rlen = w.regs[ri].1;
    // level 0: region-wide slice, three ways
    let mut cur: VolatileSlice<BS<B>> = match r.below(3) {
        0 => GuestMemoryRegion::as_volatile_slice(reg).unwrap(),
        1 => reg.get_slice(MemoryRegionAddress(0), rlen).unwrap(),
        _ => VolatileMemory::as_volatile_slice(&**reg),
    };
    let mut base = 0usize;
    let mut depth = 0usize;
    let steps = r.usize_below(6);
    for _ in 0..steps {
        let l = cur.len();
        // keep derived slices reasonably large: small, non-aligned shifts most of the time
        let o = if l == 0 {
            0
        } else if r.chance(3, 4) {
            r.usize_below(l.min(w.page + 3) + 1).min(l)
        } else {
            r.usize_below(l + 1)
        };
        let pick_c = |r: &mut Rng, rem: usize, page: usize| -> usize {
            if r.chance(3, 4) {
                rem - r.usize_below(rem.min(page + 3) + 1).min(rem)
            } else {
                r.usize_below(rem + 1)
            }
        };
        let next = match r.below(6) {
            0 => cur.offset(o).ok().map(|s| (s, o)),
            1 => {
                let c = pick_c(r, l - o, w.page);
                cur.subslice(o, c).ok().map(|s| (s, o))
            }
            2 => cur.split_at(o).ok().map(|(a, b)| if r.chance(1, 2) { (a, 0) } else { (b, o) }),
            3 => {
                let c = pick_c(r, l - o, w.page);
                // get_slice ties the result to a borrow of `cur`; go through subslice for the value
                // but also call get_slice so that its bitmap composition is exercised
                let g = cur.get_slice(o, c).map(|g| g.len());
                let _ = g;
                cur.subslice(o, c).ok().map(|s| (s, o))
            }
            4 => {
                // array ref of u16 -> to_slice
                let n = (l - o) / 2;
                match cur.get_array_ref::<u16>(o, n) {
                    Ok(a) => {
                        if n > 0 && r.chance(1, 2) {
                            let i = r.usize_below(n);
                            let rs = a.ref_at(i).to_slice();
                            // SAFETY-free re-derivation: same extent through subslice
                            let _ = rs.len();
                            cur.subslice(o + 2 * i, 2).ok().map(|s| (s, o + 2 * i))
                        } else {
                            let ts = a.to_slice();
                            let _ = ts.len();
                            cur.subslice(o, 2 * n).ok().map(|s| (s, o))
                        }
                    }
                    Err(_) => None,
                }
            }
            _ => {
                // typed ref -> to_slice (u64)
                if l - o >= 8 {
                    cur.subslice(o, 8).ok().map(|s| (s, o))
                } else {
                    None
                }
            }
        };
        if let Some((s, o)) = next {
            cur = s;
            base += o;
            depth += 1;
        }
    }
    // slices obtained through borrowed accessors (get_slice / array.to_slice / ref.to_slice /
    // ref_at.to_slice) are operated on directly as well
    for _ in 0..nops {
        if w.bad {
            return;
        }
        let l = cur.len();
        match r.below(8) {
            0 if l > 0 => {
                let o = r.usize_below(l);
                let c = r.usize_below(l - o + 1);
                if let Ok(g) = cur.get_slice(o, c) {
                    slice_op(w, gm, &g, ri, base + o, depth + 1, r);
                }
            }
            1 if l >= 4 => {
                let o = r.usize_below(l - 3);
                let n = (l - o) / 4;
                if let Ok(a) = cur.get_array_ref::<u32>(o, n) {
                    if r.chance(1, 2) {
                        let ts = a.to_slice();
                        slice_op(w, gm, &ts, ri, base + o, depth + 1, r);
                    } else {
                        let i = r.usize_below(n);
                        let ts = a.ref_at(i).to_slice();
                        slice_op(w, gm, &ts, ri, base + o + 4 * i, depth + 2, r);
                    }
                }
            }
            2 if l >= 8 => {
                let o = r.usize_below(l - 7);
                if let Ok(rf) = cur.get_ref::<u64>(o) {
                    let ts = rf.to_slice();
                    slice_op(w, gm, &ts, ri, base + o, depth + 1, r);
                }
            }
            _ => slice_op(w, gm, &cur, ri, base, depth, r),
        }
        out::eval(1);
    }
}

fn region_op<B: Bitmap + 'static>(w: &mut World, gm: &GuestMemoryMmap<B>, ri: usize, r: &mut Rng) {
    let reg = gm.iter().nth(ri).unwrap();
    let rlen = w.regs[ri].1;
    let off = match r.below(5) {
        0 => 0,
        1 => rlen,
        2 => rlen.saturating_sub(1),
        _ => r.usize_below(rlen + 1),
    };
    let room = rlen.saturating_sub(off);
    let len = match r.below(6) {
        0 => 1,
        1 => room,
        2 => room + 1 + r.usize_below(3),
        3 => w.page - (off % w.page) + r.usize_below(2),
        _ => 1 + r.usize_below(room.min(80) + 2),
    };
    let payload = w.compl(ri, off, len.max(16));
    let ma = MemoryRegionAddress(off as u64);
    let mut kind = Kind::Write;
    let route = match r.below(12) {
        0 => {
            let _ = reg.write(&payload[..len], ma);
            "write"
        }
        1 => {
            let _ = reg.write_slice(&payload[..len], ma);
            "write_slice"
        }
        2 => {
            let _ = reg.write_obj::<u64>(u64::from_ne_bytes(payload[..8].try_into().unwrap()), ma);
            "write_obj"
        }
        3 => {
            let _ = reg.store::<u32>(u32::from_ne_bytes(payload[..4].try_into().unwrap()), ma, Ordering::SeqCst);
            "atomic-store"
        }
        4 => {
            let mut src = &payload[..len];
            let _ = reg.read_volatile_from(ma, &mut src, len);
            "read_volatile_from(&[u8])"
        }
        5 => {
            let mut c = Cursor::new(payload[..len].to_vec());
            let _ = reg.read_exact_volatile_from(ma, &mut c, len);
            "read_exact_volatile_from(Cursor)"
        }
        6 if !cfg!(miri) => {
            let mut d = std::fs::File::open("/").unwrap();
            let res = reg.read_volatile_from(ma, &mut d, len);
            if res.is_err() && off <= rlen {
                kind = Kind::FailedFdRead(ri, off, len.min(room));
            }
            "read_volatile_from(failing-fd)"
        }
        7 => {
            let mut buf = vec![0u8; len];
            let _ = reg.read(&mut buf, ma);
            let _ = reg.read_obj::<u32>(ma);
            let _ = reg.load::<u16>(ma, Ordering::SeqCst);
            kind = Kind::NoWrite;
            "read/read_obj/load"
        }
        8 => {
            let mut sink: Vec<u8> = vec![];
            let _ = reg.write_volatile_to(ma, &mut sink, len);
            let _ = reg.write_all_volatile_to(ma, &mut sink, len);
            if !cfg!(miri) {
                let mut bad = failing_fd_sink();
                let _ = reg.write_volatile_to(ma, &mut bad, len);
                let _ = reg.write_all_volatile_to(ma, &mut bad, len);
                out::count("failing_descriptor_writes", 2);
            }
            kind = Kind::NoWrite;
            "write_volatile_to/write_all_volatile_to"
        }
        9 => {
            let _ = reg.get_host_address(ma);
            let _ = reg.check_address(ma);
            let _ = reg.get_slice(ma, len);
            let _ = reg.checked_offset(ma, len);
            kind = Kind::NoWrite;
            "queries"
        }
        _ => {
            // MmapRegion as VolatileMemory: typed ref / array through the region itself
            if let Ok(rf) = reg.get_ref::<u32>(off) {
                rf.store(u32::from_ne_bytes(payload[..4].try_into().unwrap()));
            }
            "MmapRegion::get_ref.store"
        }
    };
    w.trace.push(format!("region{} {} off {} len {}", ri, route, off, len));
    out::key(&format!("{}|region|{}|{}|{}", route, page_class(w.page, rlen), straddle(w.page, off, len.min(room), rlen), w.flavor), true);
    judge(w, gm, route, "region", kind, None);
}

fn guest_op<B: Bitmap + 'static>(w: &mut World, gm: &GuestMemoryMmap<B>, r: &mut Rng) {
    // pick an address near a region edge so that cross-region writes are frequent
    let ri = r.usize_below(w.regs.len());
    let (s, l, _) = w.regs[ri];
    let a = match r.below(6) {
        0 => s,
        1 => s + l as u64 - 1,
        2 => s + l as u64,
        3 => (s + l as u64).saturating_sub(1 + r.below(12)),
        4 => s.wrapping_sub(1),
        _ => s + r.below(l as u64),
    };
    let len = match r.below(5) {
        0 => 1,
        1 => 2 + r.usize_below(30),
        2 => l + 2,
        3 => w.page + 1,
        _ => 1 + r.usize_below(2 * l.min(200) + 2),
    };
    let payload = w.compl_guest(a, len.max(16));
    let ga = GuestAddress(a);
    let mut kind = Kind::Write;
    let route = match r.below(11) {
        0 => {
            let _ = gm.write(&payload[..len], ga);
            "write"
        }
        1 => {
            let _ = gm.write_slice(&payload[..len], ga);
            "write_slice"
        }
        2 => {
            let _ = gm.write_obj::<[u64; 4]>(t_from_bytes(&w.compl_guest(a, 32)), ga);
            "write_obj"
        }
        3 => {
            let _ = gm.store::<u64>(u64::from_ne_bytes(payload[..8].try_into().unwrap()), ga, Ordering::SeqCst);
            "atomic-store"
        }
        4 => {
            let mut src = &payload[..len];
            let _ = gm.read_volatile_from(ga, &mut src, len);
            "read_volatile_from(&[u8])"
        }
        5 => {
            let mut c = Cursor::new(payload[..len].to_vec());
            let _ = gm.read_exact_volatile_from(ga, &mut c, len);
            "read_exact_volatile_from(Cursor)"
        }
        6 if !cfg!(miri) => {
            let mut f = temp_file(0);
            f.write_all(&payload[..len]).unwrap();
            f.seek(SeekFrom::Start(0)).unwrap();
            let _ = gm.read_exact_volatile_from(ga, &mut f, len);
            "read_exact_volatile_from(File)"
        }
        7 => {
            let mut buf = vec![0u8; len];
            let _ = gm.read(&mut buf, ga);
            let _ = gm.read_slice(&mut buf, ga);
            let _ = gm.read_obj::<u128>(ga);
            let _ = gm.load::<u32>(ga, Ordering::SeqCst);
            kind = Kind::NoWrite;
            "read/read_slice/read_obj/load"
        }
        8 => {
            let mut sink: Vec<u8> = vec![];
            let _ = gm.write_volatile_to(ga, &mut sink, len);
            let _ = gm.write_all_volatile_to(ga, &mut sink, len);
            if !cfg!(miri) {
                let mut bad = failing_fd_sink();
                let _ = gm.write_volatile_to(ga, &mut bad, len);
                let _ = gm.write_all_volatile_to(ga, &mut bad, len);
                out::count("failing_descriptor_writes", 2);
            }
            kind = Kind::NoWrite;
            "write_volatile_to/write_all_volatile_to"
        }
        9 => {
            let _ = gm.find_region(ga);
            let _ = gm.check_range(ga, len);
            let _ = gm.get_slice(ga, len);
            let _ = gm.get_host_address(ga);
            let _ = gm.checked_offset(ga, len);
            let _ = gm.to_region_addr(ga);
            kind = Kind::NoWrite;
            "queries"
        }
        _ => {
            // slice obtained at guest level, then written
            if let Ok(sl) = gm.get_slice(ga, len.min(8)) {
                let _ = sl.write(&payload[..len.min(8)], 0);
            }
            "get_slice.write"
        }
    };
    w.trace.push(format!("guest {} addr {:#x} len {}", route, a, len));
    // does the range cross a region boundary?
    let crosses = w.regs.iter().filter(|(s, l, _)| (a as u128) < *s as u128 + *l as u128 && (*s as u128) < a as u128 + len as u128).count();
    out::key(&format!("{}|guest|x{}|{}|{}", route, crosses, page_class(w.page, l), w.flavor), true);
    judge(w, gm, route, "guest", kind, None);
}

fn maintenance<F: Flavor>(w: &mut World, gm: &GuestMemoryMmap<F::B>, r: &mut Rng) {
    let ri = r.usize_below(w.regs.len());
    let reg = gm.iter().nth(ri).unwrap();
    let Some(bm) = F::inner(reg.bitmap()) else { return };
    let rlen = w.regs[ri].1;
    let route = match r.below(4) {
        0 => {
            bm.reset();
            "reset"
        }
        1 => {
            let o = r.usize_below(rlen + 1);
            bm.reset_addr_range(o, r.usize_below(rlen - o + 2));
            "reset_addr_range"
        }
        2 => {
            let _ = bm.get_and_reset();
            "get_and_reset"
        }
        _ => {
            bm.reset_bit(r.usize_below(w.npages(ri) + 1));
            "reset_bit"
        }
    };
    w.trace.push(format!("region{} bitmap {}", ri, route));
    out::key(&format!("{}|maintenance|{}", route, w.flavor), true);
    judge(w, gm, route, "bitmap", Kind::Maintenance, None);
}

fn history<F: Flavor + XenMake>(case: u64, args: &Args) {
    let mut r = Rng::new(args.seed(), "c05", case);
    let nreg = 1 + r.usize_below(3);
    let first_len = match r.below(6) {
        0 => 1 + r.usize_below(8),
        1 if !cfg!(miri) => 4096,
        2 if !cfg!(miri) => 4096 + r.usize_below(5000),
        _ => 1 + r.usize_below(if cfg!(miri) { 90 } else { 600 }),
    };
    #[cfg(feature = "xen")]
    let first_len = if first_len < 4096 && r.chance(1, 2) { 4096 * (1 + r.usize_below(3)) + r.usize_below(300) } else { first_len };
    let page = match r.below(14) {
        0 => 1,
        1 => 2,
        2 => 3,
        3 => 7,
        4 => 8,
        5 => 16,
        6 => 64,
        7 => 100,
        8 => 4096,
        9 => first_len.saturating_sub(1).max(1),
        10 => first_len,
        11 => first_len + 1,
        12 => 2 * first_len,
        _ => 1 + r.usize_below(40),
    };
    // Xen build: the page size is whatever NewBitmap::with_len chose (the system page size)
    #[cfg(feature = "xen")]
    let page = {
        let _ = page;
        4096usize
    };
    let mut start = *r.pick(&[0u64, 0x1000, 0x7fff_f000]);
    let mut regions = vec![];
    let mut regs = vec![];
    for i in 0..nreg {
        let len = if i == 0 { first_len } else { 1 + r.usize_below(if cfg!(miri) { 60 } else { 300 }) };
        let reg = make_region::<F>(start, len, page, &mut r);
        regs.push((start, len, reg.as_ptr()));
        regions.push(reg);
        start += len as u64 + *r.pick(&[0u64, 0, 0, 1, 4096]);
    }
    let gm = GuestMemoryMmap::from_regions(regions).unwrap();
    let mut w = World { regs, page, tracked: vec![], snap_bytes: vec![], snap_bits: vec![], flavor: F::NAME, trace: vec![], bad: false, bad05: false, bad16: false, probe: vec![] };
    PROBE_REGIONS.with(|t| t.borrow_mut().clear());
    PROBE_EVENTS.with(|t| t.borrow_mut().clear());
    for (i, reg) in gm.iter().enumerate() {
        w.tracked.push(F::inner(reg.bitmap()).is_some());
        w.probe.push(F::probe_id(reg.bitmap()));
        if let Some(id) = F::probe_id(reg.bitmap()) {
            PROBE_REGIONS.with(|t| t.borrow_mut().push((id, w.regs[i].2 as usize, w.regs[i].1, page)));
        }
        let (_, l, p) = w.regs[i];
        let init = r.bytes(l);
        for (k, b) in init.iter().enumerate() {
            unsafe { p.add(k).write_volatile(*b) };
        }
        w.snap_bytes.push(init);
        w.snap_bits.push(read_bits(reg, page, l.div_ceil(page)));
    }
    if w.snap_bits.iter().any(|b| b.iter().any(|x| *x)) {
        w.fail("C16", "fresh-region-has-dirty-pages", J::Null);
        return;
    }
    let nops = r.range(args.u64("minops", 30), args.u64("maxops", 120));
    out::case(case, jobj! {"op" => "history", "flavor" => F::NAME, "page" => page, "regions" => nreg, "ops" => nops});
    let mut done = 0;
    while done < nops && !w.bad {
        match r.below(100) {
            0..=54 => {
                let ri = r.usize_below(nreg);
                let k = 1 + r.below(4);
                derive_and_operate(&mut w, &gm, ri, &mut r, k);
                done += k;
            }
            55..=72 => {
                let ri = r.usize_below(nreg);
                region_op(&mut w, &gm, ri, &mut r);
                done += 1;
                out::eval(1);
            }
            73..=92 => {
                guest_op(&mut w, &gm, &mut r);
                done += 1;
                out::eval(1);
            }
            _ => {
                maintenance::<F>(&mut w, &gm, &mut r);
                done += 1;
                out::eval(1);
            }
        }
    }
    if out::want_sample() {
        out::sample(jobj! {"flavor" => F::NAME, "page" => page, "regions" => J::A(w.regs.iter().map(|(s, l, _)| J::S(format!("{:#x}+{}", s, l))).collect()), "first_ops" => w.trace.iter().take(8).cloned().collect::<Vec<String>>()});
    }
}

/// A region with more than 2^32 pages (page size 1, 4 GiB + 64 KiB, never touched except where
/// written): writes at and around page index 2^32 at guest-memory, region and slice level must be
/// reported dirty at their own offsets [C05] and nowhere else - in particular not at the low
/// offsets they would alias to under 32-bit index arithmetic [C16].
#[cfg(not(feature = "xen"))]
fn huge_region() {
    use vm_memory::mmap::MmapRegionBuilder;
    let len = (1usize << 32) + (64 << 10);
    let lim = 1usize << 32;
    let reg = match MmapRegionBuilder::new_with_bitmap(len, AtomicBitmap::new(len, NonZeroUsize::new(1).unwrap()))
        .with_mmap_prot(libc::PROT_READ | libc::PROT_WRITE)
        .with_mmap_flags(libc::MAP_ANONYMOUS | libc::MAP_PRIVATE | libc::MAP_NORESERVE)
        .build()
    {
        Ok(r) => r,
        Err(e) => {
            out::note("C05-16/huge-region-not-available", J::dbg(&e));
            return;
        }
    };
    let gm = GuestMemoryMmap::from_regions(vec![GuestRegionMmap::new(reg, GuestAddress(0x1_0000_0000)).unwrap()]).unwrap();
    let region = gm.iter().next().unwrap();
    let bm = region.bitmap();
    let mut want: std::collections::BTreeSet<usize> = Default::default();
    let check = |want: &std::collections::BTreeSet<usize>, ctx: &str| -> bool {
        let mut pts: Vec<usize> = vec![0, 1, 0x1234, 0x1238, lim - 9, lim - 1, lim, lim + 1, lim + 7, lim + 0x1234, lim + 0x1240, len - 1];
        pts.extend(want.iter().flat_map(|p| [*p, p.wrapping_sub(1), p + 1, p % lim, p.wrapping_sub(lim)]));
        // both verdict streams are judged independently (first witness of each)
        let (mut clean_bad, mut extra_bad) = (false, false);
        for p in pts {
            if p >= len {
                continue;
            }
            let w = want.contains(&p);
            if bm.dirty_at(p) != w {
                if w && !clean_bad {
                    clean_bad = true;
                    out::viol(&format!("C05/huge-region/{}/changed-byte-reported-clean", ctx), jobj! {"offset" => p});
                } else if !w && !extra_bad {
                    extra_bad = true;
                    out::viol(&format!("C16/huge-region/{}/page-not-overlapping-the-write-marked", ctx), jobj! {"offset" => p});
                }
            }
        }
        !(clean_bad || extra_bad)
    };
    let base = 0x1_0000_0000u64;
    // (name, offset, length, route)
    let writes: Vec<(&str, usize, usize, u8)> = vec![
        ("guest.write_obj<u64>-above-2^32", lim + 0x1234, 8, 0),
        ("guest.write_slice-straddling-2^32", lim - 3, 8, 1),
        ("region.write-above-2^32", lim + 0x2000, 5, 2),
        ("slice.write_obj<u32>-above-2^32", lim + 0x3003, 4, 3),
        ("guest.store<u64>-above-2^32", lim + 0x4000, 8, 4),
        ("region.write-at-low-alias", 0x1230, 6, 2),
        ("guest.write_obj<u64>-at-2^32", lim, 8, 0),
    ];
    for (name, off, n, route) in writes {
        let data: Vec<u8> = (0..n).map(|i| 0xc3u8 ^ i as u8).collect();
        let ga = GuestAddress(base + off as u64);
        let ok = match route {
            0 => gm.write_obj::<u64>(u64::from_ne_bytes(data[..8].try_into().unwrap()), ga).is_ok(),
            1 => gm.write_slice(&data, ga).is_ok(),
            2 => region.write(&data, MemoryRegionAddress(off as u64)).map_or(false, |k| k == n),
            3 => region.get_slice(MemoryRegionAddress(off as u64 - 1), n + 2).map_or(false, |s| s.write_obj::<u32>(u32::from_ne_bytes(data[..4].try_into().unwrap()), 1).is_ok()),
            _ => gm.store::<u64>(u64::from_ne_bytes(data[..8].try_into().unwrap()), ga, Ordering::SeqCst).is_ok(),
        };
        if !ok {
            out::viol(&format!("C05/huge-region/{}/write-refused", name), J::Null);
            return;
        }
        want.extend(off..off + n);
        if !check(&want, name) {
            return;
        }
        out::key(&format!("huge-region|{}", name), true);
        out::eval(1);
    }
    // partial reset above 2^32, then a write into the same place
    bm.reset_addr_range(lim + 0x1234, 8);
    for p in lim + 0x1234..lim + 0x123c {
        want.remove(&p);
    }
    check(&want, "reset_addr_range-above-2^32");
    let _ = gm.write_obj::<u16>(0x0102, GuestAddress(base + (lim + 0x1236) as u64));
    want.extend([lim + 0x1236, lim + 0x1237]);
    check(&want, "guest.write_obj<u16>-after-reset-above-2^32");
    out::count("huge_region_bytes", len as i128);
}

/// Store-buffer litmus for "write, then mark" against "clear, then copy" (a migration round):
/// a writer stores new bytes into a page that is already dirty and marks it; concurrently a
/// harvester clears the page's bit and then copies the page. Whatever the interleaving, a page
/// that ends the round CLEAN must have been copied with the new bytes (otherwise the write is
/// lost to the migration). Real threads on real hardware: this is the one place where the
/// ordering strength of the mark (a full barrier between the data store and the bitmap access)
/// is observable.
fn harvest_litmus(rounds: u64) {
    use std::sync::atomic::{AtomicU64 as A64, Ordering as O};
    let reg = make_region::<FAtomic>(0x1000, 4096, 4096, &mut Rng::new(1, "litmus", 0));
    let gm = std::sync::Arc::new(GuestMemoryMmap::from_regions(vec![reg]).unwrap());
    let phase = std::sync::Arc::new(A64::new(0));
    let copied = std::sync::Arc::new(A64::new(0));
    let lost = std::sync::Arc::new(A64::new(0));
    let first = std::sync::Arc::new(A64::new(u64::MAX));
    let g2 = gm.clone();
    let (p2, c2) = (phase.clone(), copied.clone());
    // harvester thread
    let h = std::thread::spawn(move || {
        let region = g2.iter().next().unwrap();
        let host = region.as_ptr() as *const u64;
        for r in 1..=rounds {
            while p2.load(O::Acquire) != 2 * r - 1 {
                std::hint::spin_loop();
            }
            // clear, then copy
            region.bitmap().reset_addr_range(0, 4096);
            // SAFETY: inside the region; a plain (volatile) read as a migration thread would do.
            let v = unsafe { host.add(8).read_volatile() };
            c2.store(v, O::Release);
            p2.store(2 * r, O::Release);
        }
    });
    let region = gm.iter().next().unwrap();
    for r in 1..=rounds {
        // the page starts the round dirty
        region.bitmap().set_addr_range(0, 1);
        phase.store(2 * r - 1, O::Release);
        // write, then mark (both inside write_obj)
        let _ = gm.write_obj::<u64>(r, GuestAddress(0x1000 + 64));
        while phase.load(O::Acquire) != 2 * r {
            std::hint::spin_loop();
        }
        let clean = !region.bitmap().dirty_at(64);
        if clean && copied.load(O::Acquire) != r {
            if lost.fetch_add(1, O::Relaxed) == 0 {
                first.store(r, O::Relaxed);
            }
        }
    }
    let _ = h.join();
    let l = lost.load(O::Relaxed);
    if l > 0 {
        out::viol("C05/litmus/page-left-clean-although-the-copy-misses-the-write", jobj! {"rounds" => rounds, "lost_writes" => l, "first_round" => first.load(O::Relaxed)});
    }
    // CONTROL (harness-side, no library code): the same protocol with a marker that SKIPS the
    // read-modify-write when the bit already reads as set (relaxed load) - the weakened form a
    // "test before test-and-set" optimisation would have. Shows how often this machine, under this
    // load, loses a write with it; the litmus above is only informative if this is not zero.
    {
        static DATA: A64 = A64::new(0);
        static PAD: [A64; 16] = [const { A64::new(0) }; 16];
        static BIT: A64 = A64::new(0);
        let _ = &PAD;
        let crounds = (rounds / 3).max(1);
        let phase = std::sync::Arc::new(A64::new(0));
        let copied = std::sync::Arc::new(A64::new(0));
        let (p2, c2) = (phase.clone(), copied.clone());
        let h = std::thread::spawn(move || {
            for r in 1..=crounds {
                while p2.load(O::Acquire) != 2 * r - 1 {
                    std::hint::spin_loop();
                }
                BIT.fetch_and(0, O::SeqCst);
                c2.store(DATA.load(O::Relaxed), O::Release);
                p2.store(2 * r, O::Release);
            }
        });
        let mut seen = 0u64;
        for r in 1..=crounds {
            BIT.store(1, O::SeqCst);
            phase.store(2 * r - 1, O::Release);
            DATA.store(r, O::Relaxed);
            if BIT.load(O::Relaxed) == 0 {
                BIT.fetch_or(1, O::SeqCst);
            }
            while phase.load(O::Acquire) != 2 * r {
                std::hint::spin_loop();
            }
            if BIT.load(O::SeqCst) == 0 && copied.load(O::Acquire) != r {
                seen += 1;
            }
        }
        let _ = h.join();
        out::count("harvest_litmus_control_rounds", crounds as i128);
        out::count("harvest_litmus_control_lost_writes", seen as i128);
        if seen == 0 {
            out::note("harvest-litmus-control-lost-nothing", jobj! {"control_rounds" => crounds, "meaning" => "the weakened control never lost a write in this run: the harvest litmus was not discriminating here"});
        }
    }
    out::count("harvest_litmus_rounds", rounds as i128);
    out::key("litmus|write-then-mark-vs-clear-then-copy", true);
    out::eval(rounds);
}

/// WEAK-MEMORY litmus for the interpreter (Miri models C++20 atomics; x86 hardware cannot show
/// this): one tracked write whose pages span TWO bitmap words, a harvester that takes the words one
/// by one and, for every page it found dirty, reads the page's bytes the way a migration thread
/// would. Finding a page dirty must order the harvester's read after the write - for every word
/// the mark touched, not only the first: a stale byte is a violation here, and a mark published
/// with too weak an ordering is reported by the interpreter itself as a data race.
#[cfg(miri)]
fn weak_memory_litmus(rounds: u64) {
    let reg = make_region::<FAtomic>(0x1000, 192, 1, &mut Rng::new(1, "wm-litmus", 0));
    let gm = std::sync::Arc::new(GuestMemoryMmap::from_regions(vec![reg]).unwrap());
    for r in 1..=rounds {
        let val = 0x0101_0101_0101_0101u64 * (r & 0x7f | 0x80);
        let g2 = gm.clone();
        let w = std::thread::spawn(move || {
            // bytes 60..68: pages 60..=63 in word 0, pages 64..=67 in word 1
            let _ = g2.write_obj::<u64>(val, GuestAddress(0x1000 + 60));
        });
        let region = gm.iter().next().unwrap();
        let host = region.as_ptr();
        let mut seen = 0u32;
        for _ in 0..40 {
            let words = match inner_of(region.bitmap()) {
                Some(ab) => ab.get_and_reset(),
                None => return,
            };
            for p in 60..68usize {
                if words[p / 64] >> (p % 64) & 1 == 1 {
                    // SAFETY: inside the region; a plain read as a migration thread would do it.
                    let b = unsafe { host.add(p).read_volatile() };
                    seen += 1;
                    if b != val as u8 {
                        out::viol("C05/weak-memory-litmus/page-found-dirty-but-its-bytes-are-stale", jobj! {"round" => r, "page" => p, "byte" => b, "written" => val as u8});
                        let _ = w.join();
                        return;
                    }
                }
            }
            if seen >= 8 {
                break;
            }
            std::thread::yield_now();
        }
        let _ = w.join();
        out::eval(1);
    }
    out::key("weak-memory-litmus|write-spanning-two-bitmap-words", true);
    out::count("weak_memory_litmus_rounds", rounds as i128);
}

#[cfg(miri)]
fn inner_of<B: Bitmap + 'static>(b: &B) -> Option<&AtomicBitmap> {
    (b as &dyn std::any::Any).downcast_ref::<AtomicBitmap>()
}

pub fn run(args: &Args) {
    #[cfg(miri)]
    if args.flag("wmlitmus") {
        weak_memory_litmus(args.u64("wmlitmus", 3));
        return;
    }
    #[cfg(not(feature = "xen"))]
    if args.shard().0 == 2 % args.shard().1 && !cfg!(miri) && !args.flag("nolitmus") {
        harvest_litmus(args.u64("litmus", 3_000_000));
    }
    #[cfg(not(feature = "xen"))]
    if args.shard().0 == 0 && !cfg!(miri) && !args.flag("nohuge") {
        if let Err(p) = guarded(huge_region) {
            out::viol(&format!("C05/panic/huge-region/{}", panic_sig(&p)), J::s(p.clone()));
            out::viol(&format!("C16/panic/huge-region/{}", panic_sig(&p)), J::s(p));
        }
    }
    out::set_quiet_cases(true);
    for case in args.cases(4000) {
        #[cfg(not(feature = "xen"))]
        let res = guarded(|| match case % 4 {
            0 => history::<FAtomic>(case, args),
            1 => history::<FOption>(case, args),
            2 => history::<FProbe>(case, args),
            _ => history::<FArc>(case, args),
        });
        #[cfg(feature = "xen")]
        let res = guarded(|| match case % 3 {
            0 => history::<FAtomic>(case, args),
            1 => history::<FProbe>(case, args),
            _ => history::<FArc>(case, args),
        });
        if let Err(p) = res {
            out::viol(&format!("C05/panic/{}", panic_sig(&p)), jobj! {"panic" => p.clone(), "case" => case});
            out::viol(&format!("C16/panic/{}", panic_sig(&p)), jobj! {"panic" => p, "case" => case});
        }
    }
}
