//! C19 — address arithmetic reports overflow instead of wrapping.
//! Oracle: exact arithmetic in u128 / i128.

use crate::common::out::{self, J};
use crate::common::prng::Rng;
use crate::common::{guarded, Args};
use vm_memory::{Address, GuestAddress, MemoryRegionAddress};

fn class(v: u64) -> &'static str {
    if v <= 16 {
        "0+"
    } else if v >= u64::MAX - 16 {
        "2^64-"
    } else if (v as i128 - (1i128 << 32)).abs() <= 16 {
        "2^32"
    } else if (v as i128 - (1i128 << 63)).abs() <= 16 {
        "2^63"
    } else if v.count_ones() <= 2 || (v.wrapping_add(8) & v.wrapping_add(8).wrapping_sub(16)).count_ones() <= 2 {
        "2^k+-d"
    } else {
        "other"
    }
}

fn operands() -> Vec<u64> {
    let mut v: Vec<u64> = (0..=16).collect();
    for c in [1u128 << 32, 1u128 << 63] {
        for d in -16i128..=16 {
            v.push((c as i128 + d) as u64);
        }
    }
    for d in 0..16u64 {
        v.push(u64::MAX - d);
    }
    // every power of two +- a little, and sums of two neighbouring powers (operands that differ in
    // a few bits around ANY bit position: partial-width fast paths, mistyped masks)
    for k in 1..64u32 {
        let b = 1u64 << k;
        for d in [0u64, 1, 2, 5, 7] {
            v.push(b.wrapping_add(d));
            v.push(b.wrapping_sub(d));
        }
        if k < 63 {
            v.push(b | (b << 1));
            v.push((b | (b << 1)).wrapping_add(5));
        }
    }
    v.sort();
    v.dedup();
    v
}

fn fail(ty: &str, op: &str, a: u64, b: u64, got: String, want: String) {
    out::viol(
        &format!("C19/{}/{}", ty, op),
        jobj! {"a" => a, "b" => b, "got" => got, "want" => want},
    );
}

/// The checks are instantiated per CONCRETE address type with method-call syntax (so that an
/// inherent method shadowing the trait's would be the one checked, exactly as user code would
/// reach it) and, separately, generically through the `Address` trait.
macro_rules! concrete_checks {
    ($m:ident, $A:ty) => {
        mod $m {
            #![allow(clippy::all)]
            use super::*;
pub fn check_pair(ty: &str, a: u64, b: u64) {
    let x = <$A>::new(a);
    let sum = a as u128 + b as u128;
    let diff = a as i128 - b as i128;
    let fits_sum = sum <= u64::MAX as u128;
    let fits_diff = diff >= 0;
    let key = |op: &str, outcome: &str| {
        out::key(&format!("{}|{}|{}|{}|{}", ty, op, class(a), class(b), outcome), true);
    };

    // raw value round trip
    if x.raw_value() != a {
        fail(ty, "new/raw_value", a, b, format!("{}", x.raw_value()), format!("{}", a));
    }
    // checked_add
    let got = x.checked_add(b).map(|r| r.raw_value());
    let want = if fits_sum { Some(sum as u64) } else { None };
    if got != want {
        fail(ty, "checked_add", a, b, format!("{:?}", got), format!("{:?}", want));
    }
    key("checked_add", if fits_sum { "some" } else { "none" });
    // overflowing_add
    let (r, o) = x.overflowing_add(b);
    if r.raw_value() != sum as u64 || o != !fits_sum {
        fail(ty, "overflowing_add", a, b, format!("({},{})", r.raw_value(), o), format!("({},{})", sum as u64, !fits_sum));
    }
    key("overflowing_add", if fits_sum { "fit" } else { "wrap" });
    // checked_sub
    let got = x.checked_sub(b).map(|r| r.raw_value());
    let want = if fits_diff { Some(diff as u64) } else { None };
    if got != want {
        fail(ty, "checked_sub", a, b, format!("{:?}", got), format!("{:?}", want));
    }
    key("checked_sub", if fits_diff { "some" } else { "none" });
    // overflowing_sub
    let (r, o) = x.overflowing_sub(b);
    if r.raw_value() != diff as u64 || o != !fits_diff {
        fail(ty, "overflowing_sub", a, b, format!("({},{})", r.raw_value(), o), format!("({},{})", diff as u64, !fits_diff));
    }
    key("overflowing_sub", if fits_diff { "fit" } else { "wrap" });
    // checked_offset_from
    let got = x.checked_offset_from(<$A>::new(b));
    let want = if fits_diff { Some(diff as u64) } else { None };
    if got != want {
        fail(ty, "checked_offset_from", a, b, format!("{:?}", got), format!("{:?}", want));
    }
    key("checked_offset_from", if fits_diff { "some" } else { "none" });
    // unchecked forms where the exact result fits (otherwise documented to follow Rust's overflow behaviour)
    if fits_sum {
        let r = x.unchecked_add(b).raw_value();
        if r != sum as u64 {
            fail(ty, "unchecked_add", a, b, format!("{}", r), format!("{}", sum));
        }
    }
    if fits_diff {
        let r = x.unchecked_sub(b).raw_value();
        if r != diff as u64 {
            fail(ty, "unchecked_sub", a, b, format!("{}", r), format!("{}", diff));
        }
        let r = x.unchecked_offset_from(<$A>::new(b));
        if r != diff as u64 {
            fail(ty, "unchecked_offset_from", a, b, format!("{}", r), format!("{}", diff));
        }
    }
    // bit operations on the raw value
    if x.mask(b) != a & b {
        fail(ty, "mask", a, b, format!("{}", x.mask(b)), format!("{}", a & b));
    }
    if (x & b).raw_value() != a & b {
        fail(ty, "bitand", a, b, format!("{}", (x & b).raw_value()), format!("{}", a & b));
    }
    if (x | b).raw_value() != a | b {
        fail(ty, "bitor", a, b, format!("{}", (x | b).raw_value()), format!("{}", a | b));
    }
    key("bitops", "raw");
    // ordering / equality follow the raw values
    let y = <$A>::new(b);
    if x.cmp(&y) != a.cmp(&b) || x.partial_cmp(&y) != Some(a.cmp(&b)) {
        fail(ty, "cmp", a, b, format!("{:?}", x.cmp(&y)), format!("{:?}", a.cmp(&b)));
    }
    if (x == y) != (a == b) || (x != y) != (a != b) || (x < y) != (a < b) || (x <= y) != (a <= b) || (x > y) != (a > b) || (x >= y) != (a >= b) {
        fail(ty, "relops", a, b, "mismatch".into(), "raw comparison".into());
    }
    if x.max(y).raw_value() != a.max(b) || x.min(y).raw_value() != a.min(b) || x.clone().raw_value() != a {
        fail(ty, "max/min/clone", a, b, format!("{} {}", x.max(y).raw_value(), x.min(y).raw_value()), format!("{} {}", a.max(b), a.min(b)));
    }
    key("cmp", match a.cmp(&b) {
        std::cmp::Ordering::Less => "lt",
        std::cmp::Ordering::Equal => "eq",
        std::cmp::Ordering::Greater => "gt",
    });
    out::eval(1);
}

pub fn check_align(ty: &str, a: u64) {
    let x = <$A>::new(a);
    for k in 0..64u32 {
        let p = 1u64 << k;
        let exact = (a as u128).div_ceil(p as u128) * p as u128;
        let want = if exact <= u64::MAX as u128 { Some(exact as u64) } else { None };
        let got = x.checked_align_up(p).map(|r| r.raw_value());
        if got != want {
            fail(ty, "checked_align_up", a, p, format!("{:?}", got), format!("{:?}", want));
        }
        out::key(&format!("{}|align|{}|k{}|{}", ty, class(a), k, if want.is_some() { "some" } else { "none" }), true);
        // exactness properties (independent formulation): multiple of p, >= a, < a + p
        if let Some(g) = got {
            if g % p != 0 || g < a || (g as u128) >= a as u128 + p as u128 {
                fail(ty, "checked_align_up/least-multiple", a, p, format!("{}", g), "least multiple of p not below a".into());
            }
        }
        if let Some(w) = want {
            // unchecked form is pinned only where a + (p-1) does not overflow
            if (a as u128 + (p - 1) as u128) <= u64::MAX as u128 {
                let r = x.unchecked_align_up(p).raw_value();
                if r != w {
                    fail(ty, "unchecked_align_up", a, p, format!("{}", r), format!("{}", w));
                }
            }
        }
        out::eval(1);
    }
    // documented assertion: non power of two must not silently produce a value
    for bad in [0u64, 3, 6, 12, u64::MAX] {
        let r = guarded(|| x.checked_align_up(bad));
        if let Ok(v) = r {
            out::viol(
                &format!("C19/{}/checked_align_up/non-power-of-two-accepted", ty),
                jobj! {"a" => a, "p" => bad, "got" => J::dbg(&v)},
            );
        }
    }
}

pub fn run_ty(ty: &str, args: &Args) {
    let ops = operands();
    if <$A>::default().raw_value() != 0 {
        fail(ty, "default", 0, 0, format!("{}", <$A>::default().raw_value()), "0".into());
    }
    for &a in &ops {
        for &b in &ops {
            check_pair(ty, a, b);
        }
        check_align(ty, a);
    }
    out::count("cross_product_pairs", (ops.len() * ops.len()) as i128);
    let n = args.u64("random", 1_000_000);
    let mut r = Rng::new(args.seed(), ty, 0);
    for i in 0..n {
        let (a, b) = match r.below(4) {
            0 => (r.next(), r.next()),
            1 => {
                let a = r.next();
                (a, a.wrapping_add(r.below(5)).wrapping_sub(2))
            }
            2 => {
                let a = r.next();
                (a, (!a).wrapping_add(r.below(5)).wrapping_sub(2))
            }
            _ => (r.next() >> r.below(64), r.next() >> r.below(64)),
        };
        check_pair(ty, a, b);
        if i % 64 == 0 {
            check_align(ty, a);
        }
    }
    out::count("random_pairs", n as i128);
}

        }
    };
}
concrete_checks!(concrete_guest, GuestAddress);
concrete_checks!(concrete_region, MemoryRegionAddress);

fn check_pair<A: Address<V = u64> + std::fmt::Debug>(ty: &str, a: u64, b: u64) {
    let x = A::new(a);
    let sum = a as u128 + b as u128;
    let diff = a as i128 - b as i128;
    let fits_sum = sum <= u64::MAX as u128;
    let fits_diff = diff >= 0;
    let key = |op: &str, outcome: &str| {
        out::key(&format!("{}|{}|{}|{}|{}", ty, op, class(a), class(b), outcome), true);
    };

    // raw value round trip
    if x.raw_value() != a {
        fail(ty, "new/raw_value", a, b, format!("{}", x.raw_value()), format!("{}", a));
    }
    // checked_add
    let got = x.checked_add(b).map(|r| r.raw_value());
    let want = if fits_sum { Some(sum as u64) } else { None };
    if got != want {
        fail(ty, "checked_add", a, b, format!("{:?}", got), format!("{:?}", want));
    }
    key("checked_add", if fits_sum { "some" } else { "none" });
    // overflowing_add
    let (r, o) = x.overflowing_add(b);
    if r.raw_value() != sum as u64 || o != !fits_sum {
        fail(ty, "overflowing_add", a, b, format!("({},{})", r.raw_value(), o), format!("({},{})", sum as u64, !fits_sum));
    }
    key("overflowing_add", if fits_sum { "fit" } else { "wrap" });
    // checked_sub
    let got = x.checked_sub(b).map(|r| r.raw_value());
    let want = if fits_diff { Some(diff as u64) } else { None };
    if got != want {
        fail(ty, "checked_sub", a, b, format!("{:?}", got), format!("{:?}", want));
    }
    key("checked_sub", if fits_diff { "some" } else { "none" });
    // overflowing_sub
    let (r, o) = x.overflowing_sub(b);
    if r.raw_value() != diff as u64 || o != !fits_diff {
        fail(ty, "overflowing_sub", a, b, format!("({},{})", r.raw_value(), o), format!("({},{})", diff as u64, !fits_diff));
    }
    key("overflowing_sub", if fits_diff { "fit" } else { "wrap" });
    // checked_offset_from
    let got = x.checked_offset_from(A::new(b));
    let want = if fits_diff { Some(diff as u64) } else { None };
    if got != want {
        fail(ty, "checked_offset_from", a, b, format!("{:?}", got), format!("{:?}", want));
    }
    key("checked_offset_from", if fits_diff { "some" } else { "none" });
    // unchecked forms where the exact result fits (otherwise documented to follow Rust's overflow behaviour)
    if fits_sum {
        let r = x.unchecked_add(b).raw_value();
        if r != sum as u64 {
            fail(ty, "unchecked_add", a, b, format!("{}", r), format!("{}", sum));
        }
    }
    if fits_diff {
        let r = x.unchecked_sub(b).raw_value();
        if r != diff as u64 {
            fail(ty, "unchecked_sub", a, b, format!("{}", r), format!("{}", diff));
        }
        let r = x.unchecked_offset_from(A::new(b));
        if r != diff as u64 {
            fail(ty, "unchecked_offset_from", a, b, format!("{}", r), format!("{}", diff));
        }
    }
    // bit operations on the raw value
    if x.mask(b) != a & b {
        fail(ty, "mask", a, b, format!("{}", x.mask(b)), format!("{}", a & b));
    }
    if (x & b).raw_value() != a & b {
        fail(ty, "bitand", a, b, format!("{}", (x & b).raw_value()), format!("{}", a & b));
    }
    if (x | b).raw_value() != a | b {
        fail(ty, "bitor", a, b, format!("{}", (x | b).raw_value()), format!("{}", a | b));
    }
    key("bitops", "raw");
    // ordering / equality follow the raw values
    let y = A::new(b);
    if x.cmp(&y) != a.cmp(&b) || x.partial_cmp(&y) != Some(a.cmp(&b)) {
        fail(ty, "cmp", a, b, format!("{:?}", x.cmp(&y)), format!("{:?}", a.cmp(&b)));
    }
    if (x == y) != (a == b) || (x != y) != (a != b) || (x < y) != (a < b) || (x <= y) != (a <= b) || (x > y) != (a > b) || (x >= y) != (a >= b) {
        fail(ty, "relops", a, b, "mismatch".into(), "raw comparison".into());
    }
    if x.max(y).raw_value() != a.max(b) || x.min(y).raw_value() != a.min(b) || x.clone().raw_value() != a {
        fail(ty, "max/min/clone", a, b, format!("{} {}", x.max(y).raw_value(), x.min(y).raw_value()), format!("{} {}", a.max(b), a.min(b)));
    }
    key("cmp", match a.cmp(&b) {
        std::cmp::Ordering::Less => "lt",
        std::cmp::Ordering::Equal => "eq",
        std::cmp::Ordering::Greater => "gt",
    });
    out::eval(1);
}

fn check_align<A: Address<V = u64> + std::fmt::Debug>(ty: &str, a: u64) {
    let x = A::new(a);
    for k in 0..64u32 {
        let p = 1u64 << k;
        let exact = (a as u128).div_ceil(p as u128) * p as u128;
        let want = if exact <= u64::MAX as u128 { Some(exact as u64) } else { None };
        let got = x.checked_align_up(p).map(|r| r.raw_value());
        if got != want {
            fail(ty, "checked_align_up", a, p, format!("{:?}", got), format!("{:?}", want));
        }
        out::key(&format!("{}|align|{}|k{}|{}", ty, class(a), k, if want.is_some() { "some" } else { "none" }), true);
        // exactness properties (independent formulation): multiple of p, >= a, < a + p
        if let Some(g) = got {
            if g % p != 0 || g < a || (g as u128) >= a as u128 + p as u128 {
                fail(ty, "checked_align_up/least-multiple", a, p, format!("{}", g), "least multiple of p not below a".into());
            }
        }
        if let Some(w) = want {
            // unchecked form is pinned only where a + (p-1) does not overflow
            if (a as u128 + (p - 1) as u128) <= u64::MAX as u128 {
                let r = x.unchecked_align_up(p).raw_value();
                if r != w {
                    fail(ty, "unchecked_align_up", a, p, format!("{}", r), format!("{}", w));
                }
            }
        }
        out::eval(1);
    }
    // documented assertion: non power of two must not silently produce a value
    for bad in [0u64, 3, 6, 12, u64::MAX] {
        let r = guarded(|| x.checked_align_up(bad));
        if let Ok(v) = r {
            out::viol(
                &format!("C19/{}/checked_align_up/non-power-of-two-accepted", ty),
                jobj! {"a" => a, "p" => bad, "got" => J::dbg(&v)},
            );
        }
    }
}

fn run_ty<A: Address<V = u64> + std::fmt::Debug>(ty: &str, args: &Args) {
    let ops = operands();
    if A::default().raw_value() != 0 {
        fail(ty, "default", 0, 0, format!("{}", A::default().raw_value()), "0".into());
    }
    for &a in &ops {
        for &b in &ops {
            check_pair::<A>(ty, a, b);
        }
        check_align::<A>(ty, a);
    }
    out::count("cross_product_pairs", (ops.len() * ops.len()) as i128);
    let n = args.u64("random", 1_000_000);
    let mut r = Rng::new(args.seed(), ty, 0);
    for i in 0..n {
        let (a, b) = match r.below(4) {
            0 => (r.next(), r.next()),
            1 => {
                let a = r.next();
                (a, a.wrapping_add(r.below(5)).wrapping_sub(2))
            }
            2 => {
                let a = r.next();
                (a, (!a).wrapping_add(r.below(5)).wrapping_sub(2))
            }
            _ => (r.next() >> r.below(64), r.next() >> r.below(64)),
        };
        check_pair::<A>(ty, a, b);
        if i % 64 == 0 {
            check_align::<A>(ty, a);
        }
    }
    out::count("random_pairs", n as i128);
}

pub fn run(args: &Args) {
    out::set_quiet_cases(true);
    // (a panic inside any operation - e.g. an arithmetic overflow in an overflow-checked build - is
    // a violation of "reports overflow instead of ...", not the end of the monitor)
    let mut guard = |ty: &str, f: &dyn Fn()| {
        if let Err(p) = crate::common::guarded(f) {
            out::viol(&format!("C19/{}/panic/{}", ty, crate::common::panic_sig(&p)), J::s(p));
        }
    };
    guard("GuestAddress", &|| concrete_guest::run_ty("GuestAddress", args));
    guard("MemoryRegionAddress", &|| concrete_region::run_ty("MemoryRegionAddress", args));
    guard("GuestAddress(via trait)", &|| run_ty::<GuestAddress>("GuestAddress(via trait)", args));
    guard("MemoryRegionAddress(via trait)", &|| run_ty::<MemoryRegionAddress>("MemoryRegionAddress(via trait)", args));
    let ops = operands();
    out::sample(jobj! {"type" => "GuestAddress", "a" => ops[ops.len() - 1], "b" => 1u64,
        "checked_add" => J::dbg(&GuestAddress(ops[ops.len() - 1]).checked_add(1)),
        "overflowing_add" => J::dbg(&GuestAddress(ops[ops.len() - 1]).overflowing_add(1))});
    out::sample(jobj! {"type" => "MemoryRegionAddress", "a" => 0u64, "b" => 1u64,
        "checked_sub" => J::dbg(&MemoryRegionAddress(0).checked_sub(1)),
        "checked_offset_from" => J::dbg(&MemoryRegionAddress(0).checked_offset_from(MemoryRegionAddress(1)))});
    out::sample(jobj! {"type" => "GuestAddress", "a" => u64::MAX - 2, "align" => 4u64,
        "checked_align_up" => J::dbg(&GuestAddress(u64::MAX - 2).checked_align_up(4))});
}
