//! C20 — endian wrappers keep their declared byte order for every value.
//! Oracle: to_le_bytes / to_be_bytes of std.

use crate::common::out::{self, J};
use crate::common::prng::Rng;
use crate::common::Args;
use std::mem::{align_of, size_of};
use std::sync::atomic::{AtomicU64, Ordering};
use vm_memory::{
    Be16, Be32, Be64, BeSize, ByteValued, Bytes, GuestAddress, GuestMemoryMmap, Le16, Le32, Le64,
    LeSize, VolatileSlice,
};

static FAILS: AtomicU64 = AtomicU64::new(0);

macro_rules! endian_checks {
    ($fname:ident, $W:ty, $N:ty, $to_bytes:ident, $name:expr) => {
        /// Returns the first failed check name, if any.
        #[inline]
        fn $fname(v: $N, partner: $N) -> Option<&'static str> {
            // black_box: make the optimiser evaluate the checks at run time instead of proving
            // them at compile time (for the unmodified wrappers LLVM can fold the whole loop away)
            let v = std::hint::black_box(v);
            let partner = std::hint::black_box(partner);
            let w: $W = std::hint::black_box(<$W>::from(v));
            if <$N>::from(w) != v {
                return Some("from/into round trip");
            }
            if w.to_native() != v {
                return Some("to_native");
            }
            if w.as_slice() != &v.$to_bytes()[..] {
                return Some("as_slice bytes");
            }
            if (w == partner) != (v == partner) {
                return Some("wrapper == native");
            }
            if (partner == w) != (v == partner) {
                return Some("native == wrapper");
            }
            if (w == <$W>::from(partner)) != (v == partner) {
                return Some("wrapper == wrapper");
            }
            // the negated operators are separate trait methods (`ne`) and must agree
            #[allow(clippy::nonminimal_bool)]
            {
                if (w != partner) != (v != partner) {
                    return Some("wrapper != native");
                }
                if (partner != w) != (v != partner) {
                    return Some("native != wrapper");
                }
                if (w != <$W>::from(partner)) != (v != partner) {
                    return Some("wrapper != wrapper");
                }
            }
            // a copy is the same value; Into agrees with to_native
            let c = std::hint::black_box(w.clone());
            if c.to_native() != v || c != w {
                return Some("clone");
            }
            let n: $N = w.into();
            if n != v {
                return Some("into native");
            }
            // clone_from over a destination holding another value (the partner: equal, swapped, ...)
            let mut d = std::hint::black_box(<$W>::from(partner));
            d.clone_from(&w);
            if d.to_native() != v || d != w || d.as_slice() != w.as_slice() {
                return Some("clone_from");
            }
            // every byte-level view the crate offers for the wrapper shows / accepts the wire bytes
            let wire = v.$to_bytes();
            let mut m = w;
            if m.as_mut_slice() != &wire[..] {
                return Some("as_mut_slice bytes");
            }
            {
                let vs = m.as_bytes();
                let mut seen = [0u8; std::mem::size_of::<$N>()];
                if vs.read_slice(&mut seen, 0).is_err() || seen != wire {
                    return Some("as_bytes view");
                }
            }
            match <$W>::from_slice(&wire[..]) {
                Some(r) if r.to_native() == v && *r == w => {}
                // from_slice may refuse a misaligned slice; `wire` is a local array of the native
                // type's byte length - alignment is checked separately below
                Some(_) => return Some("from_slice value"),
                None => {
                    if (wire.as_ptr() as usize) % std::mem::align_of::<$N>() == 0 {
                        return Some("from_slice refused an aligned, right-sized slice");
                    }
                }
            }
            // two typed views of the SAME bytes (the operands of a comparison may alias)
            {
                let mut cell = [0u64; 1];
                let n = std::mem::size_of::<$N>();
                // SAFETY: a u64 is 8 bytes; n <= 8.
                let bytes: &mut [u8] = unsafe { std::slice::from_raw_parts_mut(cell.as_mut_ptr() as *mut u8, n) };
                bytes.copy_from_slice(&wire);
                let bytes: &[u8] = bytes;
                if let (Some(wr), Some(nr)) = (<$W>::from_slice(bytes), <$N as ByteValued>::from_slice(bytes)) {
                    let represented = wr.to_native();
                    if (*wr == *nr) != (represented == *nr) || (*nr == *wr) != (represented == *nr) || (*wr != *nr) == (represented == *nr) {
                        return Some("comparison of two views of the same bytes");
                    }
                }
            }
            let mut sink: Vec<u8> = Vec::with_capacity(8);
            if w.write_all_to(&mut sink).is_err() || sink[..] != wire[..] {
                return Some("write_all_to bytes");
            }
            match <$W>::read_exact_from(&wire[..]) {
                Ok(r) if r.to_native() == v && r == w => {}
                _ => return Some("read_exact_from value"),
            }
            None
        }
    };
}

endian_checks!(chk_le16, Le16, u16, to_le_bytes, "Le16");
endian_checks!(chk_be16, Be16, u16, to_be_bytes, "Be16");
endian_checks!(chk_le32, Le32, u32, to_le_bytes, "Le32");
endian_checks!(chk_be32, Be32, u32, to_be_bytes, "Be32");
endian_checks!(chk_le64, Le64, u64, to_le_bytes, "Le64");
endian_checks!(chk_be64, Be64, u64, to_be_bytes, "Be64");
endian_checks!(chk_lesize, LeSize, usize, to_le_bytes, "LeSize");
endian_checks!(chk_besize, BeSize, usize, to_be_bytes, "BeSize");

fn report(name: &str, check: &str, v: u128, partner: u128) {
    FAILS.fetch_add(1, Ordering::Relaxed);
    out::viol(
        &format!("C20/{}/{}", name, check),
        jobj! {"value" => format!("{:#x}", v), "partner" => format!("{:#x}", partner)},
    );
}

/// Memory-level check: write_obj(W::from(v)) leaves the wire bytes; read_obj::<W> of wire bytes == v.
macro_rules! mem_check {
    ($fname:ident, $W:ty, $N:ty, $to_bytes:ident, $name:expr) => {
        fn $fname(gm: &GuestMemoryMmap<()>, v: $N, off: usize) {
            let n = size_of::<$N>();
            let wire = v.$to_bytes();
            let mut buf = [0u8; 64];
            {
                let vs = VolatileSlice::from(&mut buf[..]);
                if vs.write_obj(<$W>::from(v), off).is_err() {
                    report($name, "slice write_obj failed", v as u128, off as u128);
                }
            }
            if buf[off..off + n] != wire[..] {
                report($name, "slice bytes after write_obj", v as u128, off as u128);
            }
            {
                let vs = VolatileSlice::from(&mut buf[..]);
                match vs.read_obj::<$W>(off) {
                    Ok(w) if w.to_native() == v && w == v => {}
                    _ => report($name, "slice read_obj of wire bytes", v as u128, off as u128),
                }
            }
            let ga = GuestAddress(0x1000 + off as u64);
            if gm.write_obj(<$W>::from(v), ga).is_err() {
                report($name, "guest write_obj failed", v as u128, off as u128);
            }
            let mut raw = [0u8; 16];
            if gm.read_slice(&mut raw[..n], ga).is_err() || raw[..n] != wire[..] {
                report($name, "guest bytes after write_obj", v as u128, off as u128);
            }
            if gm.write_slice(&wire[..], ga).is_err() {
                report($name, "guest write_slice failed", v as u128, off as u128);
            }
            match gm.read_obj::<$W>(ga) {
                Ok(w) if w.to_native() == v => {}
                _ => report($name, "guest read_obj of wire bytes", v as u128, off as u128),
            }
        }
    };
}
mem_check!(mem_le16, Le16, u16, to_le_bytes, "Le16");
mem_check!(mem_be16, Be16, u16, to_be_bytes, "Be16");
mem_check!(mem_le32, Le32, u32, to_le_bytes, "Le32");
mem_check!(mem_be32, Be32, u32, to_be_bytes, "Be32");
mem_check!(mem_le64, Le64, u64, to_le_bytes, "Le64");
mem_check!(mem_be64, Be64, u64, to_be_bytes, "Be64");
mem_check!(mem_lesize, LeSize, usize, to_le_bytes, "LeSize");
mem_check!(mem_besize, BeSize, usize, to_be_bytes, "BeSize");

fn pattern_class64(v: u64) -> &'static str {
    let b = v.to_le_bytes();
    let mut distinct = b.to_vec();
    distinct.sort();
    distinct.dedup();
    if v == 0 || v == u64::MAX {
        "all-equal"
    } else if v.count_ones() == 1 {
        "walking-one"
    } else if v.count_zeros() == 1 {
        "walking-zero"
    } else if distinct.len() <= 2 {
        "two-bytes"
    } else if b.iter().rev().eq(b.iter()) {
        "palindrome"
    } else if v == v.swap_bytes() {
        "swap-invariant"
    } else {
        "general"
    }
}

fn structured64() -> Vec<u64> {
    let mut v = vec![0, u64::MAX, 0x0102030405060708, 0x0807060504030201, 0x0102030404030201, 0x8000000000000001, 0x00000000ffffffff, 0xffffffff00000000, 0x00ff00ff00ff00ff, 0x0123456789abcdef];
    for i in 0..64 {
        v.push(1u64 << i);
        v.push(!(1u64 << i));
    }
    // every value with at most two distinct byte values: pattern mask x (a,b) for a few a,b
    let pairs: [(u8, u8); 8] = [(0, 0xff), (0, 1), (0x80, 0x7f), (0x12, 0x34), (0xff, 0xfe), (1, 2), (0xa5, 0x5a), (0, 0x80)];
    for mask in 0..256u32 {
        for (a, b) in pairs {
            let mut x = [0u8; 8];
            for (i, xi) in x.iter_mut().enumerate() {
                *xi = if mask >> i & 1 == 1 { a } else { b };
            }
            v.push(u64::from_le_bytes(x));
        }
    }
    // byte position markers
    for i in 0..8 {
        v.push(0xabu64 << (8 * i));
        v.push(0x0102030405060708u64.rotate_left(8 * i));
    }
    v
}

fn partners64(r: &mut Rng, v: u64) -> [u64; 5] {
    [v, v.swap_bytes(), v.wrapping_add(1), v.wrapping_sub(1), r.next()]
}

/// The FIRST endian operation of a fresh process (`first=k`): wrappers that were not made by
/// `From` (typed views of wire bytes, objects read from guest memory or from a stream) must convert
/// correctly even when nothing else has used the endian types in this process yet.
fn first_operation(k: u64) {
    let v32 = 0x1122_3344u32;
    let v64 = 0x0102_0304_0506_0708u64;
    let v16 = 0xa1b2u16;
    #[repr(align(8))]
    struct Al([u8; 8]);
    let ok = match k {
        0 => {
            let b = Al([0x44, 0x33, 0x22, 0x11, 0, 0, 0, 0]);
            Le32::from_slice(&b.0[..4]).map(|w| w.to_native()) == Some(v32)
        }
        1 => {
            let b = Al([0x11, 0x22, 0x33, 0x44, 0, 0, 0, 0]);
            Be32::from_slice(&b.0[..4]).map(|w| w.to_native()) == Some(v32)
        }
        2 => {
            let gm = GuestMemoryMmap::<()>::from_ranges(&[(GuestAddress(0x1000), 0x1000)]).unwrap();
            gm.write_slice(&v64.to_le_bytes(), GuestAddress(0x1008)).unwrap();
            gm.read_obj::<Le64>(GuestAddress(0x1008)).map(|w| w.to_native()).ok() == Some(v64)
        }
        3 => {
            let b = Al([0xb2, 0xa1, 0, 0, 0, 0, 0, 0]);
            Le16::from_slice(&b.0[..2]).map(|w| {
                let n: u16 = (*w).into();
                n
            }) == Some(v16)
        }
        4 => Be64::read_exact_from(&v64.to_be_bytes()[..]).map(|w| w.to_native()).ok() == Some(v64),
        5 => {
            let b = Al((v64 as usize).to_le_bytes());
            LeSize::from_slice(&b.0[..]).map(|w| w.to_native()) == Some(v64 as usize)
        }
        6 => {
            let b = Al([0x11, 0x22, 0x33, 0x44, 0, 0, 0, 0]);
            Be32::from_slice(&b.0[..4]).map(|w| *w == v32 && v32 == *w) == Some(true)
        }
        7 => {
            let b = Al((v64).to_be_bytes());
            BeSize::from_slice(&b.0[..]).map(|w| w.to_native()) == Some(v64 as usize)
        }
        _ => Le32::from(v32).to_native() == v32 && Be16::from(v16).as_slice() == &v16.to_be_bytes()[..],
    };
    if !ok {
        out::viol(&format!("C20/first-operation-of-the-process/{}", ["Le32::from_slice.to_native", "Be32::from_slice.to_native", "read_obj<Le64>.to_native", "Le16::from_slice.into", "Be64::read_exact_from.to_native", "LeSize::from_slice.to_native", "Be32::from_slice ==", "BeSize::from_slice.to_native", "From"][k.min(8) as usize]), J::Null);
    }
    out::key(&format!("first-operation|{}", k.min(8)), true);
    out::eval(1);
}

pub fn run(args: &Args) {
    out::set_quiet_cases(true);
    if args.flag("first") {
        first_operation(args.u64("first", 0));
        if args.flag("onlyfirst") {
            return;
        }
    }
    let thorough = args.str("tier", "quick") == "thorough";
    // light: the interpreter (Miri, also as a big-endian host) executes a thinned-out value set
    let light = cfg!(miri) || args.flag("light");
    // layout
    macro_rules! layout {
        ($W:ty, $N:ty, $name:expr) => {
            if size_of::<$W>() != size_of::<$N>() || align_of::<$W>() != align_of::<$N>() {
                out::viol(&format!("C20/{}/layout", $name), jobj! {"size" => size_of::<$W>(), "align" => align_of::<$W>()});
            }
            let z = <$W>::zeroed();
            if z.to_native() != 0 || z.as_slice().iter().any(|b| *b != 0) {
                out::viol(&format!("C20/{}/zeroed", $name), jobj! {"zeroed" => J::dbg(&z)});
            }
            let d = <$W>::default();
            if d.to_native() != 0 || d != (0 as $N) || d.as_slice().iter().any(|b| *b != 0) {
                out::viol(&format!("C20/{}/default", $name), jobj! {"default" => J::dbg(&d)});
            }
            out::key(&format!("{}|layout", $name), true);
        };
    }
    layout!(Le16, u16, "Le16");
    layout!(Be16, u16, "Be16");
    layout!(Le32, u32, "Le32");
    layout!(Be32, u32, "Be32");
    layout!(Le64, u64, "Le64");
    layout!(Be64, u64, "Be64");
    layout!(LeSize, usize, "LeSize");
    layout!(BeSize, usize, "BeSize");

    let gm = GuestMemoryMmap::<()>::from_ranges(&[(GuestAddress(0x1000), 0x1000)]).unwrap();
    let mut r = Rng::new(args.seed(), "c20", 0);

    // 16-bit: exhaustive in every tier
    let mut n16 = 0u64;
    for v in 0..=u16::MAX {
        if light && !(v % 509 == 0 || v.count_ones() <= 1 || (!v).count_ones() <= 1 || v.swap_bytes() == v) {
            continue;
        }
        for p in [v, v.swap_bytes(), v.wrapping_add(1), v.wrapping_sub(1), r.next() as u16] {
            if let Some(c) = chk_le16(v, p) {
                report("Le16", c, v as u128, p as u128);
            }
            if let Some(c) = chk_be16(v, p) {
                report("Be16", c, v as u128, p as u128);
            }
            n16 += 2;
        }
        if v % 64 == 0 || v.count_ones() <= 1 || v.swap_bytes() == v {
            mem_le16(&gm, v, (v as usize) % 13);
            mem_be16(&gm, v, (v as usize) % 13);
        }
        out::key(&format!("16|{:02x}|{}", v >> 8, if v == v.swap_bytes() { "sym" } else { "asym" }), true);
    }
    out::eval(n16);
    out::count(if light { "values16_thinned" } else { "values16_exhaustive" }, (n16 / 10) as i128);

    // 32-bit
    let n32 = AtomicU64::new(0);
    let fails32: std::sync::Mutex<Vec<(&'static str, &'static str, u32, u32)>> = std::sync::Mutex::new(vec![]);
    let check32 = |v: u32, extra: u32| {
        for p in [v, v.swap_bytes(), v.wrapping_add(1), extra] {
            if let Some(c) = chk_le32(v, p) {
                let mut f = fails32.lock().unwrap();
                if f.len() < 8 {
                    f.push(("Le32", c, v, p));
                }
            }
            if let Some(c) = chk_be32(v, p) {
                let mut f = fails32.lock().unwrap();
                if f.len() < 8 {
                    f.push(("Be32", c, v, p));
                }
            }
        }
    };
    if thorough && !light {
        let threads = args.u64("threads", 16);
        std::thread::scope(|s| {
            for t in 0..threads {
                let check32 = &check32;
                let n32 = &n32;
                s.spawn(move || {
                    let chunk = (1u64 << 32) / threads;
                    let lo = t * chunk;
                    let hi = if t == threads - 1 { 1u64 << 32 } else { lo + chunk };
                    let mut x = lo;
                    while x < hi {
                        let v = x as u32;
                        check32(v, v.rotate_left(8));
                        x += 1;
                    }
                    n32.fetch_add((hi - lo) * 8, Ordering::Relaxed);
                });
            }
        });
        out::count("values32_exhaustive", 1i128 << 32);
    } else {
        // 2^24 structured: every value with a zero byte in one of the 4 positions is covered by
        // iterating 24 bits and inserting a varying byte at a rotating position; plus random.
        let bits = if light { 8 } else { 24 };
        for x in 0..(1u32 << bits) {
            let x = if light { x.wrapping_mul(0x0101_0101) ^ (x << 23) } else { x };
            let v = match x & 3 {
                0 => x,                       // 00xxxxxx
                1 => x.rotate_left(8) | 0xa5, // xxxxxx a5
                2 => x << 8,                  // xxxxxx00
                _ => x.swap_bytes() ^ 0x00ff00ff,
            };
            check32(v, x);
        }
        n32.fetch_add((1u64 << bits) * 8, Ordering::Relaxed);
        let nr = args.u64("random32", if light { 300 } else { 4_000_000 });
        for _ in 0..nr {
            let v = r.next() as u32;
            check32(v, r.next() as u32);
        }
        n32.fetch_add(nr * 8, Ordering::Relaxed);
        out::count("values32_structured", 1i128 << bits);
        out::count("values32_random", nr as i128);
    }
    for (name, c, v, p) in fails32.lock().unwrap().iter() {
        report(name, c, *v as u128, *p as u128);
    }
    out::eval(n32.load(Ordering::Relaxed));
    for i in 0..4096u32 {
        if light && i % 37 != 0 {
            continue;
        }
        let v = if i < 2048 { (r.next() as u32) >> (i % 32) } else { 1u32.rotate_left(i) ^ (i << 16) };
        mem_le32(&gm, v, (i as usize) % 29);
        mem_be32(&gm, v, (i as usize) % 29);
        out::key(&format!("32|mem|off{}|{}", i % 29 % 4, if v == v.swap_bytes() { "sym" } else { "asym" }), true);
    }
    for b in 0..=255u32 {
        for pos in 0..4 {
            out::key(&format!("32|byte{:02x}@{}", b, pos), true);
        }
    }

    // 64-bit and pointer sized
    let st = structured64();
    let mut n64 = 0u64;
    let mut do64 = |v: u64, r: &mut Rng, mem: bool| {
        for p in partners64(r, v) {
            if let Some(c) = chk_le64(v, p) {
                report("Le64", c, v as u128, p as u128);
            }
            if let Some(c) = chk_be64(v, p) {
                report("Be64", c, v as u128, p as u128);
            }
            if let Some(c) = chk_lesize(v as usize, p as usize) {
                report("LeSize", c, v as u128, p as u128);
            }
            if let Some(c) = chk_besize(v as usize, p as usize) {
                report("BeSize", c, v as u128, p as u128);
            }
            n64 += 4;
        }
        if mem {
            let off = (v % 41) as usize;
            mem_le64(&gm, v, off);
            mem_be64(&gm, v, off);
            mem_lesize(&gm, v as usize, off);
            mem_besize(&gm, v as usize, off);
        }
    };
    for (k, &v) in st.iter().enumerate() {
        if light && k % 61 != 0 && v.count_ones() > 1 {
            continue;
        }
        do64(v, &mut r, true);
        out::key(&format!("64|{}|{:02x}", pattern_class64(v), v as u8), true);
    }
    out::count("values64_structured", st.len() as i128);
    let nr = args.u64("random64", if light { 200 } else if thorough { 300_000_000 } else { 5_000_000 });
    if thorough && !light {
        // spread random 64-bit values over threads (checks are pure)
        let threads = args.u64("threads", 16);
        let fails: std::sync::Mutex<Vec<(&'static str, &'static str, u64, u64)>> = std::sync::Mutex::new(vec![]);
        std::thread::scope(|s| {
            for t in 0..threads {
                let fails = &fails;
                let seed = args.seed();
                s.spawn(move || {
                    let mut r = Rng::new(seed, "c20-64", t);
                    for _ in 0..nr / threads {
                        let v = r.next() >> (r.below(8) * 8);
                        for p in partners64(&mut r, v) {
                            let res = [("Le64", chk_le64(v, p)), ("Be64", chk_be64(v, p)), ("LeSize", chk_lesize(v as usize, p as usize)), ("BeSize", chk_besize(v as usize, p as usize))];
                            for (n, c) in res {
                                if let Some(c) = c {
                                    let mut f = fails.lock().unwrap();
                                    if f.len() < 8 {
                                        f.push((n, c, v, p));
                                    }
                                }
                            }
                        }
                    }
                });
            }
        });
        for (name, c, v, p) in fails.lock().unwrap().iter() {
            report(name, c, *v as u128, *p as u128);
        }
        n64 += nr * 20;
    } else {
        for i in 0..nr {
            let v = r.next() >> (r.below(8) * 8);
            do64(v, &mut r, i % 1024 == 0);
        }
    }
    out::count("values64_random", nr as i128);
    out::eval(n64);

    out::sample(jobj! {"wrapper" => "Le32", "value" => "0x01020304", "as_slice" => J::dbg(&Le32::from(0x01020304).as_slice()), "to_native" => Le32::from(0x01020304).to_native()});
    out::sample(jobj! {"wrapper" => "Be64", "value" => "0x0102030405060708", "as_slice" => J::dbg(&Be64::from(0x0102030405060708).as_slice()), "eq_native" => Be64::from(0x0102030405060708) == 0x0102030405060708u64, "eq_swapped" => Be64::from(0x0102030405060708) == 0x0807060504030201u64});
    out::sample(jobj! {"wrapper" => "Be16", "value" => "0x0102", "as_slice" => J::dbg(&Be16::from(0x0102).as_slice())});
}
