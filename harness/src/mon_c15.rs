//! C15 — region construction accepts exactly the safe requests and builds what was asked.
//! Oracle: predicate model of the statement + interposer balance (a failed constructor leaves no
//! mapping behind) + /proc/self/maps + pread/pwrite coherence for MAP_SHARED file regions.

use crate::common::interpose::{self, Ev};
use crate::common::out::{self, J};
use crate::common::prng::Rng;
use crate::common::{guarded, panic_sig, Args};
use crate::models::world::temp_file;
use std::fs::File;
use std::os::fd::AsRawFd;
use std::os::unix::fs::FileExt;
use vm_memory::mmap::Error as GErr;
use vm_memory::{Bytes, FileOffset, GuestAddress, GuestMemoryRegion, GuestRegionMmap, MmapRegion, VolatileMemory};

fn v(sig: &str, d: J) {
    out::viol(&format!("C15/{}", sig), d);
}

fn maps_snapshot() -> Vec<String> {
    // address ranges + names, without the volatile [heap]/[stack] growth lines
    std::fs::read_to_string("/proc/self/maps")
        .unwrap_or_default()
        .lines()
        .filter(|l| !l.contains("[heap]") && !l.contains("[stack]"))
        .map(|l| {
            let mut it = l.split_whitespace();
            let range = it.next().unwrap_or("");
            let name = l.split_whitespace().nth(5).unwrap_or("");
            format!("{} {}", range, name)
        })
        .collect()
}

/// successful mmaps / munmaps in an interposer log
fn balance(log: &[Ev]) -> (Vec<(usize, usize)>, Vec<(usize, usize)>) {
    let mut maps = vec![];
    let mut unmaps = vec![];
    for e in log {
        match e {
            Ev::Mmap { len, ret, errno, .. } if *errno == 0 => maps.push((*ret, *len)),
            Ev::Munmap { addr, len, ret, .. } if *ret == 0 => unmaps.push((*addr, *len)),
            _ => {}
        }
    }
    (maps, unmaps)
}

#[cfg(not(feature = "xen"))]
mod std_part {
    use super::*;
    use vm_memory::mmap::{MmapRegionBuilder, MmapRegionError as RErr};

    fn rerr(e: &RErr) -> &'static str {
        match e {
            RErr::InvalidOffsetLength => "InvalidOffsetLength",
            RErr::InvalidPointer => "InvalidPointer",
            RErr::MapFixed => "MapFixed",
            RErr::MappingOverlap => "MappingOverlap",
            RErr::MappingPastEof => "MappingPastEof",
            RErr::Mmap(_) => "Mmap(os)",
            RErr::SeekEnd(_) => "SeekEnd",
            RErr::SeekStart(_) => "SeekStart",
        }
    }

    #[derive(Clone, Debug)]
    pub struct Req {
        pub size: usize,
        pub prot: i32,
        pub flags: i32,
        pub file_len: Option<u64>,
        pub offset: u64,
    }

    /// What the statement demands: Some(error name) if the request must be refused.
    fn must_refuse(q: &Req) -> Option<&'static str> {
        if q.flags & libc::MAP_FIXED != 0 {
            return Some("MapFixed");
        }
        if let Some(fl) = q.file_len {
            match q.offset.checked_add(q.size as u64) {
                None => return Some("InvalidOffsetLength"),
                Some(end) if end > fl => return Some("MappingPastEof"),
                _ => {}
            }
        }
        None
    }

    pub fn construct(q: &Req, via: u64, stats: &mut Stats) {
        let file = q.file_len.map(|l| temp_file(l));
        let fo = file.as_ref().map(|f| FileOffset::new(f.try_clone().unwrap(), q.offset));
        let before = maps_snapshot();
        interpose::arm();
        let res = guarded(|| match via {
            0 => MmapRegion::<()>::build(fo.clone(), q.size, q.prot, q.flags),
            1 => {
                let mut b = MmapRegionBuilder::<()>::new(q.size).with_mmap_prot(q.prot).with_mmap_flags(q.flags);
                if let Some(f) = fo.clone() {
                    b = b.with_file_offset(f);
                }
                b.build()
            }
            _ => {
                // other setter order, with the hugetlbfs hint (pure metadata: the request is the same)
                let mut b = MmapRegionBuilder::<()>::new(q.size).with_hugetlbfs(via % 2 == 0);
                if let Some(f) = fo.clone() {
                    b = b.with_file_offset(f);
                }
                b.with_mmap_flags(q.flags).with_mmap_prot(q.prot).build()
            }
        });
        let log = interpose::disarm();
        let (maps, unmaps) = balance(&log);
        let want = must_refuse(q);
        let rel = match q.file_len {
            None => "anon",
            Some(fl) => match q.offset.checked_add(q.size as u64) {
                None => "end-overflows",
                Some(e) if e.checked_add(1) == Some(fl) => "end=eof-1",
                Some(e) if e == fl => "end=eof",
                Some(e) if Some(e) == fl.checked_add(1) => "end=eof+1",
                Some(e) if e < fl => "end<eof",
                _ => "end>eof",
            },
        };
        let cls = format!("flags{:#x}|prot{}|{}|off{}|{}", q.flags & 0xff, q.prot, rel, if q.offset == 0 { "0" } else if q.offset % 4096 == 0 { "aligned" } else { "unaligned" }, match want {
            Some(w) => w,
            None => "safe",
        });
        match res {
            Err(p) => v(&format!("panic/construct/{}", panic_sig(&p)), jobj! {"req" => J::dbg(q), "panic" => p}),
            Ok(Ok(reg)) => {
                stats.ok += 1;
                if let Some(w) = want {
                    v(&format!("unsafe-request-accepted/{}", w), jobj! {"req" => J::dbg(q)});
                }
                // built what was asked
                if reg.size() != q.size || reg.prot() != q.prot || reg.flags() != q.flags || !reg.owned() || reg.file_offset().map(|f| f.start()) != q.file_len.map(|_| q.offset) || reg.len() != q.size {
                    v("region-attributes-differ-from-request", jobj! {"req" => J::dbg(q), "size" => reg.size(), "prot" => reg.prot(), "flags" => reg.flags(), "owned" => reg.owned()});
                }
                let want_hint = if via >= 2 { Some(via % 2 == 0) } else { None };
                if reg.is_hugetlbfs() != want_hint {
                    v("hugetlbfs-hint-differs-from-request", jobj! {"req" => J::dbg(q), "got" => J::dbg(&reg.is_hugetlbfs()), "want" => J::dbg(&want_hint)});
                }
                // exactly one mapping of exactly the request
                // (judged on the net effect: the region's bytes are covered by what the construction
                // left mapped, and the mapping call that produced them carried the requested
                // protection, flags, descriptor kind and - relative to the region start - file offset;
                // an implementation may over-allocate and trim)
                let mut net = interpose::Pieces::default();
                net.apply(&log);
                let base = reg.as_ptr() as usize;
                let covering = log.iter().rev().find_map(|e| match e {
                    Ev::Mmap { len, prot, flags, fd, off, ret, errno: 0, .. } if *ret <= base && base < *ret + (*len).max(1) => Some((*prot, *flags, *fd, *off + (base - *ret) as i64)),
                    _ => None,
                });
                let okmap = net.covers(base, q.size.max(1))
                    && matches!(covering, Some((prot, flags, fd, off)) if prot == q.prot && flags == q.flags && (fd >= 0) == q.file_len.is_some() && off == q.offset as i64 * (q.file_len.is_some() as i64));
                // (extra pages kept mapped next to the region are not judged here: the statement asks
                // what the region reports and that its bytes are those requested; C12 judges that
                // everything mapped for the region goes away with its last owner)
                let extra = net.total().saturating_sub(q.size.max(1).div_ceil(4096) * 4096);
                out::count("bytes_mapped_beyond_the_region_pages", extra as i128);
                if !okmap {
                    v("mapping-differs-from-request", jobj! {"req" => J::dbg(q), "log" => J::dbg(&log)});
                }
                // coherence for shared file mappings that are readable+writable
                if let (Some(f), true) = (&file, q.flags & libc::MAP_SHARED != 0 && q.flags & libc::MAP_ANONYMOUS == 0 && q.prot == (libc::PROT_READ | libc::PROT_WRITE) && q.size > 0) {
                    coherence(&reg, f, q, stats);
                }
                out::key(&format!("build|ok|{}", cls), true);
                // the same attributes through the guest-region wrapper (GuestMemoryRegion methods)
                let reg = match GuestRegionMmap::new(reg, GuestAddress(0x7000)) {
                    Ok(g) => {
                        use vm_memory::GuestMemoryRegion;
                        if g.is_hugetlbfs() != want_hint || g.file_offset().map(|f| f.start()) != q.file_len.map(|_| q.offset) || g.len() as usize != q.size || g.start_addr() != GuestAddress(0x7000) {
                            v("guest-region-attributes-differ-from-request", jobj! {"req" => J::dbg(q), "hint" => J::dbg(&g.is_hugetlbfs())});
                        }
                        g
                    }
                    Err(e) => {
                        v("guest-region-refused-for-a-valid-mapping", jobj! {"req" => J::dbg(q), "err" => J::dbg(&e)});
                        return;
                    }
                };
                interpose::arm();
                drop(reg);
                let l2 = interpose::disarm();
                let (_, um) = balance(&l2);
                net.apply(&l2);
                if net.total() != 0 || l2.iter().any(|e| matches!(e, Ev::Mmap { .. })) {
                    v("drop-does-not-unmap-exactly-the-mapping", jobj! {"req" => J::dbg(q), "munmaps" => J::dbg(&um), "mapped" => J::dbg(&maps), "left" => J::dbg(&net.v)});
                }
            }
            Ok(Err(e)) => {
                let en = rerr(&e);
                match want {
                    Some(w) => {
                        stats.refused += 1;
                        if en != w && !(en == "InvalidOffsetLength" && w == "MappingPastEof") {
                            // MAP_FIXED is tested first; other orders are not pinned by the statement
                            if !(q.flags & libc::MAP_FIXED != 0 && en == "MapFixed") {
                                out::note("C15/refused-with-different-variant", jobj! {"got" => en, "model" => w});
                            }
                        }
                        out::key(&format!("build|{}|{}", en, cls), true);
                    }
                    None => {
                        if en == "Mmap(os)" {
                            stats.os_refused += 1;
                            out::key(&format!("build|os-refused|{}", cls), false);
                        } else {
                            v(&format!("safe-request-refused/{}", en), jobj! {"req" => J::dbg(q)});
                        }
                    }
                }
                // nothing may be left mapped
                if maps.len() != unmaps.len() {
                    v("failed-construction-left-a-mapping", jobj! {"req" => J::dbg(q), "mmaps" => J::dbg(&maps), "munmaps" => J::dbg(&unmaps)});
                }
                let after = maps_snapshot();
                if after != before {
                    let extra: Vec<&String> = after.iter().filter(|l| !before.contains(l)).collect();
                    if !extra.is_empty() {
                        v("failed-construction-changed-proc-maps", jobj! {"req" => J::dbg(q), "new_lines" => J::dbg(&extra)});
                    }
                }
            }
        }
        out::eval(1);
    }

    fn coherence(reg: &MmapRegion<()>, f: &File, q: &Req, stats: &mut Stats) {
        let n = q.size;
        let s = reg.as_volatile_slice();
        let probes: Vec<usize> = vec![0, n / 2, n - 1].into_iter().chain(if n > 4096 { vec![4095, 4096] } else { vec![] }).collect();
        for (k, i) in probes.iter().enumerate() {
            let b = 0x40u8 + k as u8;
            // region -> file
            if s.write_obj::<u8>(b, *i).is_err() {
                v("coherence/region-write-failed", jobj! {"i" => *i});
                continue;
            }
            let mut got = [0u8; 1];
            f.read_exact_at(&mut got, q.offset + *i as u64).unwrap();
            if got[0] != b {
                v("coherence/region-write-not-visible-in-file", jobj! {"req" => J::dbg(q), "i" => *i, "file_byte" => got[0], "want" => b});
            }
            // file -> region
            let c = 0x90u8 + k as u8;
            f.write_all_at(&[c], q.offset + *i as u64).unwrap();
            match s.read_obj::<u8>(*i) {
                Ok(x) if x == c => {}
                other => v("coherence/file-write-not-visible-in-region", jobj! {"req" => J::dbg(q), "i" => *i, "got" => J::dbg(&other), "want" => c}),
            }
            // neighbours in the file must be untouched by the region write
            if q.offset + *i as u64 > 0 {
                let mut nb = [0u8; 1];
                f.read_exact_at(&mut nb, q.offset + *i as u64 - 1).unwrap();
                if *i == 0 && nb[0] != 0 {
                    v("coherence/byte-before-offset-modified", jobj! {"req" => J::dbg(q)});
                }
            }
        }
        stats.coherent += 1;
    }

    pub fn raw_ptr_grid(stats: &mut Stats) {
        // an externally provided mapping
        let len = 3 * 4096;
        let base = unsafe { libc::mmap(std::ptr::null_mut(), len, libc::PROT_READ | libc::PROT_WRITE, libc::MAP_PRIVATE | libc::MAP_ANONYMOUS, -1, 0) } as *mut u8;
        assert!(base as isize != -1);
        for delta in [0usize, 1, 2, 7, 8, 512, 2048, 4095, 4096, 4097, 8192] {
            for size in [0usize, 1, 100, 4096] {
                let p = unsafe { base.add(delta) };
                interpose::arm();
                // directly, or through the builder (optionally with further settings that must not
                // turn the request into one that maps anything)
                let route = (delta / 7 + size) % 3;
                let res = guarded(|| unsafe {
                    match route {
                        0 => MmapRegion::<()>::build_raw(p, size, libc::PROT_READ | libc::PROT_WRITE, libc::MAP_PRIVATE | libc::MAP_ANONYMOUS),
                        1 => MmapRegionBuilder::<()>::new(size)
                            .with_raw_mmap_pointer(p)
                            .with_mmap_prot(libc::PROT_READ | libc::PROT_WRITE)
                            .with_mmap_flags(libc::MAP_PRIVATE | libc::MAP_ANONYMOUS)
                            .build(),
                        _ => MmapRegionBuilder::<()>::new(size)
                            .with_mmap_prot(libc::PROT_READ | libc::PROT_WRITE)
                            .with_hugetlbfs(true)
                            .with_raw_mmap_pointer(p)
                            .build(),
                    }
                });
                let log = interpose::disarm();
                let aligned = delta % 4096 == 0;
                match res {
                    Ok(Ok(reg)) => {
                        if !aligned {
                            v("misaligned-raw-pointer-accepted", jobj! {"delta" => delta, "size" => size});
                        }
                        if reg.owned() || reg.as_ptr() != p || reg.size() != size {
                            v("raw-region-attributes", jobj! {"owned" => reg.owned(), "size" => reg.size()});
                        }
                        interpose::arm();
                        drop(reg);
                        let l2 = interpose::disarm();
                        if l2.iter().any(|e| matches!(e, Ev::Munmap { .. })) {
                            v("externally-provided-mapping-unmapped-by-library", jobj! {"delta" => delta, "log" => J::dbg(&l2)});
                        }
                    }
                    Ok(Err(e)) => {
                        if aligned {
                            v(&format!("safe-request-refused/raw/{}", rerr(&e)), jobj! {"delta" => delta, "size" => size});
                        } else if rerr(&e) != "InvalidPointer" {
                            out::note("C15/refused-with-different-variant", jobj! {"got" => rerr(&e), "model" => "InvalidPointer"});
                        }
                    }
                    Err(p) => v(&format!("panic/build_raw/{}", panic_sig(&p)), J::s(p)),
                }
                if log.iter().any(|e| matches!(e, Ev::Mmap { .. } | Ev::Munmap { .. })) {
                    v("build_raw-issued-mapping-calls", jobj! {"log" => J::dbg(&log)});
                }
                // memory must still be usable
                unsafe { base.add(delta.min(len - 1)).write_volatile(1) };
                out::key(&format!("build_raw|{}|size{}", if aligned { "aligned" } else { "misaligned" }, size), true);
                out::eval(1);
                stats.raw += 1;
            }
        }
        unsafe { libc::munmap(base as *mut _, len) };
    }

    /// A backing "file" that is a block device (a loop device over a 1 MiB image; needs root): its
    /// length is what seeking to its end reports, not what its metadata says (0). Requests inside
    /// the device are safe and must yield regions, requests past its end must be refused.
    pub fn block_device_backing(stats: &mut Stats) {
        use std::os::fd::AsRawFd;
        const LOOP_CTL_GET_FREE: libc::c_ulong = 0x4C82;
        const LOOP_SET_FD: libc::c_ulong = 0x4C00;
        const LOOP_CLR_FD: libc::c_ulong = 0x4C01;
        let dev_len: u64 = 1 << 20;
        let setup = || -> Option<(File, File)> {
            let ctl = std::fs::OpenOptions::new().read(true).write(true).open("/dev/loop-control").ok()?;
            // SAFETY: plain ioctls on descriptors we own.
            let n = unsafe { libc::ioctl(ctl.as_raw_fd(), LOOP_CTL_GET_FREE) };
            if n < 0 {
                return None;
            }
            let dev = std::fs::OpenOptions::new().read(true).write(true).open(format!("/dev/loop{}", n)).ok()?;
            let img = temp_file(dev_len);
            if unsafe { libc::ioctl(dev.as_raw_fd(), LOOP_SET_FD, img.as_raw_fd()) } < 0 {
                return None;
            }
            Some((dev, img))
        };
        let Some((dev, _img)) = setup() else {
            out::note("C15/block-device-backing-not-available", J::Null);
            return;
        };
        let rw = libc::PROT_READ | libc::PROT_WRITE;
        for (off, size) in [(0u64, 4096usize), (0, dev_len as usize), (4096, dev_len as usize - 4096), (dev_len - 4096, 4096), (0, dev_len as usize + 1), (dev_len, 1), (dev_len - 4096, 8192), (u64::MAX - 4095, 4096)] {
            let want_ok = off.checked_add(size as u64).map_or(false, |e| e <= dev_len);
            let fo = FileOffset::new(dev.try_clone().unwrap(), off);
            interpose::arm();
            let res = guarded(|| if size % 8192 == 0 { MmapRegion::<()>::from_file(fo, size) } else { MmapRegion::<()>::build(Some(fo), size, rw, libc::MAP_SHARED | libc::MAP_NORESERVE) });
            let log = interpose::disarm();
            let mut net = interpose::Pieces::default();
            net.apply(&log);
            match res {
                Err(p) => v(&format!("panic/block-device/{}", panic_sig(&p)), J::s(p)),
                Ok(Ok(reg)) => {
                    stats.ok += 1;
                    if !want_ok {
                        v("block-device/unsafe-request-accepted", jobj! {"offset" => off, "size" => size, "device_len" => dev_len});
                    }
                    if reg.size() != size || reg.file_offset().map(|f| f.start()) != Some(off) || reg.prot() != rw {
                        v("block-device/region-attributes-differ-from-request", jobj! {"offset" => off, "size" => size});
                    }
                    if want_ok {
                        // byte i of the region is byte offset+i of the device, both directions
                        let s = reg.as_volatile_slice();
                        let i = size - 1;
                        let _ = s.write_obj::<u8>(0x6b, i);
                        let mut b = [0u8; 1];
                        let got = dev.read_at(&mut b, off + i as u64);
                        if got.ok() != Some(1) || b[0] != 0x6b {
                            v("block-device/region-byte-not-visible-in-the-device", jobj! {"offset" => off, "i" => i, "read" => b[0]});
                        }
                        let _ = dev.write_at(&[0x3c], off);
                        if s.read_obj::<u8>(0).ok() != Some(0x3c) {
                            v("block-device/device-byte-not-visible-in-the-region", jobj! {"offset" => off});
                        }
                    }
                    drop(reg);
                }
                Ok(Err(e)) => {
                    if want_ok {
                        v(&format!("block-device/safe-request-refused/{}", rerr(&e)), jobj! {"offset" => off, "size" => size, "device_len" => dev_len});
                    } else {
                        stats.refused += 1;
                    }
                    if net.total() != 0 {
                        v("block-device/failed-construction-left-a-mapping", jobj! {"offset" => off, "size" => size, "left" => J::dbg(&net.v)});
                    }
                }
            }
            out::key(&format!("block-device|{}|{}", if want_ok { "inside" } else { "past-end" }, if size % 8192 == 0 { "from_file" } else { "build" }), true);
            out::eval(1);
        }
        // SAFETY: detaching the image from the loop device we attached it to.
        unsafe { libc::ioctl(dev.as_raw_fd(), LOOP_CLR_FD) };
        out::count("block_device_requests", 8);
    }

    /// The same backing file through several constructions while its LENGTH changes in between,
    /// requests built from fresh FileOffsets and from clones of the FileOffset an earlier region
    /// reports: every request is judged against the file as it is at that moment.
    pub fn file_length_changes(stats: &mut Stats) {
        let rw = libc::PROT_READ | libc::PROT_WRITE;
        let f = std::sync::Arc::new(temp_file(16384));
        let mut carried: Option<FileOffset> = None;
        let mut keep = vec![];
        // (new file length, request offset, request size)
        for (step, (flen, off, size)) in [(16384u64, 0u64, 8192usize), (4096, 0, 8192), (4096, 0, 4096), (65536, 0, 32768), (65536, 4096, 61440), (8192, 4096, 8192), (8192, 4096, 4096), (0, 0, 4096), (12288, 8192, 4096)].into_iter().enumerate() {
            f.set_len(flen).expect("ftruncate");
            let want_ok = off.checked_add(size as u64).map_or(false, |e| e <= flen);
            for route in 0..3u8 {
                let fo = match (route, &carried) {
                    // a clone of what an earlier region reports, re-aimed at this request's offset
                    (1, Some(c)) => FileOffset::from_arc(c.arc().clone(), off),
                    // the very FileOffset object an earlier region reports (when its offset fits)
                    (2, Some(c)) if c.start() == off => c.clone(),
                    _ => FileOffset::from_arc(f.clone(), off),
                };
                let res = guarded(|| MmapRegion::<()>::build(Some(fo), size, rw, libc::MAP_SHARED | libc::MAP_NORESERVE));
                match res {
                    Err(p) => v(&format!("panic/file-length-changes/{}", panic_sig(&p)), J::s(p)),
                    Ok(Ok(reg)) => {
                        stats.ok += 1;
                        if !want_ok {
                            v("file-length-changes/unsafe-request-accepted", jobj! {"step" => step, "route" => route, "file_len_now" => flen, "offset" => off, "size" => size});
                        }
                        carried = reg.file_offset().cloned();
                        keep.push(reg);
                    }
                    Ok(Err(e)) => {
                        if want_ok {
                            v(&format!("file-length-changes/safe-request-refused/{}", rerr(&e)), jobj! {"step" => step, "route" => route, "file_len_now" => flen, "offset" => off, "size" => size});
                        } else {
                            stats.refused += 1;
                        }
                    }
                }
                out::key(&format!("file-length-changes|step{}|route{}|{}", step, route, want_ok), true);
                out::eval(1);
            }
            // regions that map beyond the new end of file must not be touched any more: drop them
            keep.clear();
        }
        out::count("file_length_change_requests", 27);
    }

    /// The builder used step by step: the file's length changes BETWEEN the calls that configure
    /// the builder and `build()`. The region is created by `build()`; what is safe is decided by
    /// the file as it is then.
    pub fn file_length_changes_between_builder_calls(stats: &mut Stats) {
        use vm_memory::mmap::MmapRegionBuilder;
        let rw = libc::PROT_READ | libc::PROT_WRITE;
        // (length when the builder is configured, length at build(), offset, size)
        for (len0, len1, off, size) in [(8192u64, 4096u64, 0u64, 8192usize), (4096, 8192, 0, 8192), (8192, 8192, 0, 8192), (16384, 8191, 4096, 4096), (0, 4096, 0, 4096), (4096, 0, 0, 1), (8192, 12288, 8192, 4096), (65536, 4096, 0, 4097)] {
            for order in 0..3u8 {
                let f = std::sync::Arc::new(temp_file(len0));
                let fo = FileOffset::from_arc(f.clone(), off);
                let b = match order {
                    0 => MmapRegionBuilder::<()>::new(size).with_file_offset(fo).with_mmap_prot(rw).with_mmap_flags(libc::MAP_SHARED | libc::MAP_NORESERVE),
                    1 => MmapRegionBuilder::<()>::new(size).with_mmap_prot(rw).with_mmap_flags(libc::MAP_SHARED | libc::MAP_NORESERVE).with_file_offset(fo),
                    _ => MmapRegionBuilder::<()>::new_with_bitmap(size, ()).with_mmap_prot(rw).with_file_offset(fo).with_mmap_flags(libc::MAP_SHARED).with_hugetlbfs(false),
                };
                f.set_len(len1).expect("ftruncate");
                let want_ok = off.checked_add(size as u64).map_or(false, |e| e <= len1);
                match guarded(|| b.build()) {
                    Err(p) => v(&format!("panic/builder-length-change/{}", panic_sig(&p)), J::s(p)),
                    Ok(Ok(_reg)) => {
                        stats.ok += 1;
                        if !want_ok {
                            v("builder-length-change/unsafe-request-accepted", jobj! {"len_when_configured" => len0, "len_at_build" => len1, "offset" => off, "size" => size, "order" => order});
                        }
                    }
                    Ok(Err(e)) => {
                        if want_ok {
                            v(&format!("builder-length-change/safe-request-refused/{}", rerr(&e)), jobj! {"len_when_configured" => len0, "len_at_build" => len1, "offset" => off, "size" => size, "order" => order});
                        } else {
                            stats.refused += 1;
                        }
                    }
                }
                out::key(&format!("builder-length-change|{}|order{}|{}", if len1 < len0 { "shrunk" } else if len1 > len0 { "grown" } else { "same" }, order, want_ok), true);
                out::eval(1);
            }
        }
    }

    /// The backing file happens to be descriptor number 0 (stdin was closed before it was opened):
    /// the same requests get the same verdicts. Runs in a forked child.
    pub fn backing_file_is_descriptor_zero() {
        use crate::common::fork::{self, Exit};
        let ex = fork::run(20, || {
            use std::os::fd::AsRawFd;
            // SAFETY: in the forked child only.
            unsafe { libc::close(0) };
            let f = std::sync::Arc::new(temp_file(4096));
            let fd = f.as_raw_fd();
            let mut report = vec![fd as u8];
            let rw = libc::PROT_READ | libc::PROT_WRITE;
            for (off, size) in [(0u64, 4096usize), (0, 8192), (4096, 1), (u64::MAX - 4095, 4096), (0, 4097)] {
                // both requests go through descriptor 0 itself (shared by Arc, not duplicated)
                let res = MmapRegion::<()>::build(Some(FileOffset::from_arc(f.clone(), off)), size, rw, libc::MAP_SHARED | libc::MAP_NORESERVE);
                let res2 = MmapRegion::<()>::from_file(FileOffset::from_arc(f.clone(), off), size);
                report.push(res.is_ok() as u8);
                report.push(res2.is_ok() as u8);
            }
            report
        });
        match ex {
            Exit::Ok(rep) if rep.len() == 11 => {
                let want = [1u8, 1, 0, 0, 0, 0, 0, 0, 0, 0];
                if rep[0] != 0 {
                    out::note("C15/descriptor-zero/file-did-not-get-descriptor-0", jobj! {"fd" => rep[0]});
                }
                if rep[1..] != want {
                    v("descriptor-zero/verdicts-differ-from-the-predicate", jobj! {"fd_of_the_file" => rep[0], "got_ok" => J::dbg(&rep[1..].to_vec()), "want_ok" => J::dbg(&want.to_vec())});
                }
                out::key(&format!("descriptor-zero|fd{}", rep[0]), true);
            }
            other => out::note("C15/descriptor-zero-child-inconclusive", J::dbg(&other)),
        }
        out::eval(10);
    }

    pub fn check_file_offset_grid() {
        for fl in [0u64, 1, 4095, 4096, 4097, 8192] {
            let f = temp_file(fl);
            for off in [0u64, 1, 4096, fl.saturating_sub(1), fl, fl + 1, u64::MAX - 4095, u64::MAX - 1, u64::MAX] {
                for size in [0usize, 1, 4096, (fl.saturating_sub(off)) as usize, (fl.saturating_sub(off)) as usize + 1, usize::MAX] {
                    let fo = FileOffset::new(f.try_clone().unwrap(), off);
                    let got = vm_memory::mmap::check_file_offset(&fo, size);
                    let want = match off.checked_add(size as u64) {
                        None => Some("InvalidOffsetLength"),
                        Some(e) if e > fl => Some("MappingPastEof"),
                        _ => None,
                    };
                    match (&got, want) {
                        (Ok(()), None) => {}
                        (Err(e), Some(w)) if rerr(e) == w => {}
                        _ => v("check_file_offset", jobj! {"file_len" => fl, "offset" => off, "size" => size, "got" => J::dbg(&got.as_ref().map_err(rerr)), "want" => J::dbg(&want)}),
                    }
                    let rel = match (off as u128 + size as u128).cmp(&(fl as u128)) {
                        std::cmp::Ordering::Less => "end<eof",
                        std::cmp::Ordering::Equal => "end=eof",
                        std::cmp::Ordering::Greater => "end>eof",
                    };
                    out::key(&format!("check_file_offset|{}|{}", rel, if off.checked_add(size as u64).is_none() { "overflow" } else { "fits" }), true);
                    out::eval(1);
                }
            }
        }
    }

    pub fn grid(stats: &mut Stats) {
        let rw = libc::PROT_READ | libc::PROT_WRITE;
        let flag_words = [
            libc::MAP_PRIVATE | libc::MAP_ANONYMOUS,
            libc::MAP_PRIVATE | libc::MAP_ANONYMOUS | libc::MAP_NORESERVE,
            libc::MAP_SHARED | libc::MAP_ANONYMOUS,
            libc::MAP_PRIVATE | libc::MAP_ANONYMOUS | libc::MAP_FIXED,
            libc::MAP_SHARED | libc::MAP_ANONYMOUS | libc::MAP_FIXED | libc::MAP_NORESERVE,
        ];
        for flags in flag_words {
            for size in [1usize, 4095, 4096, 4097, 65536] {
                for prot in [rw, libc::PROT_READ, libc::PROT_NONE] {
                    construct(&Req { size, prot, flags, file_len: None, offset: 0 }, (size % 4) as u64, stats);
                }
            }
        }
        // file-backed: grid around end-of-file
        // (a file together with MAP_ANONYMOUS is still a request with a file: its range is checked)
        let file_flags = [libc::MAP_SHARED, libc::MAP_SHARED | libc::MAP_NORESERVE, libc::MAP_PRIVATE, libc::MAP_SHARED | libc::MAP_FIXED, libc::MAP_PRIVATE | libc::MAP_ANONYMOUS, libc::MAP_SHARED | libc::MAP_ANONYMOUS | libc::MAP_NORESERVE];
        for flags in file_flags {
            for fl in [1u64, 4095, 4096, 4097, 8192, 12288] {
                for off in [0u64, 4096, 8192, u64::MAX - 4095, u64::MAX & !4095, 1] {
                    let rem = fl.saturating_sub(off);
                    for size in [1usize, rem.saturating_sub(1) as usize, rem as usize, rem as usize + 1, 4096, usize::MAX, usize::MAX - 4095] {
                        if size == 0 {
                            continue;
                        }
                        construct(&Req { size, prot: rw, flags, file_len: Some(fl), offset: off }, (size as u64 ^ off ^ (off >> 12)) % 4, stats);
                    }
                }
            }
        }
    }

    pub fn guest_base_grid() {
        for l in [1usize, 2, 4096, 4097] {
            for d in -2i128..=2 {
                let base = (1i128 << 64) - l as i128 + d;
                if base < 0 || base > u64::MAX as i128 {
                    continue;
                }
                let m = MmapRegion::<()>::new(l).unwrap();
                let got = GuestRegionMmap::new(m, GuestAddress(base as u64));
                match (&got, d) {
                    (Ok(_), d) if d > 0 => v("guest-base-plus-size-beyond-address-space-accepted", jobj! {"base" => base as u64, "size" => l}),
                    (Err(_), d) if d < 0 => v("safe-request-refused/guest-base", jobj! {"base" => base as u64, "size" => l}),
                    (Err(e), d) if d > 0 && !matches!(e, GErr::InvalidGuestRegion) => v("guest-base/wrong-error", J::dbg(e)),
                    (r, 0) => out::note("C15/guest-base+size==2^64", jobj! {"ok" => r.is_ok()}),
                    _ => {}
                }
                if let Ok(r) = &got {
                    if r.start_addr().0 != base as u64 || r.len() != l as u64 {
                        v("guest-region-attributes", jobj! {"start" => r.start_addr().0, "len" => r.len()});
                    }
                }
                out::key(&format!("guest-base|{}|{}", if d > 0 { "beyond" } else if d == 0 { "exact" } else { "below" }, l), true);
                out::eval(1);
            }
        }
        // from_range with and without file
        let f = temp_file(8192);
        for (off, size, ok) in [(0u64, 8192usize, true), (4096, 4096, true), (4096, 4097, false), (0, 8193, false)] {
            let r = GuestRegionMmap::<()>::from_range(GuestAddress(0x1000), size, Some(FileOffset::new(f.try_clone().unwrap(), off)));
            if r.is_ok() != ok {
                v("from_range-file", jobj! {"offset" => off, "size" => size, "got_ok" => r.is_ok()});
            }
            if let Ok(r) = r {
                if r.file_offset().map(|x| x.start()) != Some(off) || r.len() != size as u64 {
                    v("from_range-attributes", jobj! {"offset" => off});
                }
            }
            out::eval(1);
        }
        let _ = f.as_raw_fd();
    }

    pub fn random(args: &Args, stats: &mut Stats) {
        for case in args.cases(300) {
            let mut r = Rng::new(args.seed(), "c15", case);
            let with_file = r.chance(2, 3);
            let fl = if with_file { Some(*r.pick(&[0u64, 1, 100, 4096, 5000, 8192, 20000])) } else { None };
            let off = if with_file { *r.pick(&[0u64, 0, 4096, 8192, 12288, u64::MAX - 4095, 1 << 40]) } else { 0 };
            let size = match r.below(6) {
                0 => 1,
                1 => 4096,
                2 => fl.unwrap_or(4096).saturating_sub(off) as usize,
                3 => fl.unwrap_or(4096).saturating_sub(off) as usize + 1,
                4 => usize::MAX - r.usize_below(5000),
                _ => 1 + r.usize_below(20000),
            };
            let mut flags = if with_file { *r.pick(&[libc::MAP_SHARED, libc::MAP_PRIVATE, libc::MAP_SHARED | libc::MAP_NORESERVE]) } else { libc::MAP_ANONYMOUS | *r.pick(&[libc::MAP_PRIVATE, libc::MAP_SHARED]) };
            if r.chance(1, 8) {
                flags |= libc::MAP_FIXED;
            }
            if with_file && r.chance(1, 6) {
                flags |= libc::MAP_ANONYMOUS;
            }
            let prot = *r.pick(&[libc::PROT_READ | libc::PROT_WRITE, libc::PROT_READ | libc::PROT_WRITE, libc::PROT_READ, libc::PROT_NONE]);
            if size == 0 {
                continue;
            }
            out::set_case(case);
            construct(&Req { size, prot, flags, file_len: fl, offset: off }, r.below(4), stats);
        }
    }
}

#[derive(Default)]
pub struct Stats {
    pub ok: u64,
    pub refused: u64,
    pub os_refused: u64,
    pub coherent: u64,
    pub raw: u64,
}

#[cfg(feature = "xen")]
mod xen_part {
    use super::*;
    use crate::models::xenemu;
    use vm_memory::{MmapRange, MmapXenFlags};

    pub fn grid(stats: &mut Stats) {
        let emu = xenemu::Emu::install(64 << 20);
        let mut n = 0u64;
        // all 32 combinations of the low five bits + sampled high bits
        let mut words: Vec<u32> = (0..32).collect();
        words.extend([0x20, 0x40, 0x80, 0x100, 0x8000_0000, 0xffff_ffff, 0x2 | 0x100, 0x8 | 0x40]);
        for w in words {
            for with_file in [true, false] {
                for off in [0u64, 1, 4096] {
                    for size in [4096usize, 5000] {
                      // mmap flags / protection of the request: default, explicit, and the forbidden MAP_FIXED
                      for (mflags, mprot) in [
                          (None, None),
                          (Some(libc::MAP_SHARED), Some(libc::PROT_READ)),
                          (Some(libc::MAP_SHARED | libc::MAP_FIXED), None),
                          (Some(libc::MAP_PRIVATE | libc::MAP_FIXED | libc::MAP_NORESERVE), Some(libc::PROT_READ | libc::PROT_WRITE)),
                      ] {
                        let fixed = mflags.map_or(false, |f: i32| f & libc::MAP_FIXED != 0);
                        let valid_bits = w & !(0x1 | 0x2 | 0x8) == 0;
                        let grant = w & 0x2 != 0;
                        let foreign = w & 0x1 != 0;
                        let noadv = w & 0x8 != 0;
                        let valid = valid_bits && if grant { !foreign } else { !noadv };
                        let unix = valid && !grant && !foreign;
                        let fo = if with_file { Some(emu.file_offset(off)) } else { None };
                        // model: what must be refused
                        let must_refuse: Option<&str> = if fixed {
                            Some("MapFixed")
                        } else if !valid {
                            Some("MmapFlags")
                        } else if !unix && !with_file {
                            Some("InvalidFileOffset")
                        } else if !unix && off != 0 {
                            Some("InvalidOffsetLength")
                        } else {
                            None
                        };
                        // the public flag predicates agree with the same reading of the bits
                        match MmapXenFlags::from_bits(w) {
                            None => {
                                if valid_bits {
                                    v("xen/flag-predicates/known-bits-not-parsed", jobj! {"flags" => w});
                                }
                            }
                            Some(fl) => {
                                if !valid_bits || fl.is_valid() != valid || (valid && (fl.is_unix() != unix || fl.is_grant() != grant || fl.is_foreign() != foreign || fl.mmap_in_advance() == noadv)) {
                                    v("xen/flag-predicates", jobj! {"flags" => w, "is_valid" => fl.is_valid(), "is_unix" => fl.is_unix(), "is_grant" => fl.is_grant(), "is_foreign" => fl.is_foreign(), "mmap_in_advance" => fl.mmap_in_advance()});
                                }
                            }
                        }
                        let mut range = MmapRange::new(size, fo, GuestAddress(0x10000), w, 7);
                        if let Some(f) = mflags {
                            range.set_flags(f);
                        }
                        if let Some(pr) = mprot {
                            range.set_prot(pr);
                        }
                        let want_flags = mflags.unwrap_or(libc::MAP_NORESERVE | libc::MAP_SHARED);
                        let want_prot = mprot.unwrap_or(libc::PROT_READ | libc::PROT_WRITE);
                        emu.clear();
                        let before = maps_snapshot();
                        interpose::arm();
                        let res = guarded(|| MmapRegion::<()>::from_range(range));
                        let log = interpose::disarm();
                        let (maps, unmaps) = balance(&log);
                        match res {
                            Err(p) => v(&format!("xen/panic/from_range/{}", panic_sig(&p)), jobj! {"flags" => w, "panic" => p}),
                            Ok(Ok(reg)) => {
                                stats.ok += 1;
                                if let Some(m) = must_refuse {
                                    v(&format!("xen/unsafe-request-accepted/{}", m), jobj! {"flags" => w, "file" => with_file, "offset" => off});
                                }
                                if reg.xen_mmap_flags() != w || reg.xen_mmap_data() != 7 || reg.size() != size || reg.file_offset().map(|f| f.start()) != if with_file { Some(off) } else { None } {
                                    v("xen/region-attributes-differ-from-request", jobj! {"flags" => w, "got_flags" => reg.xen_mmap_flags(), "data" => reg.xen_mmap_data(), "size" => reg.size()});
                                }
                                if reg.prot() != want_prot || reg.flags() != want_flags {
                                    v("xen/prot-or-flags-differ-from-request", jobj! {"prot" => reg.prot(), "want_prot" => want_prot, "flags" => reg.flags(), "want_flags" => want_flags});
                                }
                                if reg.flags() & libc::MAP_FIXED != 0 {
                                    v("xen/region-carries-MAP_FIXED", jobj! {"xen_flags" => w, "flags" => reg.flags()});
                                }
                                // on-demand regions must not map anything at construction
                                if grant && noadv && !maps.is_empty() {
                                    v("xen/on-demand-region-mapped-in-advance", jobj! {"log" => J::dbg(&log)});
                                }
                                if (!grant || !noadv) && maps.len() != 1 {
                                    v("xen/advance-mapped-region-mapping-count", jobj! {"flags" => w, "maps" => J::dbg(&maps)});
                                }
                                interpose::arm();
                                drop(reg);
                                let l2 = interpose::disarm();
                                let (_, um) = balance(&l2);
                                if um != maps {
                                    v("xen/drop-does-not-unmap-exactly-the-mapping", jobj! {"flags" => w, "maps" => J::dbg(&maps), "munmaps" => J::dbg(&um)});
                                }
                                if !emu.live().is_empty() {
                                    v("xen/grant-still-mapped-after-drop", jobj! {"flags" => w, "live" => J::dbg(&emu.live())});
                                }
                            }
                            Ok(Err(e)) => {
                                let en = format!("{:?}", e);
                                let en = en.split('(').next().unwrap_or("").to_string();
                                match must_refuse {
                                    Some(m) => {
                                        stats.refused += 1;
                                        if en != m {
                                            out::note("C15/xen/refused-with-different-variant", jobj! {"got" => en.clone(), "model" => m});
                                        }
                                    }
                                    None => {
                                        if en == "Mmap" || en == "MappingPastEof" {
                                            stats.os_refused += 1;
                                        } else {
                                            v(&format!("xen/safe-request-refused/{}", en), jobj! {"flags" => w, "file" => with_file, "offset" => off, "size" => size});
                                        }
                                    }
                                }
                                if maps.len() != unmaps.len() || !emu.live().is_empty() {
                                    v("xen/failed-construction-left-a-mapping", jobj! {"flags" => w, "mmaps" => J::dbg(&maps), "munmaps" => J::dbg(&unmaps), "grants" => J::dbg(&emu.live())});
                                }
                                let after = maps_snapshot();
                                if after.iter().any(|l| !before.contains(l)) {
                                    v("xen/failed-construction-changed-proc-maps", jobj! {"flags" => w});
                                }
                            }
                        }
                        out::key(&format!("xen|flags{:#x}|file{}|off{}|mflags{:?}|{}", if w < 32 { w } else { 0xff }, with_file, off.min(2), mflags, must_refuse.unwrap_or("safe")), true);
                        out::eval(1);
                        n += 1;
                      }
                    }
                }
            }
        }
        // the environment refuses: the device ioctl or the mmap of an advance-mapped region
        // fails - construction fails and leaves neither a mapping nor a live grant behind;
        // hugetlbfs hint of the request is reported by the region
        for (w, tname) in [(0x1u32, "foreign"), (0x2, "grant"), (0x0, "unix")] {
            for inject in ["device-ioctl-fails", "mmap-fails", "none"] {
                if w == 0 && inject == "device-ioctl-fails" {
                    continue;
                }
                emu.clear();
                let mut range = MmapRange::new(8192, Some(emu.file_offset(0)), GuestAddress(0x20000), w, 3);
                range.set_hugetlbfs(true);
                match inject {
                    "device-ioctl-fails" => {
                        emu.fail_next_map(1);
                        emu.fail_next_foreign(1);
                    }
                    "mmap-fails" => {}
                    _ => {}
                }
                interpose::arm();
                if inject == "mmap-fails" {
                    interpose::fail_next_mmaps(1);
                }
                let res = guarded(|| MmapRegion::<()>::from_range(range));
                interpose::fail_next_mmaps(0);
                let log = interpose::disarm();
                emu.fail_next_map(0);
                emu.fail_next_foreign(0);
                let mut net = interpose::Pieces::default();
                net.apply(&log);
                match res {
                    Err(p) => v(&format!("xen/panic/from_range-with-{}/{}", inject, panic_sig(&p)), jobj! {"type" => tname}),
                    Ok(Ok(mut reg)) => {
                        if inject != "none" {
                            v(&format!("xen/construction-succeeded-although-{}", inject), jobj! {"type" => tname});
                        }
                        if reg.is_hugetlbfs() != Some(true) {
                            v("xen/hugetlbfs-hint-differs-from-request", jobj! {"type" => tname, "got" => J::dbg(&reg.is_hugetlbfs())});
                        }
                        reg.set_hugetlbfs(false);
                        if reg.is_hugetlbfs() != Some(false) {
                            v("xen/set_hugetlbfs-not-reported", jobj! {"type" => tname});
                        }
                        drop(reg);
                    }
                    Ok(Err(_)) => {
                        if inject == "none" {
                            v("xen/safe-request-refused/with-hugetlbfs-hint", jobj! {"type" => tname});
                        }
                        if net.total() != 0 || !emu.live().is_empty() {
                            v("xen/failed-construction-left-a-mapping", jobj! {"type" => tname, "injected" => inject, "left" => J::dbg(&net.v), "grants" => J::dbg(&emu.live())});
                        }
                    }
                }
                out::key(&format!("xen|environment|{}|{}", tname, inject), true);
                out::eval(1);
            }
        }
        // MAP_FIXED and explicit mmap flags
        for flags in [libc::MAP_SHARED | libc::MAP_FIXED, libc::MAP_PRIVATE | libc::MAP_ANONYMOUS | libc::MAP_FIXED] {
            let mut range = MmapRange::new_unix(4096, None, GuestAddress(0));
            range.set_flags(flags);
            match MmapRegion::<()>::from_range(range) {
                Err(vm_memory::mmap::MmapRegionError::MapFixed) => {}
                other => v("xen/unsafe-request-accepted/MapFixed", jobj! {"got_ok" => other.is_ok()}),
            }
            out::eval(1);
        }
        // new_unix with and without files, around EOF
        for fl in [4096u64, 8192] {
            for (off, size) in [(0u64, 4096usize), (4096, 4096), (4096, 4097), (0, fl as usize), (0, fl as usize + 1), (u64::MAX - 4095, 4097)] {
                let f = temp_file(fl);
                let range = MmapRange::new_unix(size, Some(FileOffset::new(f, off)), GuestAddress(0x1000));
                let want_ok = off.checked_add(size as u64).map_or(false, |e| e <= fl);
                let got = MmapRegion::<()>::from_range(range);
                if got.is_ok() != want_ok {
                    v("xen/new_unix-file-bounds", jobj! {"file_len" => fl, "offset" => off, "size" => size, "got_ok" => got.is_ok()});
                }
                out::key(&format!("xen|new_unix|{}", want_ok), true);
                out::eval(1);
            }
        }
        // guest base + size against the end of the guest address space, for EVERY mapping type (the
        // type may treat bits of the address specially; the guest-region rule does not): the region
        // object is built first (on demand where the device would need a real reference), then
        // placed at a base around 2^64 - size
        for (tname, w, with_file) in [("unix-anon", 0u32, false), ("unix-file", 0, true), ("foreign", 0x1, true), ("grant-on-demand", 0x2 | 0x8, true), ("grant-advance", 0x2, true)] {
            for size in [4096usize, 8192, 4097] {
                for d in [-8192i128, -4096, -1, 0, 1, 2, 4096] {
                    let base = (1i128 << 64) - size as i128 + d;
                    if base < 0 || base > u64::MAX as i128 {
                        continue;
                    }
                    // the range itself is described at a harmless guest address (the emulator keys
                    // its bookkeeping on it); the GUEST REGION is then created at `base`
                    let fo = if with_file { Some(emu.file_offset(0)) } else { None };
                    emu.clear();
                    let reg = match guarded(|| MmapRegion::<()>::from_range(MmapRange::new(size, fo, GuestAddress(0x40000), w, 3))) {
                        Ok(Ok(r)) => r,
                        _ => continue,
                    };
                    let got = guarded(|| GuestRegionMmap::new(reg, GuestAddress(base as u64)));
                    match got {
                        Err(p) => v(&format!("xen/panic/guest-region-new/{}", panic_sig(&p)), jobj! {"type" => tname, "base" => base as u64, "size" => size}),
                        Ok(res) => {
                            if d > 0 && res.is_ok() {
                                v("xen/guest-base-plus-size-beyond-address-space-accepted", jobj! {"type" => tname, "base" => J::S(format!("{:#x}", base as u64)), "size" => size});
                            }
                            if d < 0 && res.is_err() {
                                v("xen/safe-request-refused/guest-base", jobj! {"type" => tname, "base" => J::S(format!("{:#x}", base as u64)), "size" => size});
                            }
                            if let Ok(g) = &res {
                                use vm_memory::GuestMemoryRegion;
                                if g.start_addr().0 != base as u64 || g.len() != size as u64 || (d < 0 && g.last_addr().0 != (base as u64).wrapping_add(size as u64 - 1)) {
                                    v("xen/guest-region-attributes", jobj! {"type" => tname, "start" => g.start_addr().0, "len" => g.len()});
                                }
                            }
                        }
                    }
                    out::key(&format!("xen|guest-base|{}|{}", tname, if d > 0 { "beyond" } else if d == 0 { "exact" } else { "below" }), true);
                    out::eval(1);
                    n += 1;
                }
            }
        }
        let _ = MmapXenFlags::UNIX;
        out::count("xen_constructions", n as i128);
        drop(emu);
    }
}

pub fn run(args: &Args) {
    out::set_quiet_cases(true);
    if !interpose::available() {
        out::viol("C15/harness/interposer-not-available", J::Null);
        return;
    }
    let mut stats = Stats::default();
    #[cfg(not(feature = "xen"))]
    {
        let r = guarded(|| {
            std_part::check_file_offset_grid();
            std_part::grid(&mut stats);
            std_part::raw_ptr_grid(&mut stats);
            std_part::block_device_backing(&mut stats);
            std_part::file_length_changes(&mut stats);
            std_part::file_length_changes_between_builder_calls(&mut stats);
            std_part::backing_file_is_descriptor_zero();
            std_part::guest_base_grid();
            std_part::random(args, &mut stats);
        });
        if let Err(p) = r {
            v(&format!("panic/{}", panic_sig(&p)), J::s(p));
        }
        out::sample(jobj! {"request" => "build(file len 4097, offset 4096, size 2, MAP_SHARED)", "model" => "MappingPastEof (offset+size = 4098 > 4097)", "balance" => "0 mmaps, 0 munmaps, /proc/self/maps unchanged"});
        out::sample(jobj! {"request" => "build_raw(ptr = page + 512, size 100)", "model" => "InvalidPointer; no mmap/munmap issued; the foreign mapping stays usable"});
    }
    #[cfg(feature = "xen")]
    {
        let _ = args;
        let r = guarded(|| xen_part::grid(&mut stats));
        if let Err(p) = r {
            v(&format!("xen/panic/{}", panic_sig(&p)), J::s(p));
        }
        out::sample(jobj! {"request" => "MmapRange::new(flags = FOREIGN|GRANT, file, offset 0)", "model" => "MmapFlags error; nothing mapped"});
    }
    out::count("constructed_ok", stats.ok as i128);
    out::count("refused_as_required", stats.refused as i128);
    out::count("os_refused_not_judged", stats.os_refused as i128);
    out::count("coherence_checked_regions", stats.coherent as i128);
    out::count("raw_pointer_cases", stats.raw as i128);
}
