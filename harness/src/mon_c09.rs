//! C09 — the page bitmap behaves as a set of page numbers under every operation sequence.
//! Oracle: BTreeSet<usize> model bounded by pages = ceil(byte_size / page_size); full read-out
//! after every step.

use crate::common::out::{self, J};
use crate::common::prng::Rng;
use crate::common::{guarded, panic_sig, Args};
use std::collections::BTreeSet;
use std::num::NonZeroUsize;
use std::sync::Arc;
use vm_memory::bitmap::{ArcSlice, AtomicBitmap, Bitmap, RefSlice};

#[derive(Clone, Debug)]
pub struct Model {
    pub byte_size: usize,
    pub page: usize,
    pub set: BTreeSet<usize>,
}

impl Model {
    pub fn new(byte_size: usize, page: usize) -> Model {
        Model { byte_size, page, set: BTreeSet::new() }
    }
    pub fn pages(&self) -> usize {
        self.byte_size.div_ceil(self.page)
    }
    /// pages overlapped by [start, start+len) (len > 0), clipped to the page count
    pub fn range_pages(&self, start: usize, len: usize) -> Vec<usize> {
        if len == 0 {
            return vec![];
        }
        let first = start / self.page;
        let last = ((start as u128 + len as u128 - 1).min(usize::MAX as u128) as usize) / self.page;
        let n = self.pages();
        if first >= n {
            return vec![];
        }
        (first..=last.min(n - 1)).collect()
    }
    pub fn set_range(&mut self, start: usize, len: usize) {
        for p in self.range_pages(start, len) {
            self.set.insert(p);
        }
    }
    pub fn reset_range(&mut self, start: usize, len: usize) {
        for p in self.range_pages(start, len) {
            self.set.remove(&p);
        }
    }
    pub fn set_bit(&mut self, i: usize) {
        if i < self.pages() {
            self.set.insert(i);
        }
    }
    pub fn reset_bit(&mut self, i: usize) {
        self.set.remove(&i);
    }
    pub fn is_bit_set(&self, i: usize) -> bool {
        i < self.pages() && self.set.contains(&i)
    }
    pub fn is_addr_set(&self, a: usize) -> bool {
        self.is_bit_set(a / self.page)
    }
    pub fn words(&self) -> Vec<u64> {
        let mut w = vec![0u64; self.pages().div_ceil(64)];
        for p in &self.set {
            w[p / 64] |= 1 << (p % 64);
        }
        w
    }
}

fn size_class(m: &Model) -> &'static str {
    let p = m.pages();
    match p {
        0 => "0p",
        1 => "1p",
        2..=62 => "<63p",
        63..=65 => "~64p",
        66..=126 => "<127p",
        127..=129 => "~128p",
        _ => ">129p",
    }
}
fn page_class(page: usize, byte_size: usize) -> &'static str {
    if page == 1 {
        "p1"
    } else if page > byte_size {
        "p>size"
    } else if page.is_power_of_two() {
        "p2^k"
    } else {
        "podd"
    }
}
fn range_class(m: &Model, start: usize, len: usize) -> &'static str {
    let end = start as u128 + len as u128;
    if len == 0 {
        "empty"
    } else if end > usize::MAX as u128 {
        "overflow"
    } else if start >= m.byte_size {
        "beyond"
    } else if end > m.byte_size as u128 {
        "past-end"
    } else if len == 1 {
        "one-byte"
    } else if start / m.page != (start + len - 1) / m.page {
        "straddle"
    } else {
        "in-page"
    }
}

fn v(sig: &str, m: &Model, d: J) {
    out::viol(
        &format!("C09/{}", sig),
        jobj! {"byte_size" => m.byte_size, "page" => m.page, "model_set" => m.set.iter().take(24).cloned().collect::<Vec<usize>>(), "detail" => d},
    );
}

/// Compare every observable of `b` with the model.
pub fn readout(b: &AtomicBitmap, m: &Model, ctx: &str) -> bool {
    let mut ok = true;
    let pages = m.pages();
    let r = guarded(|| {
        if b.len() != pages {
            v("len", m, jobj! {"ctx" => ctx, "got" => b.len(), "want" => pages});
            return false;
        }
        if b.byte_size() != m.byte_size {
            v("byte_size", m, jobj! {"ctx" => ctx, "got" => b.byte_size(), "want" => m.byte_size});
            return false;
        }
        let mut ok = true;
        for i in 0..pages + 130 {
            let g = b.is_bit_set(i);
            if g != m.is_bit_set(i) {
                v("is_bit_set", m, jobj! {"ctx" => ctx, "index" => i, "got" => g});
                ok = false;
                break;
            }
        }
        // address queries at page starts, page ends and beyond
        let lim = (pages + 3).min(4000);
        for p in 0..lim {
            for a in [p.saturating_mul(m.page), p.saturating_mul(m.page).saturating_add(m.page - 1)] {
                let g = b.is_addr_set(a);
                let d = b.dirty_at(a);
                if g != m.is_addr_set(a) || d != g {
                    v("is_addr_set", m, jobj! {"ctx" => ctx, "addr" => a, "is_addr_set" => g, "dirty_at" => d, "want" => m.is_addr_set(a)});
                    ok = false;
                    break;
                }
            }
        }
        for a in [usize::MAX, usize::MAX - 1, usize::MAX / 2, m.byte_size, m.byte_size.saturating_add(m.page)] {
            if b.is_addr_set(a) != m.is_addr_set(a) {
                v("is_addr_set", m, jobj! {"ctx" => ctx, "addr" => a, "got" => b.is_addr_set(a)});
                ok = false;
            }
        }
        // destructive read-out on a clone: words == model, clone is independent
        let c = b.clone();
        let w = c.get_and_reset();
        if w != m.words() {
            v("get_and_reset-words", m, jobj! {"ctx" => ctx, "got" => J::dbg(&w), "want" => J::dbg(&m.words())});
            ok = false;
        }
        let w2 = c.get_and_reset();
        if w2.iter().any(|x| *x != 0) {
            v("get_and_reset-not-emptied", m, jobj! {"ctx" => ctx, "got" => J::dbg(&w2)});
            ok = false;
        }
        // the clone was emptied; the original must be untouched
        for i in m.set.iter().take(64) {
            if !b.is_bit_set(*i) {
                v("clone-not-independent", m, jobj! {"ctx" => ctx, "index" => *i});
                ok = false;
                break;
            }
        }
        ok
    });
    match r {
        Ok(x) => ok &= x,
        Err(p) => {
            v(&format!("panic/readout/{}", panic_sig(&p)), m, jobj! {"ctx" => ctx, "panic" => p});
            ok = false;
        }
    }
    ok
}

#[derive(Clone, Debug)]
pub enum Op {
    SetRange(usize, usize),
    ResetRange(usize, usize),
    SetBit(usize),
    ResetBit(usize),
    GetAndReset,
    Reset,
    Enlarge(usize),
    CloneSwap,
    /// `dst.clone_from(&cur)` where dst is another bitmap of (byte size, page size) with every page
    /// dirty; the history continues on dst, which must now be an independent copy of cur
    CloneFromInto(usize, usize),
    MarkDirty(usize, usize),
    /// mark through slice_at(o1).slice_at(o2): (o1, o2, off, len)
    SliceMark(usize, usize, usize, usize),
    ArcSliceMark(usize, usize, usize, usize),
}

impl Op {
    fn name(&self) -> &'static str {
        match self {
            Op::SetRange(..) => "set_addr_range",
            Op::ResetRange(..) => "reset_addr_range",
            Op::SetBit(..) => "set_bit",
            Op::ResetBit(..) => "reset_bit",
            Op::GetAndReset => "get_and_reset",
            Op::Reset => "reset",
            Op::Enlarge(..) => "enlarge",
            Op::CloneSwap => "clone",
            Op::CloneFromInto(..) => "clone_from",
            Op::MarkDirty(..) => "mark_dirty",
            Op::SliceMark(..) => "slice_at.slice_at.mark_dirty",
            Op::ArcSliceMark(..) => "ArcSlice.slice_at.mark_dirty",
        }
    }
}

/// Apply `op` to both; returns false on a detected violation.
fn apply(b: &mut Arc<AtomicBitmap>, m: &mut Model, op: &Op) -> bool {
    let before = m.clone();
    let opname = op.name();
    let res = guarded(|| -> Result<(), J> {
        match op {
            Op::SetRange(s, l) => {
                b.set_addr_range(*s, *l);
                m.set_range(*s, *l);
            }
            Op::ResetRange(s, l) => {
                b.reset_addr_range(*s, *l);
                m.reset_range(*s, *l);
            }
            Op::SetBit(i) => {
                b.set_bit(*i);
                m.set_bit(*i);
            }
            Op::ResetBit(i) => {
                b.reset_bit(*i);
                m.reset_bit(*i);
            }
            Op::GetAndReset => {
                let w = b.get_and_reset();
                let want = m.words();
                m.set.clear();
                if w != want {
                    return Err(jobj! {"got" => J::dbg(&w), "want" => J::dbg(&want)});
                }
            }
            Op::Reset => {
                b.reset();
                m.set.clear();
            }
            Op::Enlarge(a) => {
                let bm = Arc::get_mut(b).expect("unique");
                bm.enlarge(*a);
                m.byte_size += *a;
            }
            Op::CloneSwap => {
                // continue with the clone; mutate the original afterwards to show independence
                let c = (**b).clone();
                let old = std::mem::replace(b, Arc::new(c));
                old.set_addr_range(0, usize::MAX);
                old.reset();
            }
            Op::CloneFromInto(bytes, page) => {
                // (the interpreter pays per page for making every page of the destination dirty)
                let bytes = if cfg!(miri) { &(*bytes).min(300) } else { bytes };
                let mut dst = AtomicBitmap::new(*bytes, std::num::NonZeroUsize::new((*page).max(1)).unwrap());
                dst.set_addr_range(0, usize::MAX);
                dst.clone_from(&**b);
                let old = std::mem::replace(b, Arc::new(dst));
                old.set_addr_range(0, usize::MAX);
                old.reset();
            }
            Op::MarkDirty(s, l) => {
                b.mark_dirty(*s, *l);
                m.set_range(*s, *l);
            }
            Op::SliceMark(o1, o2, off, len) => {
                let s1: RefSlice<AtomicBitmap> = b.slice_at(*o1);
                let s2 = s1.slice_at(*o2);
                let base = o1.wrapping_add(*o2);
                // reads through the view before the write
                for d in [0usize, 1, m.page, *off] {
                    let want = m.is_addr_set(base.wrapping_add(d));
                    if s2.dirty_at(d) != want {
                        return Err(jobj! {"slice_dirty_at" => d, "base" => base, "want" => want});
                    }
                }
                s2.mark_dirty(*off, *len);
                m.set_range(base.wrapping_add(*off), *len);
                if *len > 0 {
                    let a = base.wrapping_add(*off);
                    if s2.dirty_at(*off) != m.is_addr_set(a) {
                        return Err(jobj! {"slice_dirty_at_after_mark" => *off, "base" => base});
                    }
                }
            }
            Op::ArcSliceMark(o1, o2, off, len) => {
                let s1: ArcSlice<AtomicBitmap> = ArcSlice::new(b.clone(), *o1);
                let s2 = s1.slice_at(*o2);
                let base = o1.wrapping_add(*o2);
                s2.mark_dirty(*off, *len);
                m.set_range(base.wrapping_add(*off), *len);
                let want = m.is_addr_set(base.wrapping_add(*off));
                if s2.dirty_at(*off) != want {
                    return Err(jobj! {"arcslice_dirty_at" => *off, "base" => base, "want" => want});
                }
            }
        }
        Ok(())
    });
    match res {
        Ok(Ok(())) => true,
        Ok(Err(d)) => {
            v(opname, &before, jobj! {"op" => J::dbg(op), "mismatch" => d});
            false
        }
        Err(p) => {
            v(&format!("panic/{}/{}", opname, panic_sig(&p)), &before, jobj! {"op" => J::dbg(op), "panic" => p});
            false
        }
    }
}

fn op_key(m: &Model, op: &Op, depth: &str) {
    let rc = match op {
        Op::SetRange(s, l) | Op::ResetRange(s, l) | Op::MarkDirty(s, l) => range_class(m, *s, *l),
        Op::SliceMark(a, b2, o, l) | Op::ArcSliceMark(a, b2, o, l) => range_class(m, a.wrapping_add(*b2).wrapping_add(*o), *l),
        Op::SetBit(i) | Op::ResetBit(i) => {
            if *i < m.pages() {
                "bit-in"
            } else {
                "bit-out"
            }
        }
        Op::Enlarge(a) => {
            if *a == 0 {
                "enl0"
            } else if (m.byte_size + a).div_ceil(m.page).div_ceil(64) != m.pages().div_ceil(64) {
                "enl-newword"
            } else {
                "enl-sameword"
            }
        }
        _ => "-",
    };
    out::key(&format!("{}|{}|{}|{}|{}", op.name(), page_class(m.page, m.byte_size), size_class(m), rc, depth), true);
}

fn gen_range(r: &mut Rng, m: &Model) -> (usize, usize) {
    let bs = m.byte_size;
    let p = m.page;
    let start = match r.below(10) {
        0 => 0,
        1 => bs.saturating_sub(1),
        2 => bs,
        3 => bs + r.usize_below(2 * p + 2),
        4 => usize::MAX - r.usize_below(3 * p + 2),
        5 if r.chance(1, 4) => crate::common::gen::pow2_near(r) as usize,
        5 => (r.usize_below(m.pages() + 1)) * p,
        6 => (r.usize_below(m.pages() + 1) * p).saturating_sub(1),
        _ => r.usize_below(bs + 1),
    };
    let len = match r.below(10) {
        0 => 0,
        1 => 1,
        2 => p,
        3 => p + 1,
        4 => p.saturating_sub(1),
        5 => usize::MAX - r.usize_below(4),
        6 => bs.saturating_sub(start) + r.usize_below(3),
        7 => usize::MAX - start + r.usize_below(3).min(start),
        // spans of 2^k +- d pages for every k (width-truncating arithmetic, threshold fast paths)
        8 => (crate::common::gen::pow2_near(r) as usize).saturating_mul(if r.chance(1, 2) { 1 } else { p }),
        _ => r.usize_below(3 * p + 2),
    };
    (start, len)
}

fn gen_op(r: &mut Rng, m: &Model, allow_enlarge: bool) -> Op {
    match r.below(100) {
        0..=24 => {
            let (s, l) = gen_range(r, m);
            Op::SetRange(s, l)
        }
        25..=39 => {
            let (s, l) = gen_range(r, m);
            Op::ResetRange(s, l)
        }
        40..=49 => Op::SetBit(match r.below(4) {
            0 => m.pages(),
            1 => m.pages().saturating_sub(1),
            2 => usize::MAX - r.usize_below(2),
            _ => r.usize_below(m.pages() + 70),
        }),
        50..=57 => Op::ResetBit(match r.below(4) {
            0 => m.pages(),
            1 => m.pages().saturating_sub(1),
            _ => r.usize_below(m.pages() + 70),
        }),
        58..=61 => Op::GetAndReset,
        62..=63 => Op::Reset,
        64..=69 if allow_enlarge => Op::Enlarge(match r.below(6) {
            0 => 0,
            1 => 1,
            2 => m.page,
            3 => m.page * 64,
            4 => m.page * 63 + 1,
            _ => r.usize_below(4 * m.page + 2),
        }),
        70..=71 => Op::CloneSwap,
        72..=73 => {
            // destination larger / smaller / same number of 64-page words, other page size
            let page = if r.chance(1, 2) { m.page } else { 1 + r.usize_below(9) };
            let bytes = match r.below(5) {
                0 => 0,
                1 => m.byte_size,
                2 => m.byte_size + page * 64 * (1 + r.usize_below(3)),
                3 => m.byte_size / 2,
                _ => r.usize_below(2 * m.byte_size + 600),
            };
            Op::CloneFromInto(bytes, page)
        }
        74..=81 => {
            let (s, l) = gen_range(r, m);
            Op::MarkDirty(s, l)
        }
        82..=92 => {
            let (s, l) = gen_range(r, m);
            let o1 = if r.chance(1, 8) { usize::MAX - r.usize_below(5) } else { r.usize_below(s / 2 + 1) };
            let rem = s.wrapping_sub(o1);
            let o2 = if r.chance(1, 8) { r.next() as usize } else { r.usize_below(rem / 2 + 1) };
            let off = s.wrapping_sub(o1).wrapping_sub(o2);
            Op::SliceMark(o1, o2, off, l)
        }
        _ => {
            let (s, l) = gen_range(r, m);
            let o1 = r.usize_below(s / 2 + 1);
            let o2 = r.usize_below((s - o1) / 2 + 1);
            Op::ArcSliceMark(o1, o2, s - o1 - o2, l)
        }
    }
}

fn exhaustive_small(args: &Args) {
    let max_bs = args.u64("xbs", 20) as usize;
    let lim = 22usize;
    let mut n = 0u64;
    for page in 1..=3usize {
        for bs in 0..=max_bs {
            let base = Model::new(bs, page);
            let pages = base.pages();
            // initial states: empty, full, odd pages, even pages
            let inits: Vec<BTreeSet<usize>> = vec![
                BTreeSet::new(),
                (0..pages).collect(),
                (0..pages).filter(|p| p % 2 == 1).collect(),
                (0..pages).filter(|p| p % 2 == 0).collect(),
            ];
            let mut ops = vec![Op::GetAndReset, Op::Reset, Op::CloneSwap, Op::CloneFromInto(0, 1), Op::CloneFromInto(4096, 1), Op::CloneFromInto(64 * 200, 7)];
            for s in 0..=lim {
                for l in 0..=lim {
                    ops.push(Op::SetRange(s, l));
                    ops.push(Op::ResetRange(s, l));
                }
                ops.push(Op::SetBit(s));
                ops.push(Op::ResetBit(s));
            }
            for init in &inits {
                for op in &ops {
                    let mut m = base.clone();
                    let mut b = Arc::new(AtomicBitmap::new(bs, NonZeroUsize::new(page).unwrap()));
                    for p in init {
                        b.set_bit(*p);
                        m.set_bit(*p);
                    }
                    op_key(&m, op, "x1");
                    out::set_case(n);
                    if apply(&mut b, &mut m, op) {
                        readout(&b, &m, "exhaustive-small");
                    }
                    n += 1;
                }
            }
        }
    }
    out::eval(n);
    out::count("exhaustive_single_ops", n as i128);
}

fn sizes(r: &mut Rng, page: usize) -> usize {
    if cfg!(miri) {
        // keep page counts small under the interpreter (every step reads the whole bitmap out)
        let page = page.min(8);
        return match r.below(6) {
            0 => 0,
            1 => page + 1,
            2 => 63 * page + r.usize_below(2 * page + 1),
            3 => 64 * page + 1,
            _ => r.usize_below(40 * page + 1),
        };
    }
    match r.below(14) {
        0 => 0,
        1 => 1,
        2 => page - 1,
        3 => page,
        4 => page + 1,
        5 => 63 * page + r.usize_below(2 * page + 1),
        6 => 64 * page,
        7 => 64 * page + 1,
        8 => 127 * page + r.usize_below(2 * page + 1),
        9 => 128 * page,
        10 => 128 * page + 1,
        11 => 65 * page - 1,
        _ => r.usize_below(10_000),
    }
}

pub fn run(args: &Args) {
    out::set_quiet_cases(true);
    if !args.flag("noexh") {
        exhaustive_small(args);
    }
    // trivial bitmaps
    {
        let u = ();
        u.mark_dirty(0, 100);
        if u.dirty_at(0) || u.slice_at(5).dirty_at(0) {
            out::viol("C09/unit-bitmap-dirty", J::Null);
        }
        let none: Option<AtomicBitmap> = None;
        none.mark_dirty(0, 100);
        if none.dirty_at(0) || none.slice_at(3).dirty_at(0) {
            out::viol("C09/none-bitmap-dirty", J::Null);
        }
        let some = Some(AtomicBitmap::new(100, NonZeroUsize::new(10).unwrap()));
        some.slice_at(15).mark_dirty(5, 1);
        let got: Vec<usize> = (0..12).filter(|p| some.dirty_at(p * 10)).collect();
        if got != vec![2] || !some.slice_at(20).dirty_at(0) || some.slice_at(30).dirty_at(0) {
            out::viol("C09/option-some-slice", jobj! {"pages" => got});
        }
        // default-constructed slices: views of an empty bitmap
        let ds: ArcSlice<AtomicBitmap> = ArcSlice::default();
        ds.mark_dirty(0, 10);
        ds.slice_at(5).mark_dirty(3, usize::MAX);
        if ds.dirty_at(0) || ds.slice_at(7).dirty_at(1) || format!("{:?}", ds).is_empty() {
            out::viol("C09/default-slice", J::Null);
        }
        out::key("trivial|unit|none|some", true);
    }
    // page indices beyond 2^32 (a 16 TiB guest with 4 KiB pages; here: page size 1): index
    // arithmetic narrower than usize would alias them onto low pages
    if args.shard().0 == 0 && !cfg!(miri) && !args.flag("nohuge") {
        let r0 = guarded(|| {
            let pages = (1usize << 32) + 70_000;
            let b = AtomicBitmap::new(pages, NonZeroUsize::new(1).unwrap());
            let lim = 1usize << 32;
            let mut want: BTreeSet<usize> = BTreeSet::new();
            let probes = |b: &AtomicBitmap, want: &BTreeSet<usize>, ctx: &str| {
                let mut pts: Vec<usize> = vec![0, 1, 63, 64, 0x1234, 69_999, lim - 65, lim - 1, lim, lim + 1, lim + 63, lim + 64, lim + 0x1234, pages - 1, pages, pages + 5];
                pts.extend(want.iter().flat_map(|p| [*p, p.wrapping_sub(1), p + 1, p.wrapping_sub(lim), p % lim]));
                for p in pts {
                    let w = p < pages && want.contains(&p);
                    if b.is_bit_set(p) != w || b.is_addr_set(p) != w || b.dirty_at(p) != w {
                        out::viol("C09/huge/page-state-differs-from-model", jobj! {"ctx" => ctx, "page" => p, "want_set" => w, "is_bit_set" => b.is_bit_set(p)});
                        return false;
                    }
                }
                true
            };
            let steps: Vec<(&str, usize, usize, bool)> = vec![
                ("mark above 2^32", lim + 0x1234, 8, true),
                ("mark straddling 2^32", lim - 3, 7, true),
                ("mark single page 2^32", lim, 1, true),
                ("mark near the end", pages - 2, 10, true),
                ("mark low alias", 0x1234 + 3, 2, true),
                ("reset above 2^32", lim + 0x1236, 3, false),
                ("reset low alias region", 0x1230, 4, false),
                ("mark word-straddling above 2^32", lim + 60, 10, true),
                ("reset straddling 2^32", lim - 1, 2, false),
            ];
            for (name, s0, l, set) in steps {
                if set {
                    b.set_addr_range(s0, l);
                } else {
                    b.reset_addr_range(s0, l);
                }
                for p in s0..(s0 + l).min(pages) {
                    if set {
                        want.insert(p);
                    } else {
                        want.remove(&p);
                    }
                }
                if !probes(&b, &want, name) {
                    return;
                }
                out::key(&format!("huge|{}", name), true);
                out::eval(1);
            }
            b.set_bit(lim + 999);
            want.insert(lim + 999);
            b.reset_bit(lim + 0x1234);
            want.remove(&(lim + 0x1234));
            probes(&b, &want, "set_bit/reset_bit above 2^32");
            // views
            let sl = b.slice_at(lim);
            sl.mark_dirty(5000, 3);
            want.extend([lim + 5000, lim + 5001, lim + 5002]);
            probes(&b, &want, "slice_at(2^32).mark_dirty");
            if b.len() != pages || b.byte_size() != pages {
                out::viol("C09/huge/len", jobj! {"len" => b.len(), "byte_size" => b.byte_size()});
            }
            out::count("huge_bitmap_pages", pages as i128);
        });
        if let Err(p) = r0 {
            out::viol(&format!("C09/panic/huge/{}", panic_sig(&p)), J::s(p));
        }
    }
    // EVERY page of a bitmap with 2^32 (+-64, and 2^33) pages dirty at the same time (a count of dirty
    // pages kept in 32 bits wraps exactly there): marked by 16 threads, harvested once; the
    // harvest must return all of them and leave nothing behind
    if args.flag("alldirty") && !cfg!(miri) {
        let r0 = guarded(|| {
            for pages in [(1usize << 32) - 64, 1 << 32, (1 << 32) + 64, 1 << 33] {
                let b = Arc::new(AtomicBitmap::new(pages, NonZeroUsize::new(1).unwrap()));
                let nthreads = 16usize;
                let chunk = (pages / nthreads / 64 + 1) * 64;
                let hs: Vec<_> = (0..nthreads)
                    .map(|t| {
                        let b = b.clone();
                        std::thread::spawn(move || {
                            let s0 = t * chunk;
                            if s0 < pages {
                                b.set_addr_range(s0, chunk.min(pages - s0));
                            }
                        })
                    })
                    .collect();
                for h in hs {
                    let _ = h.join();
                }
                let all_set = [0usize, 1, 63, 64, pages / 2, pages - 2, pages - 1].iter().all(|p| b.is_bit_set(*p));
                let words = b.get_and_reset();
                let reported: u64 = words.iter().map(|w| w.count_ones() as u64).sum();
                let left = [0usize, 1, 63, 64, pages / 2, pages - 2, pages - 1].iter().filter(|p| b.is_bit_set(**p)).count();
                let again: u64 = b.get_and_reset().iter().map(|w| w.count_ones() as u64).sum();
                if !all_set || reported != pages as u64 || left != 0 || again != 0 {
                    out::viol("C09/all-dirty/harvest-of-a-completely-dirty-bitmap", jobj! {"pages" => pages, "probed_pages_set_before" => all_set, "pages_reported_by_get_and_reset" => reported, "probed_pages_still_set_after" => left, "pages_reported_by_a_second_harvest" => again});
                    return;
                }
                out::key(&format!("all-dirty|{}", if pages == 1 << 32 { "2^32".to_string() } else if pages == 1 << 33 { "2^33".to_string() } else if pages < 1 << 32 { "2^32-64".to_string() } else { "2^32+64".to_string() }), true);
                out::eval(1);
                out::count("all_dirty_pages_harvested", pages as i128);
            }
        });
        if let Err(p) = r0 {
            out::viol(&format!("C09/panic/all-dirty/{}", panic_sig(&p)), J::s(p));
        }
    }
    // an operation applied to the result of a FAILED previous operation: an `enlarge` whose new
    // byte size does not fit in usize panics in builds with overflow checks; the caller catches the
    // panic and keeps using the bitmap, which must still be the set it was (same page count, same
    // byte size, same marks; pages beyond the count ignored; a later valid enlarge works)
    let overflow_checks_on = std::panic::catch_unwind(|| std::hint::black_box(255u8) + std::hint::black_box(1u8)).is_err();
    if args.shard().0 == 0 && overflow_checks_on && !cfg!(miri) {
        let r0 = guarded(|| {
            for (bs, page, add) in [(1024usize, 128usize, usize::MAX - 512), (100, 7, usize::MAX - 99), (100, 7, usize::MAX), (3 * 4096 + 1, 4096, usize::MAX - 3 * 4096), (usize::MAX - 100, 1 << 62, 101), (usize::MAX - 100, 1 << 62, usize::MAX), (64 * 4096, 4096, usize::MAX - 64 * 4096 + 1), (5, 1, usize::MAX - 4)] {
                let mut m = Model::new(bs, page);
                let mut b = Arc::new(AtomicBitmap::new(bs, NonZeroUsize::new(page).unwrap()));
                for op in [Op::SetBit(0), Op::SetBit(m.pages() - 1), Op::SetRange(page, page.saturating_add(1))] {
                    if !apply(&mut b, &mut m, &op) {
                        return;
                    }
                }
                let failed = guarded(|| Arc::get_mut(&mut b).expect("unique").enlarge(add)).is_err();
                if !failed {
                    // (a build in which this sum does not panic: nothing to judge here)
                    out::note("C09/failed-enlarge/did-not-fail", jobj! {"byte_size" => bs, "additional" => add});
                    continue;
                }
                if !readout(&b, &m, "after-a-failed-enlarge") {
                    return;
                }
                let pages = m.pages();
                for op in [Op::SetBit(pages), Op::SetBit(pages + 1), Op::SetRange((pages - 1).saturating_mul(page), page.saturating_mul(3)), Op::MarkDirty(pages.saturating_mul(page), 1), Op::GetAndReset, Op::SetBit(pages), Op::GetAndReset] {
                    if !apply(&mut b, &mut m, &op) {
                        return;
                    }
                }
                // a later enlarge that fits behaves like any other
                if let Some(room) = usize::MAX.checked_sub(bs) {
                    let small = room.min(page + 1);
                    if small > 0 && bs.checked_add(small).map_or(false, |n| n.div_ceil(page) < (1 << 24)) {
                        let last_after = (bs + small).div_ceil(page) - 1;
                        if !apply(&mut b, &mut m, &Op::Enlarge(small)) || !apply(&mut b, &mut m, &Op::SetBit(last_after)) || !apply(&mut b, &mut m, &Op::GetAndReset) {
                            return;
                        }
                    }
                }
                out::key(&format!("failed-enlarge|page{}|{}", if page == 1 { "1" } else if page.is_power_of_two() { "2^k" } else { "odd" }, if bs > usize::MAX / 2 { "huge" } else { "small" }), true);
                out::eval(1);
            }
        });
        if let Err(p) = r0 {
            out::viol(&format!("C09/panic/failed-enlarge/{}", panic_sig(&p)), J::s(p));
        }
    }
    // page-count thresholds (auxiliary structures may appear above 2^12 / 2^16 / 2^18 / 2^20 pages):
    // bitmaps created just below / above a threshold, and small bitmaps with marks that are
    // ENLARGED across it, then harvested
    if args.shard().0 == 0 && !cfg!(miri) && !args.flag("nothresholds") {
        let r0 = guarded(|| {
            for t in [1usize << 12, 1 << 16, 1 << 18, (1 << 18) + 64, 1 << 20] {
                for (vi, (start, grow)) in [(t - 70, 140usize), (100, 2 * t), (t - 1, 1), (t, 1), (t + 70, 0), (3, t - 3), (t - 70, 140), (100, 2 * t)].into_iter().enumerate() {
                    // the last two repeat the first two WITHOUT replacing the object by its clone
                    // before the harvest (a clone may rebuild what the original lost)
                    let with_clone = vi < 6;
                    let mut m = Model::new(start, 1);
                    let mut b = Arc::new(AtomicBitmap::new(start, NonZeroUsize::new(1).unwrap()));
                    let marks = [0usize, 1, 63, 64, start / 2, start.saturating_sub(2), start.saturating_sub(1)];
                    for p in marks {
                        if !apply(&mut b, &mut m, &Op::SetBit(p)) {
                            return;
                        }
                    }
                    if !apply(&mut b, &mut m, &Op::SetRange(start / 3, 130)) || !apply(&mut b, &mut m, &Op::Enlarge(grow)) {
                        return;
                    }
                    // marks in the grown part too, then the harvest must return exactly the model
                    let newp = start + grow;
                    for op in [Op::SetBit(newp.saturating_sub(1)), Op::MarkDirty(start.saturating_sub(3), 9), Op::CloneSwap, Op::GetAndReset, Op::SetBit(5), Op::SetBit(newp / 2), Op::GetAndReset, Op::GetAndReset] {
                        if !with_clone && matches!(op, Op::CloneSwap) {
                            continue;
                        }
                        if !apply(&mut b, &mut m, &op) {
                            return;
                        }
                    }
                    if !readout(&b, &m, "threshold") {
                        return;
                    }
                    out::key(&format!("threshold|2^{}{}|start{}|grow{}{}", usize::BITS - 1 - t.leading_zeros(), if t.is_power_of_two() { "" } else { "+" }, if start < t { "<t" } else { ">=t" }, if start + grow > t { ">t" } else { "<=t" }, if with_clone { "" } else { "|no-clone" }), true);
                    out::eval(1);
                }
            }
        });
        if let Err(p) = r0 {
            out::viol(&format!("C09/panic/thresholds/{}", panic_sig(&p)), J::s(p));
        }
    }
    // counters that wrap: the same operation repeated 2^8 / 2^16 times (+-1) between two uses of a
    // page; a page marked before must be markable again and a page cleared must stay clear
    if args.shard().0 == 0 && !cfg!(miri) && !args.flag("nowrap") {
        let r0 = guarded(|| {
            for reps in [255usize, 256, 257, 65535, 65536, 65537, 131072, 65536 * 3] {
                for clear_kind in 0..4u8 {
                    let b = AtomicBitmap::new(300, NonZeroUsize::new(1).unwrap());
                    let p = 77usize;
                    b.set_bit(p);
                    b.reset_bit(p);
                    b.set_addr_range(p, 1);
                    b.reset_addr_range(p, 1);
                    b.mark_dirty(p, 1);
                    let _ = b.get_and_reset();
                    b.set_bit(p);
                    // many clearing operations that do not involve P's neighbours
                    for i in 0..reps {
                        match clear_kind {
                            0 => b.reset_bit(200 + i % 50),
                            1 => b.reset_addr_range(200, 3),
                            2 => {
                                b.reset_bit(p);
                            }
                            _ => {
                                let w = b.get_and_reset();
                                if i == 0 && (w[1] >> (p - 64)) & 1 != 1 {
                                    out::viol("C09/wrap/first-harvest-missed-the-page", jobj! {"reps" => reps});
                                }
                            }
                        }
                    }
                    let was = b.is_bit_set(p);
                    let want_was = clear_kind < 2;
                    b.set_bit(p);
                    let after_set = b.is_bit_set(p);
                    b.reset_bit(p);
                    b.mark_dirty(p, 1);
                    let after_mark = b.dirty_at(p);
                    b.reset_addr_range(p, 1);
                    b.set_addr_range(p, 1);
                    let w = b.get_and_reset();
                    if was != want_was || !after_set || !after_mark || (w[1] >> (p - 64)) & 1 != 1 || b.is_bit_set(p) {
                        out::viol("C09/wrap/page-state-wrong-after-many-repetitions", jobj! {"repetitions" => reps, "clear_kind" => clear_kind, "set_before_remark" => was, "after_set_bit" => after_set, "after_mark_dirty" => after_mark, "harvested" => (w[1] >> (p - 64)) & 1});
                    }
                    out::key(&format!("wrap|reps{}|kind{}", reps, clear_kind), true);
                    out::eval(reps as u64);
                }
            }
        });
        if let Err(p) = r0 {
            out::viol(&format!("C09/panic/wrap/{}", panic_sig(&p)), J::s(p));
        }
    }
    let pages_list = [1usize, 2, 3, 5, 7, 64, 100, 128, 4096];
    let lo = args.u64("minops", 30);
    let hi = args.u64("maxops", 300);
    for case in args.cases(3000) {
        let mut r = Rng::new(args.seed(), "c09", case);
        let mut page = if cfg!(miri) { *r.pick(&[1usize, 2, 3, 5, 7, 8]) } else { *r.pick(&pages_list) };
        let mut bs = sizes(&mut r, page);
        if r.chance(1, 10) {
            // page larger than the byte size
            page = bs + 1 + r.usize_below(5);
        }
        if r.chance(1, 20) {
            bs = r.usize_below(40);
        }
        // constructors: new(size, page); NewBitmap::with_len(size) and Default (system page size)
        let ctor = r.below(8);
        if ctor >= 6 {
            // SAFETY: plain sysconf.
            page = unsafe { libc::sysconf(libc::_SC_PAGE_SIZE) } as usize;
            if ctor == 7 {
                bs = 0;
            } else if !cfg!(miri) && r.chance(1, 2) {
                bs = page * (1 + r.usize_below(130)) + r.usize_below(3).wrapping_sub(1).min(page);
            }
        }
        let mut m = Model::new(bs, page);
        let b = guarded(|| match ctor {
            6 => <AtomicBitmap as vm_memory::bitmap::NewBitmap>::with_len(bs),
            7 => AtomicBitmap::default(),
            _ => AtomicBitmap::new(bs, NonZeroUsize::new(page).unwrap()),
        });
        let mut b = match b {
            Ok(b) => Arc::new(b),
            Err(p) => {
                v(&format!("panic/new/{}", panic_sig(&p)), &m, J::s(p));
                continue;
            }
        };
        out::case(case, jobj! {"byte_size" => bs, "page" => page});
        let nops = r.range(lo, hi);
        let mut trace: Vec<String> = vec![];
        let mut depth = 0u32;
        if !readout(&b, &m, "fresh") {
            continue;
        }
        for step in 0..nops {
            let allow_enl = m.byte_size < 200_000;
            let op = gen_op(&mut r, &m, allow_enl);
            if matches!(op, Op::Enlarge(_) | Op::CloneSwap | Op::CloneFromInto(..)) {
                depth += 1;
            }
            op_key(&m, &op, if depth == 0 { "d0" } else if depth < 3 { "d1-2" } else { "d3+" });
            if trace.len() < 12 {
                trace.push(format!("{:?}", op));
            }
            let ok = apply(&mut b, &mut m, &op) && (step % 3 != 0 && m.pages() > 2000 || readout(&b, &m, op.name()));
            if !ok {
                break;
            }
        }
        if out::want_sample() {
            out::sample(jobj! {"byte_size" => bs, "page" => page, "first_ops" => trace, "final_pages_set" => m.set.len(), "final_pages" => m.pages()});
        }
    }
}
