//! C17 — pointer guards span their accessor; on-demand mappings cover every access.
//!
//! Part A (every build): ptr_guard()/ptr_guard_mut() of slices, typed refs and array refs point at
//! the accessor's first byte and report the number of bytes it covers.
//! Part B (xen build, emulated grant device through the interposed ioctl): every access to a
//! GRANT|NO_ADVANCE_MAP region happens inside a temporary window that covers all bytes it touches
//! and is released afterwards. Oracle: emulator log + interposer log + emulator file contents.

use crate::common::arena::{Arena, Place};
use crate::common::out::{self, J};
use crate::common::prng::Rng;
use crate::common::{guarded, panic_sig, Args};
use std::mem::size_of;
use vm_memory::{ByteValued, VolatileMemory, VolatileSlice};

fn v(sig: &str, d: J) {
    out::viol(&format!("C17/{}", sig), d);
}

// ---------------------------------------------------------------------------------------------
// Part A

fn guard_checks_for<T: ByteValued>(s: &VolatileSlice<()>, base: usize, tn: &str, r: &mut Rng) {
    let len = s.len();
    let es = size_of::<T>();
    // typed ref
    if len >= es {
        let off = r.usize_below(len - es + 1);
        if let Ok(rf) = s.get_ref::<T>(off) {
            let g = rf.ptr_guard();
            let gm = rf.ptr_guard_mut();
            if g.as_ptr() as usize != base + off || g.len() != es || gm.as_ptr() as usize != base + off || gm.len() != es {
                v(&format!("guard/VolatileRef/{}", tn), jobj! {"off" => off, "guard_len" => g.len(), "guard_mut_len" => gm.len(), "want_len" => es});
            }
            out::key(&format!("guard|ref|{}", tn), true);
        }
    }
    // array refs of several counts
    for n in [0usize, 1, 2, 3, 5, 16, len / es.max(1)] {
        if n * es > len {
            continue;
        }
        let off = r.usize_below(len - n * es + 1);
        if let Ok(a) = s.get_array_ref::<T>(off, n) {
            let g = a.ptr_guard();
            let gm = a.ptr_guard_mut();
            let want = n * es;
            if g.as_ptr() as usize != base + off || gm.as_ptr() as usize != base + off {
                v(&format!("guard-pointer/VolatileArrayRef/{}", tn), jobj! {"off" => off, "count" => n});
            }
            if g.len() != want || gm.len() != want {
                v(&format!("guard-len/VolatileArrayRef/{}", tn), jobj! {"off" => off, "count" => n, "guard_len" => g.len(), "guard_mut_len" => gm.len(), "want_len_bytes" => want});
            }
            let ts = a.to_slice();
            let tg = ts.ptr_guard();
            if tg.len() != want || tg.as_ptr() as usize != base + off {
                v(&format!("guard/array.to_slice/{}", tn), jobj! {"count" => n, "guard_len" => tg.len(), "want" => want});
            }
            if n > 0 {
                let i = r.usize_below(n);
                let rf = a.ref_at(i);
                let rg = rf.ptr_guard_mut();
                if rg.len() != es || rg.as_ptr() as usize != base + off + i * es {
                    v(&format!("guard/ref_at/{}", tn), jobj! {"index" => i, "guard_len" => rg.len(), "want" => es});
                }
            }
            out::key(&format!("guard|array|{}|n{}", tn, n.min(17)), true);
            out::eval(1);
        }
    }
}

fn part_a(args: &Args) {
    for case in args.cases(400) {
        let mut r = Rng::new(args.seed(), "c17a", case);
        let len = match r.below(5) {
            0 => r.usize_below(20),
            _ => r.usize_below(301),
        };
        let a = Arena::new(len, Place::C(r.usize_below(16)));
        // SAFETY: arena valid for len bytes.
        let root = unsafe { VolatileSlice::new(a.ptr, a.len) };
        // derive by a short chain
        let mut s = root;
        let mut base = a.ptr as usize;
        for _ in 0..r.usize_below(4) {
            let l = s.len();
            let o = r.usize_below(l + 1);
            let c = r.usize_below(l - o + 1);
            match r.below(3) {
                0 => {
                    s = s.subslice(o, c).unwrap();
                    base += o;
                }
                1 => {
                    s = s.offset(o).unwrap();
                    base += o;
                }
                _ => {
                    let (x, y) = s.split_at(o).unwrap();
                    if r.chance(1, 2) {
                        s = x;
                    } else {
                        s = y;
                        base += o;
                    }
                }
            }
        }
        let g = s.ptr_guard();
        let gm = s.ptr_guard_mut();
        if g.as_ptr() as usize != base || g.len() != s.len() || gm.as_ptr() as usize != base || gm.len() != s.len() {
            v("guard/VolatileSlice", jobj! {"guard_len" => g.len(), "slice_len" => s.len()});
        }
        out::key("guard|slice", true);
        guard_checks_for::<u8>(&s, base, "u8", &mut r);
        guard_checks_for::<u16>(&s, base, "u16", &mut r);
        guard_checks_for::<u32>(&s, base, "u32", &mut r);
        guard_checks_for::<u64>(&s, base, "u64", &mut r);
        guard_checks_for::<u128>(&s, base, "u128", &mut r);
        guard_checks_for::<[u8; 3]>(&s, base, "[u8;3]", &mut r);
        guard_checks_for::<[u16; 5]>(&s, base, "[u16;5]", &mut r);
        guard_checks_for::<[u8; 7]>(&s, base, "[u8;7]", &mut r);
    }
}

// ---------------------------------------------------------------------------------------------
// Part B

#[cfg(feature = "xen")]
mod part_b {
    use super::*;
    use crate::common::fork::{self, Exit};
    use crate::common::interpose::{self, Ev};
    use crate::models::xenemu::{self, Emu, XEv, PAGE};
    use crate::mon_c04::t_from_bytes;
    use std::io::Cursor;
    use std::sync::atomic::Ordering;
    use vm_memory::bitmap::BS;
    use vm_memory::{Bytes, GuestAddress, GuestMemory, GuestMemoryMmap, GuestMemoryRegion, GuestRegionMmap, MemoryRegionAddress, MmapRange, MmapRegion};

    #[derive(Clone, Copy, Debug, PartialEq, Eq)]
    pub enum Kind {
        OnDemand,
        GrantAdvance,
        Foreign,
        Unix,
    }

    pub struct Rig {
        // `gm` is declared (and therefore dropped) before `emu`: the region's unmap ioctl must
        // still reach the emulator
        pub gm: GuestMemoryMmap<()>,
        pub emu: Emu,
        pub kind: Kind,
        pub gbase: u64,
        pub size: usize,
        /// file offset of region byte 0
        pub foff: u64,
        pub model: Vec<u8>,
    }

    impl Rig {
        pub fn new(kind: Kind, r: &mut Rng) -> Rig {
            let emu = Emu::install(8 << 20);
            let size = *r.pick(&[3 * 4096usize, 4 * 4096, 2 * 4096 + 100, 4096]);
            let page_no = 16 + r.below(64);
            let gbase = page_no * PAGE | if r.chance(1, 2) { 1 << 63 } else { 0 };
            let (flags, foff) = match kind {
                Kind::OnDemand => (0x2 | 0x8, gbase & !(1 << 63)),
                Kind::GrantAdvance => (0x2, gbase & !(1 << 63)),
                Kind::Foreign => (0x1, 0),
                Kind::Unix => (0, 0),
            };
            let model = r.bytes(size);
            emu.write_guest(foff, &model);
            let range = if kind == Kind::Unix { MmapRange::new_unix(size, Some(emu.file_offset(0)), GuestAddress(gbase)) } else { MmapRange::new(size, Some(emu.file_offset(0)), GuestAddress(gbase), flags, 3) };
            let region = MmapRegion::<()>::from_range(range).expect("xen region");
            let greg = GuestRegionMmap::new(region, GuestAddress(gbase)).expect("guest region");
            let gm = GuestMemoryMmap::from_regions(vec![greg]).unwrap();
            Rig { emu, gm, kind, gbase, size, foff, model }
        }
        fn file_region(&self) -> Vec<u8> {
            self.emu.read_guest(self.foff, self.size)
        }
    }

    fn emu_maps_lines(emu: &Emu) -> usize {
        // mappings of the emulator file are recognisable by their (deleted) vmv temp name
        let _ = emu;
        std::fs::read_to_string("/proc/self/maps").unwrap_or_default().lines().filter(|l| l.contains("/vmv-")).count()
    }

    /// Judge the logs of one operation on an on-demand region. `touched`: region byte ranges the
    /// operation had to access (empty for rejected requests).
    fn judge_windows(rig: &Rig, op: &str, log: &[Ev], xlog: &[XEv], touched: &[(usize, usize)], baseline_maps: usize) {
        let fd = rig.emu.fd();
        match rig.kind {
            Kind::OnDemand => {
                // (a) balance + order from the interposer log
                let mut open_grants: Vec<(u64, u32)> = vec![];
                let mut open_maps: Vec<(usize, usize)> = vec![];
                let mut closed_maps: Vec<(usize, usize)> = vec![];
                let mut windows: Vec<(u64, u64)> = vec![]; // guest file offsets covered
                for x in xlog {
                    if let XEv::Map { index, count, consecutive, .. } = x {
                        windows.push((*index, *index + *count as u64 * PAGE));
                        if !*consecutive {
                            v(&format!("ondemand/{}/grant-refs-not-consecutive", op), J::dbg(x));
                        }
                    }
                    if let XEv::Unmap { was_live: false, .. } = x {
                        v(&format!("ondemand/{}/unmap-of-unknown-grant", op), J::dbg(x));
                    }
                }
                let mut xi = xlog.iter();
                for e in log {
                    match e {
                        Ev::Ioctl { req, handled: true, .. } if *req == xenemu::IOCTL_GNTDEV_MAP_GRANT_REF => {
                            if let Some(XEv::Map { index, count, .. }) = xi.by_ref().find(|x| matches!(x, XEv::Map { .. })) {
                                open_grants.push((*index, *count));
                            }
                        }
                        Ev::Mmap { fd: f, off, len, ret, errno: 0, .. } if *f == fd => {
                            // must follow a grant for the same index and match its size
                            match open_grants.iter().find(|(i, _)| *i as i64 == *off) {
                                Some((_, c)) if *c as usize * PAGE as usize == *len => {}
                                _ => v(&format!("ondemand/{}/mmap-without-matching-grant", op), jobj! {"off" => *off, "len" => *len, "grants" => J::dbg(&open_grants)}),
                            }
                            open_maps.push((*ret, *len));
                        }
                        Ev::Munmap { addr, len, ret: 0, .. } => {
                            if let Some(p) = open_maps.iter().position(|m| *m == (*addr, *len)) {
                                open_maps.remove(p);
                                closed_maps.push((*addr, *len));
                            } else if closed_maps.iter().any(|(a, l)| *addr < *a + *l && *a < *addr + (*len).max(1)) {
                                // the window is released ONCE: a second munmap of the same range would,
                                // with other threads mapping at the same time, tear down whatever the
                                // kernel has placed there since
                                v(&format!("ondemand/{}/window-unmapped-twice", op), jobj! {"addr" => *addr, "len" => *len});
                            }
                        }
                        Ev::Ioctl { req, handled: true, .. } if *req == xenemu::IOCTL_GNTDEV_UNMAP_GRANT_REF => {
                            // the mapping must already be gone (munmap first, then unmap ioctl)
                            if !open_maps.is_empty() && open_maps.len() >= open_grants.len() {
                                v(&format!("ondemand/{}/unmap-ioctl-before-munmap", op), jobj! {"open_maps" => J::dbg(&open_maps)});
                            }
                            if !open_grants.is_empty() {
                                open_grants.remove(0);
                            }
                        }
                        _ => {}
                    }
                }
                if !open_maps.is_empty() || !rig.emu.live().is_empty() {
                    v(&format!("ondemand/{}/window-still-mapped-after-access", op), jobj! {"open_mmaps" => J::dbg(&open_maps), "live_grants" => J::dbg(&rig.emu.live())});
                }
                // (c) coverage
                for (o, n) in touched {
                    if *n == 0 {
                        continue;
                    }
                    let lo = rig.foff + *o as u64;
                    let hi = lo + *n as u64;
                    // every byte must be inside some window
                    let mut cur = lo;
                    while cur < hi {
                        match windows.iter().filter(|(a, b)| *a <= cur && cur < *b).map(|(_, b)| *b).max() {
                            Some(b) => cur = b,
                            None => {
                                v(&format!("ondemand/{}/access-outside-any-window", op), jobj! {"touched_off" => *o, "touched_len" => *n, "first_uncovered" => cur - rig.foff, "windows" => J::A(windows.iter().map(|(a, b)| J::S(format!("[{},{})", *a as i128 - rig.foff as i128, *b as i128 - rig.foff as i128))).collect())});
                                break;
                            }
                        }
                    }
                }
                if !touched.iter().any(|(_, n)| *n > 0) && !windows.is_empty() {
                    out::count("windows_for_non_touching_ops", 1);
                }
                out::count("ondemand_windows_observed", windows.len() as i128);
            }
            _ => {
                // advance-mapped: accesses go straight to the mapping; no window traffic at all
                if log.iter().any(|e| matches!(e, Ev::Mmap { fd: f, .. } if *f == fd)) || log.iter().any(|e| matches!(e, Ev::Munmap { .. })) || !xlog.is_empty() {
                    v(&format!("advance-mapped/{}/unexpected-mapping-traffic", op), jobj! {"kind" => J::dbg(&rig.kind), "log" => J::dbg(&log), "xlog" => J::dbg(&xlog)});
                }
            }
        }
        let lines = emu_maps_lines(&rig.emu);
        if lines != baseline_maps {
            v(&format!("{:?}/{}/proc-maps-shows-leftover-mapping", rig.kind, op), jobj! {"lines" => lines, "baseline" => baseline_maps});
        }
    }

    fn frame(rig: &mut Rig, op: &str) {
        let real = rig.file_region();
        if real != rig.model {
            let at = real.iter().zip(rig.model.iter()).position(|(a, b)| a != b);
            v(&format!("{:?}/{}/guest-bytes-differ-from-model", rig.kind, op), jobj! {"first_diff" => J::dbg(&at), "size" => rig.size});
            rig.model = real;
        }
    }

    /// One operation of the catalogue; returns (name, touched ranges). Applies itself to the model.
    fn do_op(rig: &mut Rig, r: &mut Rng, opn: u64) -> (String, Vec<(usize, usize)>) {
        let size = rig.size;
        let reg = rig.gm.iter().next().unwrap();
        // offsets within a page, crossing one and two page boundaries
        let off = match r.below(6) {
            0 => r.usize_below(3) * 4096,
            1 => 4096 - 1 - r.usize_below(20),
            2 => 2 * 4096 - r.usize_below(40).min(2 * 4096),
            3 => size - 1 - r.usize_below(30).min(size - 1),
            _ => r.usize_below(size),
        }
        .min(size - 1);
        let room = size - off;
        let len = match r.below(6) {
            0 => 1,
            1 => (4096 - off % 4096) + r.usize_below(3),
            2 => 4096 + r.usize_below(200),
            3 => 2 * 4096 + 1,
            4 => 0,
            _ => 1 + r.usize_below(64),
        }
        .min(room);
        let data = r.bytes(len.max(16));
        let ma = MemoryRegionAddress(off as u64);
        match opn {
            0 => {
                let k = reg.write(&data[..len], ma).unwrap_or(0);
                rig.model[off..off + k].copy_from_slice(&data[..k]);
                ("region.write".into(), vec![(off, k)])
            }
            1 => {
                let mut b = vec![0u8; len];
                let k = reg.read(&mut b, ma).unwrap_or(0);
                if b[..k] != rig.model[off..off + k] {
                    v(&format!("{:?}/region.read/data", rig.kind), jobj! {"off" => off, "len" => len});
                }
                ("region.read".into(), vec![(off, k)])
            }
            2 => {
                let es = 8.min(room);
                if es == 8 {
                    let val = u64::from_ne_bytes(data[..8].try_into().unwrap());
                    if reg.write_obj::<u64>(val, ma).is_ok() {
                        rig.model[off..off + 8].copy_from_slice(&data[..8]);
                    }
                    let back = reg.read_obj::<u64>(ma).ok();
                    if back != Some(val) {
                        v(&format!("{:?}/region.write_obj-read_obj/data", rig.kind), jobj! {"off" => off});
                    }
                    ("region.write_obj+read_obj<u64>".into(), vec![(off, 8)])
                } else {
                    ("skip".into(), vec![])
                }
            }
            3 => {
                let mut src = &data[..len];
                let k = reg.read_volatile_from(ma, &mut src, len).unwrap_or(0);
                rig.model[off..off + k].copy_from_slice(&data[..k]);
                ("region.read_volatile_from(&[u8])".into(), vec![(off, k)])
            }
            4 => {
                let mut c = Cursor::new(data[..len].to_vec());
                if reg.read_exact_volatile_from(ma, &mut c, len).is_ok() {
                    rig.model[off..off + len].copy_from_slice(&data[..len]);
                }
                ("region.read_exact_volatile_from(Cursor)".into(), vec![(off, len)])
            }
            5 => {
                let mut sink: Vec<u8> = vec![];
                let k = reg.write_volatile_to(ma, &mut sink, len).unwrap_or(0);
                if sink[..] != rig.model[off..off + k] {
                    v(&format!("{:?}/region.write_volatile_to/data", rig.kind), jobj! {"off" => off, "len" => len});
                }
                ("region.write_volatile_to(Vec)".into(), vec![(off, k)])
            }
            6 => {
                // file descriptor source/sink (single read/write syscall into the window)
                let mut f = crate::models::world::temp_file(0);
                use std::io::{Seek, SeekFrom, Write};
                f.write_all(&data[..len]).unwrap();
                f.seek(SeekFrom::Start(0)).unwrap();
                let k = reg.read_volatile_from(ma, &mut f, len).unwrap_or(0);
                rig.model[off..off + k].copy_from_slice(&data[..k]);
                ("region.read_volatile_from(File)".into(), vec![(off, k)])
            }
            7 | 8 | 9 | 10 | 11 | 12 | 13 | 14 => {
                // slice level
                let s: VolatileSlice<BS<()>> = match reg.get_slice(ma, len) {
                    Ok(s) => s,
                    Err(_) => return ("get_slice-rejected".into(), vec![]),
                };
                match opn {
                    7 => {
                        let o2 = r.usize_below(len + 1);
                        let l2 = r.usize_below(len - o2 + 1);
                        let k = s.write(&data[..l2], o2).unwrap_or(0);
                        rig.model[off + o2..off + o2 + k].copy_from_slice(&data[..k]);
                        // the window may legitimately span the whole slice
                        ("slice.write".into(), vec![(off + o2, k)])
                    }
                    8 => {
                        let mut b = vec![0u8; len];
                        let k = s.read(&mut b, 0).unwrap_or(0);
                        if b[..k] != rig.model[off..off + k] {
                            v(&format!("{:?}/slice.read/data", rig.kind), jobj! {"off" => off, "len" => len});
                        }
                        ("slice.read".into(), vec![(off, k)])
                    }
                    9 => {
                        // typed refs of 1..16 bytes at every in-page position incl. straddling
                        macro_rules! tr {
                            ($T:ty) => {{
                                let es = size_of::<$T>();
                                if len >= es {
                                    let o2 = r.usize_below(len - es + 1);
                                    if let Ok(rf) = s.get_ref::<$T>(o2) {
                                        rf.store(t_from_bytes::<$T>(&data[..es]));
                                        rig.model[off + o2..off + o2 + es].copy_from_slice(&data[..es]);
                                        if ByteValued::as_slice(&rf.load()) != &data[..es] {
                                            v(&format!("{:?}/ref.store-load/data", rig.kind), jobj! {"off" => off + o2, "size" => es});
                                        }
                                        return (format!("ref<{}B>.store+load", es), vec![(off + o2, es)]);
                                    }
                                }
                                ("skip".to_string(), vec![])
                            }};
                        }
                        match r.below(5) {
                            0 => tr!(u8),
                            1 => tr!(u16),
                            2 => tr!(u32),
                            3 => tr!(u64),
                            _ => tr!(u128),
                        }
                    }
                    10 => {
                        // element arrays: copy_from / copy_to / load / store
                        macro_rules! ta {
                            ($T:ty) => {{
                                let es = size_of::<$T>();
                                let n = len / es;
                                if let Ok(a) = s.get_array_ref::<$T>(0, n) {
                                    let buf: Vec<$T> = (0..n).map(|_| t_from_bytes::<$T>(&r.bytes(es))).collect();
                                    a.copy_from(&buf);
                                    for (i, e) in buf.iter().enumerate() {
                                        rig.model[off + i * es..off + (i + 1) * es].copy_from_slice(ByteValued::as_slice(e));
                                    }
                                    let mut back: Vec<$T> = vec![<$T>::default(); n];
                                    let got = a.copy_to(&mut back);
                                    if got != n || back.iter().zip(buf.iter()).any(|(x, y)| ByteValued::as_slice(x) != ByteValued::as_slice(y)) {
                                        v(&format!("{:?}/array.copy_from-copy_to/data", rig.kind), jobj! {"off" => off, "elem" => es, "n" => n});
                                    }
                                    if n > 0 {
                                        let i = n - 1;
                                        let val = a.load(i);
                                        a.store(i, val);
                                    }
                                    return (format!("array<{}B>.copy_from+copy_to+load+store", es), vec![(off, n * es)]);
                                }
                                ("skip".to_string(), vec![])
                            }};
                        }
                        match r.below(5) {
                            0 => ta!(u8),
                            1 => ta!(u16),
                            2 => ta!(u32),
                            3 => ta!(u64),
                            _ => ta!(u128),
                        }
                    }
                    11 => {
                        let n = len / 4;
                        let buf: Vec<u32> = (0..n).map(|i| u32::from_ne_bytes(r.bytes(4).try_into().unwrap()) ^ i as u32).collect();
                        s.copy_from(&buf);
                        for (i, e) in buf.iter().enumerate() {
                            rig.model[off + i * 4..off + (i + 1) * 4].copy_from_slice(&e.to_ne_bytes());
                        }
                        let mut back = vec![0u32; n];
                        if s.copy_to(&mut back) != n || back != buf {
                            v(&format!("{:?}/slice.copy_from-copy_to<u32>/data", rig.kind), jobj! {"off" => off, "n" => n});
                        }
                        ("slice.copy_from+copy_to<u32>".into(), vec![(off, n * 4)])
                    }
                    12 => {
                        let buf = data[..len].to_vec();
                        s.copy_from(&buf);
                        rig.model[off..off + len].copy_from_slice(&buf);
                        ("slice.copy_from<u8>".into(), vec![(off, len)])
                    }
                    13 => {
                        // hold a guard explicitly: window lives exactly as long as the guard
                        let before = rig.emu.live().len();
                        {
                            let g = s.ptr_guard_mut();
                            if rig.kind == Kind::OnDemand && len > 0 {
                                if rig.emu.live().len() != before + 1 {
                                    v("ondemand/ptr_guard_mut/no-live-window-while-guard-held", jobj! {"live" => J::dbg(&rig.emu.live())});
                                }
                            }
                            if g.len() != len {
                                v(&format!("{:?}/ptr_guard_mut/len", rig.kind), jobj! {"got" => g.len(), "want" => len});
                            }
                            for i in 0..len.min(24) {
                                // SAFETY: inside the guarded window.
                                unsafe { g.as_ptr().add(i).write_volatile(data[i]) };
                            }
                            rig.model[off..off + len.min(24)].copy_from_slice(&data[..len.min(24)]);
                            let g2 = s.ptr_guard();
                            let mut ok = true;
                            for i in 0..len.min(24) {
                                if unsafe { g2.as_ptr().add(i).read_volatile() } != data[i] {
                                    ok = false;
                                }
                            }
                            if !ok {
                                v(&format!("{:?}/ptr_guard/read-back", rig.kind), jobj! {"off" => off});
                            }
                        }
                        if rig.emu.live().len() != before {
                            v(&format!("{:?}/ptr_guard/window-outlives-guard", rig.kind), jobj! {"live" => J::dbg(&rig.emu.live())});
                        }
                        ("ptr_guard_mut+ptr_guard held".into(), vec![(off, len)])
                    }
                    _ => {
                        // every derivation / conversion keeps the mapping info: the accessor that
                        // comes out of it still maps what it touches
                        let o2 = r.usize_below(len + 1);
                        let which = r.below(9);
                        let name = ["offset", "subslice", "split_at.1", "split_at.0", "ArrayRef::from(slice)", "get_array_ref<u8>.to_slice", "get_ref<[u8;8]>.to_slice", "get_array_ref<u16>.ref_at.to_slice", "ArrayRef::from(slice).ref_at"][which as usize];
                        // (derived accessor, offset of its first byte within the region)
                        let derived: Option<(VolatileSlice<BS<()>>, usize)> = match which {
                            0 => s.offset(o2).ok().map(|d| (d, off + o2)),
                            1 => s.subslice(o2, len - o2).ok().map(|d| (d, off + o2)),
                            2 => s.split_at(o2).ok().map(|(_, b)| (b, off + o2)),
                            3 => s.split_at(o2).ok().map(|(a, _)| (a, off)),
                            4 => {
                                // use the element array itself, then go back to a slice
                                let arr: vm_memory::VolatileArrayRef<u8, BS<()>> = s.offset(o2).unwrap().into();
                                let l2 = arr.len().min(40);
                                if l2 > 0 {
                                    arr.copy_from(&data[..l2]);
                                    rig.model[off + o2..off + o2 + l2].copy_from_slice(&data[..l2]);
                                    let mut back = vec![0u8; l2];
                                    if arr.copy_to(&mut back) != l2 || back[..] != data[..l2] {
                                        v(&format!("{:?}/array-from-slice.copy_from-copy_to/data", rig.kind), jobj! {"off" => off + o2});
                                    }
                                    let x = arr.load(l2 - 1);
                                    arr.store(l2 - 1, x);
                                }
                                Some((arr.to_slice(), off + o2))
                            }
                            5 => s.get_array_ref::<u8>(o2, len - o2).ok().map(|a| (a.to_slice(), off + o2)),
                            6 => {
                                if len - o2 >= 8 {
                                    s.get_ref::<[u8; 8]>(o2).ok().map(|rf| (rf.to_slice(), off + o2))
                                } else {
                                    None
                                }
                            }
                            7 => {
                                let n = (len - o2) / 2;
                                if n > 0 {
                                    let i = r.usize_below(n);
                                    s.get_array_ref::<u16>(o2, n).ok().map(|a| (a.ref_at(i).to_slice(), off + o2 + 2 * i))
                                } else {
                                    None
                                }
                            }
                            _ => {
                                let arr: vm_memory::VolatileArrayRef<u8, BS<()>> = s.offset(o2).unwrap().into();
                                if arr.len() > 0 {
                                    let i = r.usize_below(arr.len());
                                    Some((arr.ref_at(i).to_slice(), off + o2 + i))
                                } else {
                                    None
                                }
                            }
                        };
                        if let Some((sub, at)) = derived {
                            let l2 = sub.len().min(40);
                            let k = sub.write(&data[..l2], 0).unwrap_or(0);
                            rig.model[at..at + k].copy_from_slice(&data[..k]);
                            let mut back = vec![0u8; k];
                            if sub.read(&mut back, 0).unwrap_or(0) != k || back[..] != data[..k] {
                                v(&format!("{:?}/derived-{}.write-read/data", rig.kind, name), jobj! {"at" => at, "len" => k});
                            }
                            // the derived accessor's own guard maps (and later unmaps) its bytes
                            {
                                let g = sub.ptr_guard();
                                if g.len() != sub.len() {
                                    v(&format!("{:?}/derived-{}/guard-len", rig.kind, name), jobj! {"got" => g.len(), "want" => sub.len()});
                                }
                                if k > 0 && unsafe { g.as_ptr().read_volatile() } != data[0] {
                                    v(&format!("{:?}/derived-{}/guard-does-not-point-at-first-byte", rig.kind, name), jobj! {"at" => at});
                                }
                            }
                            return (format!("derived-{}.write+read+guard", name), vec![(at, k)]);
                        }
                        ("skip".into(), vec![])
                    }
                }
            }
            15 => {
                // guest-memory level
                let ga = GuestAddress(rig.gbase + off as u64);
                let k = rig.gm.write(&data[..len], ga).unwrap_or(0);
                rig.model[off..off + k].copy_from_slice(&data[..k]);
                let mut b = vec![0u8; len];
                let k2 = rig.gm.read(&mut b, ga).unwrap_or(0);
                if k2 != k || b[..k] != data[..k] {
                    v(&format!("{:?}/guest.write-read/data", rig.kind), jobj! {"off" => off, "len" => len});
                }
                ("guest.write+read".into(), vec![(off, k)])
            }
            _ => {
                // zero-length forms
                let ga = GuestAddress(rig.gbase + off as u64);
                let _ = rig.gm.write(&[], ga);
                let _ = reg.read(&mut [], ma);
                let z = reg.read_volatile_from(ma, &mut &data[..], 0);
                if z.is_err() {
                    v(&format!("{:?}/zero-count-stream-transfer-rejected", rig.kind), jobj! {"off" => off, "err" => J::dbg(&z)});
                }
                let mut sink: Vec<u8> = vec![];
                let _ = reg.write_all_volatile_to(ma, &mut sink, 0);
                if let Ok(s0) = reg.get_slice(ma, 0) {
                    let _ = s0.ptr_guard();
                    let _ = s0.copy_to::<u8>(&mut []);
                }
                ("zero-length forms".into(), vec![])
            }
        }
    }

    /// Operations that dereference the stored address without a window (expected to fault on
    /// on-demand regions): each runs alone in a forked child.
    fn unguarded(kind: Kind, seed: u64) {
        let ops: [&str; 7] = ["Bytes::store<u32>", "Bytes::load<u32>", "get_atomic_ref<AtomicU32>.load", "aligned_as_ref<u32>", "aligned_as_mut<u32>", "VolatileSlice::copy_to_volatile_slice", "VolatileArrayRef::copy_to_volatile_slice"];
        for (i, name) in ops.iter().enumerate() {
            out::case(9000 + i as u64, jobj! {"op" => *name, "kind" => J::dbg(&kind)});
            let ex = fork::run(20, || {
                let mut r = Rng::new(seed, "c17u", i as u64);
                let rig = Rig::new(kind, &mut r);
                let reg = rig.gm.iter().next().unwrap();
                let ma = MemoryRegionAddress(64);
                let s = reg.get_slice(ma, 64).unwrap();
                let mut ok = true;
                match i {
                    0 => {
                        reg.store::<u32>(0xdead_beef, ma, Ordering::SeqCst).unwrap();
                        ok = rig.emu.read_guest(rig.foff + 64, 4) == 0xdead_beefu32.to_ne_bytes();
                    }
                    1 => {
                        let x = reg.load::<u32>(ma, Ordering::SeqCst).unwrap();
                        ok = x.to_ne_bytes()[..] == rig.model[64..68];
                    }
                    2 => {
                        let a = s.get_atomic_ref::<std::sync::atomic::AtomicU32>(0).unwrap();
                        ok = a.load(Ordering::SeqCst).to_ne_bytes()[..] == rig.model[64..68];
                    }
                    3 => {
                        let x = unsafe { *s.aligned_as_ref::<u32>(0).unwrap() };
                        ok = x.to_ne_bytes()[..] == rig.model[64..68];
                    }
                    4 => {
                        let x = unsafe { s.aligned_as_mut::<u32>(0).unwrap() };
                        *x = 5;
                        ok = rig.emu.read_guest(rig.foff + 64, 4) == 5u32.to_ne_bytes();
                    }
                    5 => {
                        let d = reg.get_slice(MemoryRegionAddress(2048 + 10), 32).unwrap();
                        s.subslice(0, 32).unwrap().copy_to_volatile_slice(d);
                        ok = rig.emu.read_guest(rig.foff + 2048 + 10, 32)[..] == rig.model[64..96];
                    }
                    _ => {
                        let d = reg.get_slice(MemoryRegionAddress(2048 + 10), 32).unwrap();
                        s.get_array_ref::<u16>(0, 16).unwrap().copy_to_volatile_slice(d);
                        ok = rig.emu.read_guest(rig.foff + 2048 + 10, 32)[..] == rig.model[64..96];
                    }
                }
                let baseline_live = if kind == Kind::GrantAdvance { 1 } else { 0 };
                let leftover = rig.emu.live().len() != baseline_live;
                vec![ok as u8, leftover as u8]
            });
            let sig_op = name.replace(' ', "");
            match ex {
                Exit::Ok(p) => {
                    if p.first() != Some(&1) {
                        v(&format!("{:?}/unguarded/{}/wrong-data", kind, sig_op), J::Null);
                    }
                    if p.get(1) == Some(&1) {
                        v(&format!("{:?}/unguarded/{}/window-left-mapped", kind, sig_op), J::Null);
                    }
                    out::key(&format!("unguarded|{}|{:?}|ok", name, kind), true);
                }
                Exit::Signal(sg) => {
                    v(&format!("ondemand-unguarded/{}", sig_op), jobj! {"kind" => J::dbg(&kind), "signal" => fork::signal_name(sg), "meaning" => "the accessor dereferenced the region's stored (null-based) address without a temporary mapping"});
                    out::key(&format!("unguarded|{}|{:?}|fault", name, kind), true);
                }
                Exit::Panic(p) => v(&format!("{:?}/unguarded/{}/panic/{}", kind, sig_op, panic_sig(&p)), J::s(p)),
                other => out::note("C17/unguarded-child-inconclusive", J::dbg(&other)),
            }
            out::eval(1);
        }
    }

    /// Two on-demand regions of DIFFERENT domains in one guest memory, accessed alternately from one
    /// thread with windows of equal and of different sizes: every window requested from the device
    /// must name the domain (and the pages) of the region the access touches.
    fn two_domains(seed: u64) {
        let emu = Emu::install(8 << 20);
        let mut r = Rng::new(seed, "c17-domains", 0);
        // (guest base, size, domain), sorted by guest base - the last two adjacent, so that one guest-level access can span both
        let specs = [(48 * PAGE, 2 * 4096usize, 9u32), (32 * PAGE | (1 << 63), 3 * 4096, 3), (35 * PAGE | (1 << 63), 3 * 4096, 5)];
        let mut regs = vec![];
        for (gb, size, dom) in specs {
            let range = MmapRange::new(size, Some(emu.file_offset(0)), GuestAddress(gb), 0x2 | 0x8, dom);
            let region = MmapRegion::<()>::from_range(range).expect("xen region");
            regs.push(GuestRegionMmap::new(region, GuestAddress(gb)).expect("guest region"));
        }
        let gm = GuestMemoryMmap::from_regions(regs).unwrap();
        let owner = |index: u64| {
            specs
                .iter()
                .find(|(gb, size, _)| {
                    let fo = gb & !(1 << 63);
                    index >= fo && index < fo + *size as u64
                })
                .map(|s| s.2)
        };
        let mut n = 0u64;
        for step in 0..400u64 {
            let which = if step % 2 == 0 { step as usize / 2 % 3 } else { r.usize_below(3) };
            let (gb, size, _) = specs[which];
            // equal window sizes on consecutive steps (same page count), now and then another size
            let len = if step % 7 == 6 { 1 + r.usize_below(2 * 4096) } else { 8 };
            let off = r.usize_below(size - len.min(size - 1));
            let len = len.min(size - off);
            emu.clear();
            let data = vec![step as u8 | 1; len];
            let res = guarded(|| match step % 3 {
                0 => gm.write(&data, GuestAddress(gb + off as u64)).is_ok(),
                1 => {
                    let mut b = vec![0u8; len];
                    gm.read(&mut b, GuestAddress(gb + off as u64)).is_ok()
                }
                _ => gm
                    .get_slice(GuestAddress(gb + off as u64), len)
                    .map(|s| {
                        let _g = s.ptr_guard();
                        true
                    })
                    .unwrap_or(false),
            });
            let xlog = emu.take_log();
            if res.is_err() {
                v("ondemand/two-domains/panic", jobj! {"step" => step});
                return;
            }
            for x in &xlog {
                if let XEv::Map { index, count, domid, .. } = x {
                    let want = owner(*index);
                    let last = owner(*index + (*count as u64 - 1) * PAGE);
                    if want != Some(*domid) || last != Some(*domid) {
                        v("ondemand/two-domains/window-names-another-domain-than-the-region-accessed", jobj! {"step" => step, "guest_offset_of_window" => *index, "pages" => *count, "domain_in_request" => *domid, "domain_of_the_region" => J::dbg(&want), "access_len" => len});
                        return;
                    }
                    n += 1;
                }
            }
        }
        out::key("ondemand|two-domains|alternating-windows", true);
        out::count("two_domain_windows_checked", n as i128);
        out::eval(n);
        drop(gm);
        drop(emu);
    }

    /// A pointer guard has no lifetime: it may outlive the region (and the whole guest memory) it
    /// came from - e.g. when the memory layout is swapped while an access is in flight. The window
    /// it stands for stays mapped until the guard is dropped and is then released THROUGH THE
    /// DEVICE like any other, also when the region held the last handle of the device file.
    fn guard_outlives_its_region(seed: u64) {
        for (vi, whole_memory) in [false, true].into_iter().enumerate() {
            let mut emu = Emu::install(8 << 20);
            let mut r = Rng::new(seed, "c17-outlive", vi as u64);
            let gb = (20 + r.below(8)) * PAGE | (1 << 63);
            let fo = emu.file_offset(0);
            // the emulator keeps working through a duplicate descriptor; the registered one is
            // from now on owned by the region alone
            let dup = std::sync::Arc::new(emu.file.try_clone().expect("dup"));
            let registered = std::mem::replace(&mut emu.file, dup);
            drop(registered);
            let pattern: Vec<u8> = (0..3 * 4096).map(|i| (i % 251) as u8 | 1).collect();
            emu.write_guest(gb, &pattern);
            let region = MmapRegion::<()>::from_range(MmapRange::new(3 * 4096, Some(fo), GuestAddress(gb), 0x2 | 0x8, 3)).expect("xen region");
            let other = MmapRegion::<()>::from_range(MmapRange::new_unix(4096, None, GuestAddress(0x1000))).expect("unix region");
            let gm = GuestMemoryMmap::from_regions(vec![GuestRegionMmap::new(other, GuestAddress(0x1000)).unwrap(), GuestRegionMmap::new(region, GuestAddress(gb)).expect("guest region")]).unwrap();
            emu.clear();
            let guard = {
                let s = gm.get_slice(GuestAddress(gb + 4000), 200).expect("slice");
                s.ptr_guard_mut()
            };
            let live_while_held = emu.live().len();
            let _rest = if whole_memory {
                drop(gm);
                None
            } else {
                // only the region goes away: a map derived by removing it stays alive
                let (rest, arc) = gm.remove_region(GuestAddress(gb), 3 * 4096).expect("remove");
                drop(arc);
                drop(gm);
                Some(rest)
            };
            let live_after_region_drop = emu.live().len();
            // the bytes are still reachable through the guard
            // SAFETY: the guard claims the pointer valid for 200 bytes while it lives.
            let seen: Vec<u8> = (0..200).map(|i| unsafe { guard.as_ptr().add(i).read_volatile() }).collect();
            let data_ok = seen == pattern[4000..4200];
            let dropped = guarded(move || drop(guard));
            let live_end = emu.live().len();
            let xlog = emu.take_log();
            let unmapped_live = xlog.iter().filter(|x| matches!(x, XEv::Unmap { was_live: true, .. })).count();
            let on_closed = xlog.iter().filter(|x| matches!(x, XEv::ClosedDescriptor { .. })).count();
            if on_closed > 0 || dropped.is_err() || live_while_held == 0 || live_after_region_drop == 0 || !data_ok || live_end != 0 || unmapped_live == 0 {
                v("ondemand/guard-outlives-its-region/window-not-kept-or-not-released-through-the-device", jobj! {"device_requests_on_a_closed_descriptor" => on_closed, "dropping_the_guard_panicked" => dropped.is_err(), "grants_live_while_guard_held" => live_while_held, "grants_live_after_the_region_was_dropped" => live_after_region_drop, "bytes_readable_through_the_guard" => data_ok, "grants_live_after_guard_dropped" => live_end, "unmap_requests_for_live_grants" => unmapped_live});
            }
            out::key(&format!("ondemand|guard-outlives|{}", if whole_memory { "guest-memory" } else { "region" }), true);
            out::eval(1);
            drop(emu);
        }
    }

    /// The environment refuses to build the temporary window (the grant ioctl or the window's
    /// mmap fails): the access must not go ahead without one. Refusing by error or by panic are
    /// both "no access"; touching memory at the region's placeholder address is not.
    fn window_cannot_be_built(seed: u64) {
        let routes: [&str; 6] = ["region.write", "region.read", "slice.write", "ptr_guard_mut", "array.copy_from<u32>", "region.write_obj<u64>"];
        for (i, name) in routes.iter().enumerate() {
            for fail in ["grant-ioctl-fails", "window-mmap-fails"] {
                out::case(9500 + i as u64, jobj! {"op" => format!("{} with {}", name, fail)});
                let ex = fork::run(20, || {
                    let mut r = Rng::new(seed, "c17w", i as u64);
                    let rig = Rig::new(Kind::OnDemand, &mut r);
                    let reg = rig.gm.iter().next().unwrap();
                    let ma = MemoryRegionAddress(4096 + 72);
                    if fail == "grant-ioctl-fails" {
                        rig.emu.fail_next_map(1);
                    } else {
                        interpose::arm();
                        interpose::fail_next_mmaps(1);
                    }
                    let data = [0x5au8; 32];
                    let mut buf = [0u8; 32];
                    let refused = match i {
                        0 => reg.write(&data, ma).is_err(),
                        1 => reg.read(&mut buf, ma).is_err(),
                        2 => reg.get_slice(ma, 32).map_or(true, |s| s.write(&data, 0).is_err()),
                        3 => {
                            let s = reg.get_slice(ma, 32).unwrap();
                            let g = s.ptr_guard_mut();
                            // SAFETY: only reached if a guard was handed out; the pointer is then claimed valid.
                            unsafe { g.as_ptr().write_volatile(1) };
                            false
                        }
                        4 => {
                            let s = reg.get_slice(ma, 32).unwrap();
                            s.get_array_ref::<u32>(0, 8).unwrap().copy_from(&[7u32; 8]);
                            false
                        }
                        _ => reg.write_obj::<u64>(0x0102030405060708, ma).is_err(),
                    };
                    interpose::fail_next_mmaps(0);
                    vec![refused as u8]
                });
                let sig = format!("ondemand/window-cannot-be-built/{}/{}", fail, name);
                match ex {
                    // refused (error value) or refused (panic): no access took place
                    Exit::Ok(p) if p.first() == Some(&1) => out::key(&format!("window-refused|{}|{}|error", name, fail), true),
                    Exit::Panic(_) => out::key(&format!("window-refused|{}|{}|panic", name, fail), true),
                    Exit::Ok(_) => v(&format!("{}/access-reported-success-without-a-window", sig), J::Null),
                    Exit::Signal(sg) => v(&format!("{}/access-went-ahead-outside-any-mapping", sig), jobj! {"signal" => fork::signal_name(sg)}),
                    other => out::note("C17/window-failure-child-inconclusive", J::dbg(&other)),
                }
                out::eval(1);
                out::count("window_failure_injections", 1);
            }
        }
    }

    pub fn run(args: &Args) {
        if !interpose::available() {
            v("harness/interposer-not-available", J::Null);
            return;
        }
        if args.shard().0 == 0 {
            window_cannot_be_built(args.seed());
            two_domains(args.seed());
            guard_outlives_its_region(args.seed());
        }
        let nops = args.u64("ops", 30);
        let mut opcount = 0u64;
        for case in args.cases(120) {
            let mut r = Rng::new(args.seed(), "c17b", case);
            let kind = match case % 6 {
                0 | 1 | 2 => Kind::OnDemand,
                3 => Kind::GrantAdvance,
                4 => Kind::Foreign,
                _ => Kind::Unix,
            };
            let base_lines = std::fs::read_to_string("/proc/self/maps").unwrap_or_default().lines().filter(|l| l.contains("/vmv-")).count();
            // construction
            interpose::arm();
            let mut rig = Rig::new(kind, &mut r);
            let clog = interpose::disarm();
            let cx = rig.emu.take_log();
            let nm = clog.iter().filter(|e| matches!(e, Ev::Mmap { fd, errno: 0, .. } if *fd == rig.emu.fd())).count();
            let want_nm = if kind == Kind::OnDemand { 0 } else { 1 };
            if nm != want_nm {
                v(&format!("{:?}/construction/mapping-count", kind), jobj! {"mmaps" => nm, "want" => want_nm, "xlog" => J::dbg(&cx)});
            }
            let baseline = base_lines + want_nm;
            for step in 0..nops {
                let opn = r.below(17);
                out::case(case * 1000 + step, jobj! {"op" => format!("{:?}#{}", kind, opn)});
                rig.emu.clear();
                interpose::arm();
                let res = guarded(|| do_op(&mut rig, &mut r, opn));
                let log = interpose::disarm();
                let xlog = rig.emu.take_log();
                match res {
                    Ok((name, touched)) => {
                        if name == "skip" {
                            continue;
                        }
                        judge_windows(&rig, &name, &log, &xlog, &touched, baseline);
                        frame(&mut rig, &name);
                        let pages = touched.iter().map(|(o, n)| if *n == 0 { 0 } else { (o + n - 1) / 4096 - o / 4096 + 1 }).max().unwrap_or(0);
                        let inpage = touched.first().map_or(0, |(o, _)| o % 4096);
                        out::key(&format!("{}|{:?}|pages{}|{}", name, kind, pages, if inpage == 0 { "page-aligned" } else if inpage > 4096 - 32 { "near-page-end" } else { "mid-page" }), true);
                        opcount += 1;
                    }
                    Err(p) => {
                        v(&format!("{:?}/panic/op{}/{}", kind, opn, panic_sig(&p)), jobj! {"panic" => p});
                        // the rig may hold half-open windows now; start a fresh history
                        break;
                    }
                }
            }
            // drop: everything released, in the right order
            rig.emu.clear();
            interpose::arm();
            let Rig { emu, gm, .. } = rig;
            drop(gm);
            let dlog = interpose::disarm();
            let dx = emu.take_log();
            if !emu.live().is_empty() {
                v(&format!("{:?}/drop/grant-left-mapped", kind), J::dbg(&emu.live()));
            }
            let unm = dlog.iter().filter(|e| matches!(e, Ev::Munmap { ret: 0, .. })).count();
            if unm != want_nm {
                v(&format!("{:?}/drop/munmap-count", kind), jobj! {"munmaps" => unm, "want" => want_nm});
            }
            if kind == Kind::GrantAdvance {
                // munmap must precede the unmap ioctl
                let pm = dlog.iter().position(|e| matches!(e, Ev::Munmap { .. }));
                let pi = dlog.iter().position(|e| matches!(e, Ev::Ioctl { handled: true, .. }));
                if !(pm.is_some() && pi.is_some() && pm < pi) || !dx.iter().any(|x| matches!(x, XEv::Unmap { was_live: true, .. })) {
                    v("GrantAdvance/drop/order-or-missing-unmap", jobj! {"log" => J::dbg(&dlog), "xlog" => J::dbg(&dx)});
                }
            }
            let after_lines = std::fs::read_to_string("/proc/self/maps").unwrap_or_default().lines().filter(|l| l.contains("/vmv-")).count();
            if after_lines != base_lines {
                v(&format!("{:?}/drop/proc-maps-leftover", kind), jobj! {"before" => base_lines, "after" => after_lines});
            }
            drop(emu);
            out::eval(nops);
        }
        out::count("ondemand_and_xen_ops", opcount as i128);
        if args.shard().0 == 0 {
            unguarded(Kind::OnDemand, args.seed());
            unguarded(Kind::GrantAdvance, args.seed());
        }
        out::sample(jobj! {"op" => "array<8B>.copy_from+copy_to on an on-demand region at offset 4090, 1025 elements", "oracle" => "windows seen by the emulated gntdev must cover region bytes [4090, 12290); window released afterwards (munmap, then UNMAP ioctl); emulator file holds the data at the guest address"});
    }
}

pub fn run(args: &Args) {
    let r = guarded(|| part_a(args));
    if let Err(p) = r {
        v(&format!("partA/panic/{}", panic_sig(&p)), J::s(p));
    }
    #[cfg(feature = "xen")]
    part_b::run(args);
}
