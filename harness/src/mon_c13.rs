//! C13 — volatile stream adapters transfer data exactly like their std::io counterparts.
//! Oracle: differential twin. The same call sequence is executed on stream S through the
//! volatile adapter and on an identical twin S' through std::io with an ordinary buffer.

use crate::common::arena::{Arena, Place};
use crate::common::out::{self, J};
use crate::common::prng::Rng;
use crate::common::{guarded, panic_sig, Args};
use crate::models::world::temp_file;
use std::io::{Cursor, ErrorKind, Read, Seek, SeekFrom, Write};
use std::os::fd::{AsFd, FromRawFd, OwnedFd};
use std::os::unix::fs::FileExt;
use std::os::unix::net::UnixStream;
use vm_memory::{ReadVolatile, VolatileMemoryError, VolatileSlice, WriteVolatile};

#[derive(Debug, PartialEq, Eq, Clone)]
enum Res {
    Ok(usize),
    Err(ErrorKind),
    Other(String),
}

fn rv(r: Result<usize, VolatileMemoryError>) -> Res {
    match r {
        Ok(n) => Res::Ok(n),
        Err(VolatileMemoryError::IOError(e)) => Res::Err(e.kind()),
        Err(e) => Res::Other(format!("{:?}", e)),
    }
}
fn rs(r: std::io::Result<usize>) -> Res {
    match r {
        Ok(n) => Res::Ok(n),
        Err(e) => Res::Err(e.kind()),
    }
}

fn v(adapter: &str, sig: &str, d: J) {
    out::viol(&format!("C13/{}/{}", adapter, sig), d);
}

fn rel(buf: usize, avail: usize) -> &'static str {
    if buf == 0 {
        "buf0"
    } else if avail == 0 {
        "stream-empty"
    } else if buf < avail {
        "buf<avail"
    } else if buf == avail {
        "buf=avail"
    } else {
        "buf>avail"
    }
}
fn thr(n: usize) -> &'static str {
    if n <= 8 {
        "<=8"
    } else {
        ">8"
    }
}

/// A volatile buffer inside an arena with canaries; contents pre-filled with `fill`.
struct VBuf {
    a: Arena,
}
impl VBuf {
    fn new(len: usize, mis: usize, fill: u8) -> VBuf {
        let a = Arena::new(len, if cfg!(miri) { Place::C(mis) } else if mis % 3 == 0 { Place::R } else { Place::C(mis) });
        a.fill(|_| fill);
        VBuf { a }
    }
    fn vs(&self) -> VolatileSlice<'_, ()> {
        // SAFETY: arena buffer valid for its length.
        unsafe { VolatileSlice::new(self.a.ptr, self.a.len) }
    }
}

/// One read call on both streams; returns false if the sequence must stop (failed exact call:
/// std leaves position/buffer unspecified afterwards).
fn read_step<S1: ReadVolatile, S2: Read>(adapter: &str, s1: &mut S1, s2: &mut S2, blen: usize, exact: bool, idx: usize, avail: usize, ctx: &J) -> bool {
    let vb = VBuf::new(blen, idx + blen, 0xEE);
    let mut ob = vec![0xEEu8; blen];
    let (r1, r2) = if exact {
        let mut vs = vb.vs();
        (rv(s1.read_exact_volatile(&mut vs).map(|()| blen)), rs(s2.read_exact(&mut ob).map(|()| blen)))
    } else {
        let mut vs = vb.vs();
        (rv(s1.read_volatile(&mut vs)), rs(s2.read(&mut ob)))
    };
    let call = if exact { "read_exact" } else { "read" };
    out::key(&format!("{}|{}|{}|{}|call{}|{:?}", adapter, call, rel(blen, avail), thr(blen), idx.min(3), matches!(r2, Res::Ok(_))), true);
    out::eval(1);
    if r1 != r2 {
        v(adapter, &format!("{}/result-differs", call), jobj! {"volatile" => J::dbg(&r1), "std" => J::dbg(&r2), "buf_len" => blen, "call_index" => idx, "ctx" => ctx.clone()});
        return false;
    }
    if let Some(at) = vb.a.check_canaries() {
        v(adapter, &format!("{}/wrote-outside-buffer", call), jobj! {"at" => at as i64, "buf_len" => blen, "ctx" => ctx.clone()});
    }
    if exact && !matches!(r2, Res::Ok(_)) {
        if r2 != Res::Err(ErrorKind::UnexpectedEof) {
            out::note("C13/std-read_exact-failed-with-other-kind", J::dbg(&r2));
        }
        return false; // state afterwards is unspecified by std
    }
    let got = vb.a.read_all();
    if got != ob {
        let at = got.iter().zip(ob.iter()).position(|(a, b)| a != b);
        v(adapter, &format!("{}/buffer-differs", call), jobj! {"first_diff" => J::dbg(&at), "buf_len" => blen, "result" => J::dbg(&r1), "ctx" => ctx.clone()});
        return false;
    }
    true
}

fn write_step<S1: WriteVolatile, S2: Write>(adapter: &str, s1: &mut S1, s2: &mut S2, data: &[u8], all: bool, idx: usize, room: usize, ctx: &J) -> bool {
    let blen = data.len();
    let vb = VBuf::new(blen, idx + 2 * blen + 1, 0);
    vb.a.write_at(0, data);
    let (r1, r2) = if all {
        (rv(s1.write_all_volatile(&vb.vs()).map(|()| blen)), rs(s2.write_all(data).map(|()| blen)))
    } else {
        (rv(s1.write_volatile(&vb.vs())), rs(s2.write(data)))
    };
    let call = if all { "write_all" } else { "write" };
    out::key(&format!("{}|{}|{}|{}|call{}|{:?}", adapter, call, rel(blen, room), thr(blen), idx.min(3), matches!(r2, Res::Ok(_))), true);
    out::eval(1);
    if r1 != r2 {
        v(adapter, &format!("{}/result-differs", call), jobj! {"volatile" => J::dbg(&r1), "std" => J::dbg(&r2), "buf_len" => blen, "call_index" => idx, "ctx" => ctx.clone()});
        return false;
    }
    if vb.a.read_all() != data || vb.a.check_canaries().is_some() {
        v(adapter, &format!("{}/source-buffer-modified", call), jobj! {"buf_len" => blen, "ctx" => ctx.clone()});
    }
    if all && !matches!(r2, Res::Ok(_)) {
        if r2 != Res::Err(ErrorKind::WriteZero) {
            out::note("C13/std-write_all-failed-with-other-kind", J::dbg(&r2));
        }
        return false;
    }
    true
}

fn data_of(n: usize, salt: u8) -> Vec<u8> {
    (0..n).map(|i| (i as u8).wrapping_mul(29).wrapping_add(salt) | 1).collect()
}

/// Xen build: the SAME adapters with buffers that live in an on-demand grant region (every access
/// maps a temporary window through the emulated device; the pointer handed to read(2) / write(2)
/// is only valid while the guard of that window lives). Results, bytes landed in the guest and
/// bytes received by the stream are compared with std on an ordinary buffer.
#[cfg(all(feature = "xen", not(miri)))]
fn xen_ondemand_buffers() {
    use crate::models::xenemu::Emu;
    use vm_memory::{GuestAddress, GuestMemory, GuestMemoryMmap, GuestRegionMmap, MmapRange, MmapRegion};
    const PAGE: u64 = 4096;
    let emu = Emu::install(8 << 20);
    let gb = 24 * PAGE | (1 << 63);
    let region = MmapRegion::<()>::from_range(MmapRange::new(3 * 4096, Some(emu.file_offset(0)), GuestAddress(gb), 0x2 | 0x8, 3)).expect("xen region");
    let gm = GuestMemoryMmap::from_regions(vec![GuestRegionMmap::new(region, GuestAddress(gb)).expect("guest region")]).unwrap();
    let mut n = 0u64;
    for (off, len) in [(0usize, 1usize), (5, 8), (4090, 12), (100, 5000), (8192, 4096), (4096 * 3 - 1, 1)] {
        let data = data_of(len, 91);
        // ---- sources: File, UnixStream, OwnedFd -> guest
        for kind in ["File", "UnixStream", "OwnedFd(pipe)"] {
            for exact in [false, true] {
                emu.write_guest(gb + off as u64, &vec![0xEEu8; len]);
                let vs = gm.get_slice(GuestAddress(gb + off as u64), len).expect("slice");
                let mut vs2 = vs.clone();
                let (r1, r2, twin_buf) = match kind {
                    "File" => {
                        let (mut f1, mut f2) = (temp_file(0), temp_file(0));
                        for f in [&mut f1, &mut f2] {
                            f.write_all(&data).unwrap();
                            f.seek(SeekFrom::Start(0)).unwrap();
                        }
                        let mut ob = vec![0xEEu8; len];
                        let r1 = if exact { rv(f1.read_exact_volatile(&mut vs2).map(|()| len)) } else { rv(f1.read_volatile(&mut vs2)) };
                        let r2 = if exact { rs(f2.read_exact(&mut ob).map(|()| len)) } else { rs(f2.read(&mut ob)) };
                        (r1, r2, ob)
                    }
                    "UnixStream" => {
                        let (mut a1, mut b1) = UnixStream::pair().unwrap();
                        let (mut a2, mut b2) = UnixStream::pair().unwrap();
                        b1.write_all(&data).unwrap();
                        b2.write_all(&data).unwrap();
                        let mut ob = vec![0xEEu8; len];
                        let r1 = if exact { rv(a1.read_exact_volatile(&mut vs2).map(|()| len)) } else { rv(a1.read_volatile(&mut vs2)) };
                        let r2 = if exact { rs(a2.read_exact(&mut ob).map(|()| len)) } else { rs(a2.read(&mut ob)) };
                        (r1, r2, ob)
                    }
                    _ => {
                        let (rd1, wr1) = pipe_pair();
                        let (rd2, wr2) = pipe_pair();
                        // (pipes hold 64 KiB: the whole payload fits)
                        std::fs::File::from(wr1).write_all(&data).unwrap();
                        std::fs::File::from(wr2).write_all(&data).unwrap();
                        let mut fd1: OwnedFd = rd1;
                        let mut f2 = std::fs::File::from(rd2);
                        let mut ob = vec![0xEEu8; len];
                        let r1 = if exact { rv(fd1.read_exact_volatile(&mut vs2).map(|()| len)) } else { rv(fd1.read_volatile(&mut vs2)) };
                        let r2 = if exact { rs(f2.read_exact(&mut ob).map(|()| len)) } else { rs(f2.read(&mut ob)) };
                        (r1, r2, ob)
                    }
                };
                let landed = emu.read_guest(gb + off as u64, len);
                if r1 != r2 || landed != twin_buf {
                    v(&format!("{}(buffer in an on-demand Xen region)", kind), if exact { "read_exact/result-or-bytes-differ" } else { "read/result-or-bytes-differ" }, jobj! {"volatile" => J::dbg(&r1), "std" => J::dbg(&r2), "offset_in_region" => off, "len" => len, "bytes_equal" => landed == twin_buf});
                }
                if !emu.live().is_empty() {
                    v(&format!("{}(buffer in an on-demand Xen region)", kind), "window-still-mapped-after-the-call", J::Null);
                }
                n += 1;
            }
        }
        // ---- sinks: guest -> File, UnixStream
        emu.write_guest(gb + off as u64, &data);
        for kind in ["File", "UnixStream"] {
            for all in [false, true] {
                let vs = gm.get_slice(GuestAddress(gb + off as u64), len).expect("slice");
                let (r1, r2, got1, got2) = match kind {
                    "File" => {
                        let (mut f1, mut f2) = (temp_file(0), temp_file(0));
                        let r1 = if all { rv(f1.write_all_volatile(&vs).map(|()| len)) } else { rv(f1.write_volatile(&vs)) };
                        let r2 = if all { rs(f2.write_all(&data).map(|()| len)) } else { rs(f2.write(&data)) };
                        let (mut g1, mut g2) = (vec![], vec![]);
                        f1.seek(SeekFrom::Start(0)).unwrap();
                        f2.seek(SeekFrom::Start(0)).unwrap();
                        f1.read_to_end(&mut g1).unwrap();
                        f2.read_to_end(&mut g2).unwrap();
                        (r1, r2, g1, g2)
                    }
                    _ => {
                        let (mut a1, mut b1) = UnixStream::pair().unwrap();
                        let (mut a2, mut b2) = UnixStream::pair().unwrap();
                        let r1 = if all { rv(a1.write_all_volatile(&vs).map(|()| len)) } else { rv(a1.write_volatile(&vs)) };
                        let r2 = if all { rs(a2.write_all(&data).map(|()| len)) } else { rs(a2.write(&data)) };
                        drop(a1);
                        drop(a2);
                        let (mut g1, mut g2) = (vec![], vec![]);
                        b1.read_to_end(&mut g1).unwrap();
                        b2.read_to_end(&mut g2).unwrap();
                        (r1, r2, g1, g2)
                    }
                };
                if r1 != r2 || got1 != got2 {
                    v(&format!("{}(buffer in an on-demand Xen region)", kind), if all { "write_all/result-or-bytes-differ" } else { "write/result-or-bytes-differ" }, jobj! {"volatile" => J::dbg(&r1), "std" => J::dbg(&r2), "offset_in_region" => off, "len" => len, "received_equal" => got1 == got2});
                }
                n += 1;
            }
        }
        out::key(&format!("xen-ondemand-buffer|off{}|len{}", if off % 4096 == 0 { "page" } else { "odd" }, thr(len)), true);
    }
    out::count("xen_ondemand_buffer_calls", n as i128);
    out::eval(n);
    drop(gm);
    drop(emu);
}

// -------------------------------------------------------------------------------------------
// Adapters the library MAY provide. The statement covers "every stream adapter the library
// provides"; which std types implement ReadVolatile / WriteVolatile can change with the library
// (a blanket impl, a generalised bound). For a list of std stream types the harness detects AT
// COMPILE TIME (autoref-based method selection) whether the adapter exists and, if it does, drives
// it side by side with its std::io twin like every other adapter.
mod optional {
    use super::*;
    pub struct W<T>(pub std::cell::RefCell<T>);
    pub trait ProvidedSink {
        fn drive_sink(&self, adapter: &str, twin: &mut dyn FnMut(&[u8], bool) -> Res, steps: &[(usize, bool)]) -> Option<bool>;
    }
    impl<T: WriteVolatile> ProvidedSink for W<T> {
        fn drive_sink(&self, adapter: &str, twin: &mut dyn FnMut(&[u8], bool) -> Res, steps: &[(usize, bool)]) -> Option<bool> {
            let mut s1 = self.0.borrow_mut();
            for (idx, (blen, all)) in steps.iter().enumerate() {
                let data = data_of(*blen, 41 + idx as u8);
                let vb = VBuf::new(*blen, idx + 2 * blen + 1, 0);
                vb.a.write_at(0, &data);
                let r1 = if *all { rv(s1.write_all_volatile(&vb.vs()).map(|()| *blen)) } else { rv(s1.write_volatile(&vb.vs())) };
                let r2 = twin(&data, *all);
                out::eval(1);
                if r1 != r2 {
                    v(adapter, if *all { "write_all/result-differs" } else { "write/result-differs" }, jobj! {"volatile" => J::dbg(&r1), "std" => J::dbg(&r2), "buf_len" => *blen, "call_index" => idx});
                    return Some(false);
                }
                if !matches!(r2, Res::Ok(_)) {
                    // (the state a FAILED exact call leaves behind is unspecified by std and not judged)
                    return Some(false);
                }
            }
            Some(true)
        }
    }
    pub trait AbsentSink {
        fn drive_sink(&self, _adapter: &str, _twin: &mut dyn FnMut(&[u8], bool) -> Res, _steps: &[(usize, bool)]) -> Option<bool> {
            None
        }
    }
    impl<T> AbsentSink for &W<T> {}

    pub trait ProvidedSource {
        fn drive_source(&self, adapter: &str, twin: &mut dyn FnMut(&mut [u8], bool) -> Res, steps: &[(usize, bool)]) -> Option<bool>;
    }
    impl<T: ReadVolatile> ProvidedSource for W<T> {
        fn drive_source(&self, adapter: &str, twin: &mut dyn FnMut(&mut [u8], bool) -> Res, steps: &[(usize, bool)]) -> Option<bool> {
            let mut s1 = self.0.borrow_mut();
            for (idx, (blen, exact)) in steps.iter().enumerate() {
                let vb = VBuf::new(*blen, idx + blen, 0xEE);
                let mut ob = vec![0xEEu8; *blen];
                let r1 = {
                    let mut vs = vb.vs();
                    if *exact { rv(s1.read_exact_volatile(&mut vs).map(|()| *blen)) } else { rv(s1.read_volatile(&mut vs)) }
                };
                let r2 = twin(&mut ob, *exact);
                out::eval(1);
                let landed_ok = match r2 {
                    Res::Ok(n) => vb.a.read_all()[..n] == ob[..n],
                    _ => true,
                };
                if r1 != r2 || !landed_ok {
                    v(adapter, if *exact { "read_exact/result-or-bytes-differ" } else { "read/result-or-bytes-differ" }, jobj! {"volatile" => J::dbg(&r1), "std" => J::dbg(&r2), "buf_len" => *blen, "call_index" => idx, "bytes_equal" => landed_ok});
                    return Some(false);
                }
                if !matches!(r2, Res::Ok(_)) {
                    return Some(false);
                }
            }
            Some(true)
        }
    }
    pub trait AbsentSource {
        fn drive_source(&self, _adapter: &str, _twin: &mut dyn FnMut(&mut [u8], bool) -> Res, _steps: &[(usize, bool)]) -> Option<bool> {
            None
        }
    }
    impl<T> AbsentSource for &W<T> {}
}

fn optional_adapters() {
    #[allow(unused_imports)]
    use optional::{AbsentSink, AbsentSource, ProvidedSink, ProvidedSource, W};
    let mut provided = 0u64;
    let mut absent = 0u64;
    let scripts: [&[(usize, bool)]; 4] = [&[(3, false), (0, false), (8, false), (5, true), (64, false)], &[(9, true), (1, true), (40, true)], &[(0, true), (17, false), (17, false)], &[(4096, false), (3, true)]];
    // ---- sinks: (name, constructor, how the std twin writes, how to read the final state)
    macro_rules! sink {
        ($name:expr, $mk:expr, $state:expr) => {
            for (si, script) in scripts.iter().enumerate() {
                let w = W(std::cell::RefCell::new($mk));
                let mut twin = $mk;
                let mut f = |d: &[u8], all: bool| -> Res { if all { rs(twin.write_all(d).map(|()| d.len())) } else { rs(twin.write(d)) } };
                match (&w).drive_sink($name, &mut f, script) {
                    None => {
                        absent += 1;
                        out::key(&format!("optional-sink|{}|not-provided", $name), true);
                        break;
                    }
                    Some(ok) => {
                        provided += 1;
                        let (s1, s2) = ($state(&*w.0.borrow()), $state(&twin));
                        if ok && s1 != s2 {
                            v($name, "state-after-the-calls-differs-from-std", jobj! {"volatile" => J::dbg(&s1), "std" => J::dbg(&s2), "script" => si});
                        }
                        out::key(&format!("optional-sink|{}|provided|script{}", $name, si), true);
                    }
                }
            }
        };
    }
    let vstate = |c: &Cursor<Vec<u8>>| (c.position(), c.get_ref().clone());
    sink!("Cursor<Vec<u8>>@0", Cursor::new(Vec::<u8>::new()), vstate);
    sink!("Cursor<Vec<u8>>@inside", { let mut c = Cursor::new(vec![7u8; 20]); c.set_position(5); c }, vstate);
    sink!("Cursor<Vec<u8>>@end", { let mut c = Cursor::new(vec![7u8; 20]); c.set_position(20); c }, vstate);
    sink!("Cursor<Vec<u8>>@past-end", { let mut c = Cursor::new(vec![7u8; 20]); c.set_position(23); c }, vstate);
    let bstate = |c: &Cursor<Box<[u8]>>| (c.position(), c.get_ref().to_vec());
    sink!("Cursor<Box<[u8]>>@3", { let mut c = Cursor::new(vec![7u8; 20].into_boxed_slice()); c.set_position(3); c }, bstate);
    sink!("Cursor<Box<[u8]>>@end", { let mut c = Cursor::new(vec![7u8; 20].into_boxed_slice()); c.set_position(20); c }, bstate);
    let astate = |c: &Cursor<[u8; 24]>| (c.position(), c.get_ref().to_vec());
    sink!("Cursor<[u8;24]>@20", { let mut c = Cursor::new([7u8; 24]); c.set_position(20); c }, astate);
    let dstate = |d: &std::collections::VecDeque<u8>| d.iter().copied().collect::<Vec<u8>>();
    sink!("VecDeque<u8>", std::collections::VecDeque::<u8>::from(vec![1u8, 2, 3]), dstate);
    sink!("io::Sink", std::io::sink(), |_s: &std::io::Sink| 0u8);
    sink!("io::Empty", std::io::empty(), |_s: &std::io::Empty| 0u8);
    sink!("Box<Vec<u8>>", Box::new(vec![9u8; 3]), |b: &Box<Vec<u8>>| (**b).clone());
    sink!("BufWriter<Vec<u8>>", std::io::BufWriter::with_capacity(16, vec![1u8]), |b: &std::io::BufWriter<Vec<u8>>| (b.buffer().to_vec(), b.get_ref().clone()));
    sink!("LineWriter<Vec<u8>>", std::io::LineWriter::new(vec![1u8]), |b: &std::io::LineWriter<Vec<u8>>| b.get_ref().clone());
    // ---- sources
    macro_rules! source {
        ($name:expr, $mk:expr, $state:expr) => {
            for (si, script) in scripts.iter().enumerate() {
                let w = W(std::cell::RefCell::new($mk));
                let mut twin = $mk;
                let mut f = |b: &mut [u8], exact: bool| -> Res { if exact { rs(twin.read_exact(b).map(|()| b.len())) } else { rs(twin.read(b)) } };
                match (&w).drive_source($name, &mut f, script) {
                    None => {
                        absent += 1;
                        out::key(&format!("optional-source|{}|not-provided", $name), true);
                        break;
                    }
                    Some(ok) => {
                        provided += 1;
                        let (s1, s2) = ($state(&*w.0.borrow()), $state(&twin));
                        if ok && s1 != s2 {
                            v($name, "state-after-the-calls-differs-from-std", jobj! {"volatile" => J::dbg(&s1), "std" => J::dbg(&s2), "script" => si});
                        }
                        out::key(&format!("optional-source|{}|provided|script{}", $name, si), true);
                    }
                }
            }
        };
    }
    let src: Vec<u8> = data_of(100, 77);
    source!("Cursor<Vec<u8>>", { let mut c = Cursor::new(src.clone()); c.set_position(2); c }, |c: &Cursor<Vec<u8>>| c.position());
    source!("Cursor<Box<[u8]>>", Cursor::new(src.clone().into_boxed_slice()), |c: &Cursor<Box<[u8]>>| c.position());
    source!("Cursor<[u8;24]>", { let mut c = Cursor::new([5u8; 24]); c.set_position(21); c }, |c: &Cursor<[u8; 24]>| c.position());
    source!("VecDeque<u8>", std::collections::VecDeque::<u8>::from(src.clone()), |d: &std::collections::VecDeque<u8>| d.len());
    source!("io::Empty", std::io::empty(), |_s: &std::io::Empty| 0u8);
    source!("io::Repeat", std::io::repeat(0x5a), |_s: &std::io::Repeat| 0u8);
    source!("Take<&[u8]>", Read::take(&src[..], 13), |t: &std::io::Take<&[u8]>| t.limit());
    source!("Chain<&[u8],&[u8]>", Read::chain(&src[..5], &src[50..57]), |_c: &std::io::Chain<&[u8], &[u8]>| 0u8);
    source!("BufReader<&[u8]>", std::io::BufReader::with_capacity(8, &src[..30]), |b: &std::io::BufReader<&[u8]>| b.buffer().len());
    source!("Box<&[u8]>", Box::new(&src[..30]), |b: &Box<&[u8]>| b.len());
    out::count("optional_adapters_provided_and_driven", provided as i128);
    out::count("optional_adapters_not_provided", absent as i128);
}

// -------------------------------------------------------------------------------------------
// complete grids for the in-memory adapters

fn grid_slice_reader(max: usize) {
    for slen in 0..=max {
        for blen in 0..=max {
            for exact in [false, true] {
                for second in [None, Some(3usize), Some(9)] {
                    let src = data_of(slen, 3);
                    let mut s1: &[u8] = &src;
                    let mut s2: &[u8] = &src;
                    let ctx = jobj! {"stream_len" => slen};
                    let cont = read_step("&[u8]", &mut s1, &mut s2, blen, exact, 0, slen, &ctx);
                    if cont && s1 != s2 {
                        v("&[u8]", "read/remaining-slice-differs", jobj! {"volatile_left" => s1.len(), "std_left" => s2.len(), "stream_len" => slen, "buf_len" => blen, "exact" => exact});
                    }
                    if let (true, Some(b2)) = (cont, second) {
                        let avail = s2.len();
                        let c2 = read_step("&[u8]", &mut s1, &mut s2, b2, !exact, 1, avail, &ctx);
                        if c2 && s1 != s2 {
                            v("&[u8]", "read/remaining-slice-differs-2nd", jobj! {"stream_len" => slen, "buf_len" => blen});
                        }
                    }
                }
            }
        }
    }
}

fn positions(len: usize) -> Vec<u64> {
    let mut p = vec![0u64, (len / 2) as u64, len.saturating_sub(1) as u64, len as u64, len as u64 + 1, u64::MAX, u64::MAX - 3];
    p.sort();
    p.dedup();
    p
}

fn grid_cursor_reader(max: usize) {
    for slen in 0..=max {
        for pos in positions(slen) {
            for blen in 0..=max {
                for exact in [false, true] {
                    let src = data_of(slen, 5);
                    let ctx = jobj! {"stream_len" => slen, "pos" => pos};
                    let avail = slen.saturating_sub(pos.min(slen as u64) as usize);
                    // Cursor<&[u8]>
                    let mut c1 = Cursor::new(&src[..]);
                    let mut c2 = Cursor::new(&src[..]);
                    c1.set_position(pos);
                    c2.set_position(pos);
                    let cont = read_step("Cursor<&[u8]>", &mut c1, &mut c2, blen, exact, 0, avail, &ctx);
                    if cont && c1.position() != c2.position() {
                        v("Cursor<&[u8]>", "read/position-differs", jobj! {"volatile" => c1.position(), "std" => c2.position(), "stream_len" => slen, "pos" => pos, "buf_len" => blen, "exact" => exact});
                    }
                    if cont {
                        let a2 = slen.saturating_sub(c2.position().min(slen as u64) as usize);
                        let c = read_step("Cursor<&[u8]>", &mut c1, &mut c2, 5, false, 1, a2, &ctx);
                        if c && c1.position() != c2.position() {
                            v("Cursor<&[u8]>", "read/position-differs-2nd", jobj! {"volatile" => c1.position(), "std" => c2.position()});
                        }
                    }
                    // Cursor<Vec<u8>>
                    let mut d1 = Cursor::new(src.clone());
                    let mut d2 = Cursor::new(src.clone());
                    d1.set_position(pos);
                    d2.set_position(pos);
                    let cont = read_step("Cursor<Vec<u8>>", &mut d1, &mut d2, blen, exact, 0, avail, &ctx);
                    if cont && d1.position() != d2.position() {
                        v("Cursor<Vec<u8>>", "read/position-differs", jobj! {"volatile" => d1.position(), "std" => d2.position(), "stream_len" => slen, "pos" => pos, "buf_len" => blen});
                    }
                }
            }
        }
    }
}

fn grid_slice_writer(max: usize) {
    for room in 0..=max {
        for blen in 0..=max {
            for all in [false, true] {
                let data = data_of(blen, 7);
                let mut a1 = vec![0xAAu8; room];
                let mut a2 = vec![0xAAu8; room];
                let ctx = jobj! {"sink_len" => room};
                let (l1, l2, cont);
                {
                    let mut s1: &mut [u8] = &mut a1[..];
                    let mut s2: &mut [u8] = &mut a2[..];
                    let c = write_step("&mut [u8]", &mut s1, &mut s2, &data, all, 0, room, &ctx);
                    let mut c2 = c;
                    if c {
                        let r2 = s2.len();
                        c2 = write_step("&mut [u8]", &mut s1, &mut s2, &data_of(4, 9), !all, 1, r2, &ctx);
                    }
                    l1 = s1.len();
                    l2 = s2.len();
                    cont = c && c2;
                }
                if cont && (l1 != l2 || a1 != a2) {
                    v("&mut [u8]", "write/sink-differs", jobj! {"volatile_left" => l1, "std_left" => l2, "sink_len" => room, "buf_len" => blen, "all" => all, "content_equal" => a1 == a2});
                }
            }
        }
    }
}

fn grid_vec_writer(max: usize) {
    for pre in [0usize, 1, 7, 8, 9, 30] {
        for blen in 0..=max {
            for all in [false, true] {
                let data = data_of(blen, 11);
                let mut v1: Vec<u8> = data_of(pre, 1);
                let mut v2 = v1.clone();
                if pre % 2 == 1 {
                    v1.shrink_to_fit();
                }
                let ctx = jobj! {"vec_len" => pre};
                let c = write_step("Vec<u8>", &mut v1, &mut v2, &data, all, 0, usize::MAX, &ctx);
                let c2 = c && write_step("Vec<u8>", &mut v1, &mut v2, &data_of(13, 2), !all, 1, usize::MAX, &ctx);
                if c2 && v1 != v2 {
                    v("Vec<u8>", "write/vec-differs", jobj! {"volatile_len" => v1.len(), "std_len" => v2.len(), "vec_len" => pre, "buf_len" => blen});
                }
            }
        }
    }
}

/// Vec sinks in particular capacity states (capacity thresholds of 4 KiB, 64 KiB, 1 MiB, 2 MiB +-;
/// spare capacity 0, 1..n-1, exactly n, more): the result and the Vec are those of std's Vec::write.
fn vec_capacity_states() {
    for cap in [16usize, 4096, 65536, (1 << 20) - 1, 1 << 20, (1 << 20) + 5, 2 << 20] {
        for spare in [0usize, 1, 3, 8, 9, 100] {
            if spare > cap {
                continue;
            }
            for blen in [1usize, 8, 9, 64] {
                for all in [false, true] {
                    let mut v1: Vec<u8> = Vec::with_capacity(cap);
                    v1.resize(v1.capacity() - spare, 0x33);
                    let mut v2 = v1.clone();
                    let data = data_of(blen, 29);
                    let ctx = jobj! {"capacity" => cap, "spare" => spare};
                    let c = write_step("Vec<u8>(capacity-state)", &mut v1, &mut v2, &data, all, 0, usize::MAX, &ctx);
                    if c && v1 != v2 {
                        v("Vec<u8>(capacity-state)", "write/vec-differs", jobj! {"volatile_len" => v1.len(), "std_len" => v2.len(), "capacity" => cap, "spare" => spare, "buf_len" => blen});
                    }
                    out::key(&format!("Vec|capacity{}|spare{}|buf{}|{}", cap, if spare == 0 { "0" } else if spare < blen { "<buf" } else if spare == blen { "=buf" } else { ">buf" }, blen.min(9), all), true);
                }
            }
        }
    }
}

fn grid_cursor_writer(max: usize) {
    for room in 0..=max {
        for pos in positions(room) {
            for blen in 0..=max {
                for all in [false, true] {
                    let data = data_of(blen, 13);
                    let mut a1 = vec![0x55u8; room];
                    let mut a2 = vec![0x55u8; room];
                    let ctx = jobj! {"sink_len" => room, "pos" => pos};
                    let (p1, p2, cont);
                    {
                        let mut c1 = Cursor::new(&mut a1[..]);
                        let mut c2 = Cursor::new(&mut a2[..]);
                        c1.set_position(pos);
                        c2.set_position(pos);
                        let left = room.saturating_sub(pos.min(room as u64) as usize);
                        let c = write_step("Cursor<&mut [u8]>", &mut c1, &mut c2, &data, all, 0, left, &ctx);
                        let mut cc = c;
                        if c {
                            let l2 = room.saturating_sub(c2.position().min(room as u64) as usize);
                            cc = write_step("Cursor<&mut [u8]>", &mut c1, &mut c2, &data_of(3, 4), false, 1, l2, &ctx);
                        }
                        p1 = c1.position();
                        p2 = c2.position();
                        cont = c && cc;
                    }
                    if cont && (p1 != p2 || a1 != a2) {
                        v("Cursor<&mut [u8]>", "write/sink-differs", jobj! {"volatile_pos" => p1, "std_pos" => p2, "sink_len" => room, "pos" => pos, "buf_len" => blen, "all" => all, "content_equal" => a1 == a2});
                    }
                }
            }
        }
    }
}

// -------------------------------------------------------------------------------------------
// descriptor-backed adapters (native only)

fn file_state(f: &mut std::fs::File) -> (u64, Vec<u8>) {
    let pos = f.stream_position().unwrap_or(u64::MAX);
    let len = f.metadata().map(|m| m.len()).unwrap_or(0) as usize;
    let mut b = vec![0u8; len];
    let _ = f.read_exact_at(&mut b, 0);
    (pos, b)
}

fn pipe_pair() -> (OwnedFd, OwnedFd) {
    let mut fds = [0i32; 2];
    // SAFETY: plain pipe(2).
    assert_eq!(unsafe { libc::pipe(fds.as_mut_ptr()) }, 0);
    // SAFETY: fresh descriptors owned by us.
    unsafe { (OwnedFd::from_raw_fd(fds[0]), OwnedFd::from_raw_fd(fds[1])) }
}

fn fd_sequences(case: u64, r: &mut Rng) {
    let flen = *r.pick(&[0usize, 1, 7, 8, 9, 20, 100, 5000]);
    let content = r.bytes(flen);
    let ncalls = 1 + r.usize_below(12);
    let kind = r.below(10);
    let ctx = jobj! {"case" => case, "len" => flen, "kind" => kind};
    if kind >= 8 {
        // TcpStream over loopback (if the sandbox allows it; otherwise recorded and skipped)
        let pair = || -> std::io::Result<(std::net::TcpStream, std::net::TcpStream)> {
            let l = std::net::TcpListener::bind("127.0.0.1:0")?;
            let c = std::net::TcpStream::connect(l.local_addr()?)?;
            let (a, _) = l.accept()?;
            Ok((a, c))
        };
        let (p1, p2) = match (pair(), pair()) {
            (Ok(a), Ok(b)) => (a, b),
            _ => {
                out::note("C13/tcp-loopback-unavailable", J::Null);
                return;
            }
        };
        let (mut a1, mut b1) = p1;
        let (mut a2, mut b2) = p2;
        if kind == 8 {
            let n = flen.min(4000);
            b1.write_all(&content[..n]).unwrap();
            b2.write_all(&content[..n]).unwrap();
            drop(b1);
            drop(b2);
            // let the kernel deliver everything before reading (loopback is immediate, but be safe)
            std::thread::sleep(std::time::Duration::from_millis(2));
            let mut left = n;
            for i in 0..ncalls {
                let blen = *r.pick(&[0usize, 1, 3, 8, 9, 16, 24, 300]);
                let exact = r.chance(1, 3);
                // a short read is legal for a socket: only compare when both sides can deliver in full
                if !read_step("TcpStream", &mut a1, &mut a2, blen.min(left.max(1)), exact && blen <= left, i, left, &ctx) {
                    break;
                }
                left = left.saturating_sub(blen.min(left.max(1)));
            }
        } else {
            let mut total = 0usize;
            for i in 0..ncalls {
                let blen = *r.pick(&[0usize, 1, 3, 8, 9, 16, 24, 300]);
                let data = r.bytes(blen);
                if !write_step("TcpStream", &mut a1, &mut a2, &data, r.chance(1, 2), i, usize::MAX, &ctx) {
                    break;
                }
                total += blen;
            }
            drop(a1);
            drop(a2);
            let (mut g1, mut g2) = (vec![], vec![]);
            let _ = b1.read_to_end(&mut g1);
            let _ = b2.read_to_end(&mut g2);
            if g1 != g2 || g1.len() != total {
                v("TcpStream", "write/peer-received-differs", jobj! {"volatile_len" => g1.len(), "std_len" => g2.len(), "sent" => total});
            }
        }
        return;
    }
    match kind {
        0 | 1 => {
            // File reader (kind 1: through BorrowedFd)
            let mut f1 = temp_file(0);
            let mut f2 = temp_file(0);
            f1.write_all(&content).unwrap();
            f2.write_all(&content).unwrap();
            let start = r.below(flen as u64 + 3);
            f1.seek(SeekFrom::Start(start)).unwrap();
            f2.seek(SeekFrom::Start(start)).unwrap();
            for i in 0..ncalls {
                let blen = *r.pick(&[0usize, 1, 3, 8, 9, 16, 24, 300]);
                let exact = r.chance(1, 3);
                let avail = flen.saturating_sub(f2.stream_position().unwrap() as usize);
                let cont = if kind == 0 {
                    read_step("File", &mut f1, &mut f2, blen, exact, i, avail, &ctx)
                } else {
                    let mut b = f1.as_fd();
                    read_step("BorrowedFd", &mut b, &mut f2, blen, exact, i, avail, &ctx)
                };
                if !cont {
                    break;
                }
                if file_state(&mut f1) != file_state(&mut f2) {
                    v(if kind == 0 { "File" } else { "BorrowedFd" }, "read/file-state-differs", jobj! {"call" => i, "ctx" => ctx.clone()});
                    break;
                }
            }
        }
        2 | 3 => {
            // File writer
            let mut f1 = temp_file(0);
            let mut f2 = temp_file(0);
            f1.write_all(&content).unwrap();
            f2.write_all(&content).unwrap();
            let start = r.below(flen as u64 + 3);
            f1.seek(SeekFrom::Start(start)).unwrap();
            f2.seek(SeekFrom::Start(start)).unwrap();
            for i in 0..ncalls {
                let blen = *r.pick(&[0usize, 1, 3, 8, 9, 16, 24, 300]);
                let data = r.bytes(blen);
                let all = r.chance(1, 2);
                let cont = if kind == 2 {
                    write_step("File", &mut f1, &mut f2, &data, all, i, usize::MAX, &ctx)
                } else {
                    let mut b = f1.as_fd();
                    write_step("BorrowedFd", &mut b, &mut f2, &data, all, i, usize::MAX, &ctx)
                };
                if !cont {
                    break;
                }
                if file_state(&mut f1) != file_state(&mut f2) {
                    v(if kind == 2 { "File" } else { "BorrowedFd" }, "write/file-state-differs", jobj! {"call" => i, "ctx" => ctx.clone()});
                    break;
                }
            }
        }
        4 | 5 => {
            // UnixStream: data is queued, then (optionally) the writer is closed
            let (mut a1, mut b1) = UnixStream::pair().unwrap();
            let (mut a2, mut b2) = UnixStream::pair().unwrap();
            if kind == 4 {
                b1.write_all(&content[..flen.min(4000)]).unwrap();
                b2.write_all(&content[..flen.min(4000)]).unwrap();
                drop(b1);
                drop(b2);
                let mut left = flen.min(4000);
                for i in 0..ncalls {
                    let blen = *r.pick(&[0usize, 1, 3, 8, 9, 16, 24, 300]);
                    let exact = r.chance(1, 3);
                    if !read_step("UnixStream", &mut a1, &mut a2, blen, exact, i, left, &ctx) {
                        break;
                    }
                    left = left.saturating_sub(blen);
                }
            } else {
                let mut total = 0usize;
                for i in 0..ncalls {
                    let blen = *r.pick(&[0usize, 1, 3, 8, 9, 16, 24, 300]);
                    let data = r.bytes(blen);
                    if !write_step("UnixStream", &mut a1, &mut a2, &data, r.chance(1, 2), i, usize::MAX, &ctx) {
                        break;
                    }
                    total += blen;
                }
                drop(a1);
                drop(a2);
                let (mut g1, mut g2) = (vec![], vec![]);
                let _ = b1.read_to_end(&mut g1);
                let _ = b2.read_to_end(&mut g2);
                if g1 != g2 || g1.len() != total {
                    v("UnixStream", "write/peer-received-differs", jobj! {"volatile_len" => g1.len(), "std_len" => g2.len(), "sent" => total});
                }
            }
        }
        _ => {
            // OwnedFd over a pipe (reader and writer); twin uses File over another pipe
            let (mut r1, mut w1) = pipe_pair();
            let (r2, w2) = pipe_pair();
            let mut r2 = std::fs::File::from(r2);
            let mut w2 = std::fs::File::from(w2);
            if kind == 6 {
                let n = flen.min(4000);
                let mut w1f = std::fs::File::from(w1);
                w1f.write_all(&content[..n]).unwrap();
                w2.write_all(&content[..n]).unwrap();
                drop(w1f);
                drop(w2);
                let mut left = n;
                for i in 0..ncalls {
                    let blen = *r.pick(&[0usize, 1, 3, 8, 9, 16, 24, 300]);
                    let exact = r.chance(1, 3);
                    if !read_step("OwnedFd", &mut r1, &mut r2, blen, exact, i, left, &ctx) {
                        break;
                    }
                    left = left.saturating_sub(blen);
                }
            } else {
                let mut total = 0;
                for i in 0..ncalls {
                    let blen = *r.pick(&[0usize, 1, 3, 8, 9, 16, 24, 300]);
                    let data = r.bytes(blen);
                    if !write_step("OwnedFd", &mut w1, &mut w2, &data, r.chance(1, 2), i, usize::MAX, &ctx) {
                        break;
                    }
                    total += blen;
                }
                drop(w1);
                drop(w2);
                let (mut g1, mut g2) = (vec![], vec![]);
                let _ = std::fs::File::from(r1).read_to_end(&mut g1);
                let _ = r2.read_to_end(&mut g2);
                if g1 != g2 || g1.len() != total {
                    v("OwnedFd", "write/peer-received-differs", jobj! {"volatile_len" => g1.len(), "std_len" => g2.len(), "sent" => total});
                }
            }
        }
    }
}

/// Descriptors on which even an EMPTY transfer has an effect or fails: datagram sockets (an empty
/// write is an empty message), descriptors opened for the other direction (EBADF), a stream socket
/// whose write side was shut down (EPIPE), a pipe without reader. The twin performs the same calls
/// through std on an identical descriptor; results and what the peer receives must agree.
fn special_descriptors(case: u64, r: &mut Rng) {
    use std::os::unix::net::UnixDatagram;
    let kind = case % 5;
    let ctx = jobj! {"case" => case, "special_kind" => kind};
    let lens = |r: &mut Rng| -> usize { *r.pick(&[0usize, 0, 1, 2, 7, 8, 9, 64]) };
    match kind {
        0 => {
            // datagram pair: writer side through OwnedFd (volatile) / File (std)
            let (a1, b1) = UnixDatagram::pair().unwrap();
            let (a2, b2) = UnixDatagram::pair().unwrap();
            let mut w1: OwnedFd = a1.into();
            let mut w2 = std::fs::File::from(OwnedFd::from(a2));
            let n = 1 + r.usize_below(6);
            for i in 0..n {
                let data = { let n = lens(r); r.bytes(n) };
                if !write_step("OwnedFd(datagram)", &mut w1, &mut w2, &data, r.chance(1, 3), i, usize::MAX, &ctx) {
                    break;
                }
            }
            b1.set_nonblocking(true).unwrap();
            b2.set_nonblocking(true).unwrap();
            let drain = |s: &UnixDatagram| -> Vec<Vec<u8>> {
                let mut out = vec![];
                let mut buf = [0u8; 256];
                while let Ok(k) = s.recv(&mut buf) {
                    out.push(buf[..k].to_vec());
                    if out.len() > 64 {
                        break;
                    }
                }
                out
            };
            let (g1, g2) = (drain(&b1), drain(&b2));
            if g1 != g2 {
                v("OwnedFd(datagram)", "write/peer-received-differs", jobj! {"volatile_datagrams" => J::dbg(&g1.iter().map(|d| d.len()).collect::<Vec<_>>()), "std_datagrams" => J::dbg(&g2.iter().map(|d| d.len()).collect::<Vec<_>>())});
            }
            out::key(&format!("special|datagram-writer|{}msgs", g2.len().min(4)), true);
        }
        1 => {
            // datagram reader: messages of several lengths (also empty ones) are queued first
            let (a1, b1) = UnixDatagram::pair().unwrap();
            let (a2, b2) = UnixDatagram::pair().unwrap();
            let n = 1 + r.usize_below(5);
            for _ in 0..n {
                let d = { let n = lens(r); r.bytes(n) };
                a1.send(&d).unwrap();
                a2.send(&d).unwrap();
            }
            b1.set_nonblocking(true).unwrap();
            b2.set_nonblocking(true).unwrap();
            let mut r1: OwnedFd = b1.into();
            let mut r2 = std::fs::File::from(OwnedFd::from(b2));
            for i in 0..n + 1 {
                let blen = lens(r);
                if !read_step("OwnedFd(datagram)", &mut r1, &mut r2, blen, false, i, 64, &ctx) {
                    break;
                }
            }
            out::key("special|datagram-reader", true);
        }
        2 => {
            // descriptors opened for the other direction
            let f = crate::models::world::named_temp_file("c13ro", 64);
            let mut ro1 = std::fs::File::open(&f.1).unwrap();
            let mut ro2 = std::fs::File::open(&f.1).unwrap();
            for i in 0..4 {
                let data = { let n = lens(r); r.bytes(n) };
                write_step("File(read-only)", &mut ro1, &mut ro2, &data, i % 2 == 1, i, usize::MAX, &ctx);
            }
            let mut wo1 = std::fs::OpenOptions::new().write(true).open(&f.1).unwrap();
            let mut wo2 = std::fs::OpenOptions::new().write(true).open(&f.1).unwrap();
            for i in 0..4 {
                read_step("File(write-only)", &mut wo1, &mut wo2, lens(r), false, i, 64, &ctx);
            }
            let _ = std::fs::remove_file(&f.1);
            out::key("special|wrong-direction", true);
        }
        3 => {
            // stream socket whose write side was shut down
            let (mut a1, _b1) = UnixStream::pair().unwrap();
            let (mut a2, _b2) = UnixStream::pair().unwrap();
            a1.shutdown(std::net::Shutdown::Write).unwrap();
            a2.shutdown(std::net::Shutdown::Write).unwrap();
            for i in 0..4 {
                let data = { let n = lens(r); r.bytes(n) };
                write_step("UnixStream(shut-down)", &mut a1, &mut a2, &data, i % 2 == 1, i, usize::MAX, &ctx);
            }
            out::key("special|shutdown-writer", true);
        }
        _ => {
            // pipe whose read end is gone (EPIPE) / whose write end is gone (EOF)
            let (r1, mut w1) = pipe_pair();
            let (r2, w2) = pipe_pair();
            let mut w2 = std::fs::File::from(w2);
            drop(r1);
            drop(r2);
            for i in 0..4 {
                let data = { let n = lens(r); r.bytes(n) };
                write_step("OwnedFd(pipe-without-reader)", &mut w1, &mut w2, &data, i % 2 == 1, i, usize::MAX, &ctx);
            }
            let (mut r1, w1) = pipe_pair();
            let (r2, w2) = pipe_pair();
            let mut r2 = std::fs::File::from(r2);
            drop(w1);
            drop(w2);
            for i in 0..3 {
                read_step("OwnedFd(pipe-without-writer)", &mut r1, &mut r2, lens(r), i == 2, i, 0, &ctx);
            }
            out::key("special|broken-pipe", true);
        }
    }
    out::count("special_descriptor_sequences", 1);
    if case % 5 == 1 {
        // data-dependent paths: page-sized buffers that are all zero (or all one byte) written over
        // existing non-zero file contents, at aligned and unaligned file positions; result, file
        // position and file CONTENTS must equal std's
        let existing = r.random_bytes(3 * 4096 + 100).into_iter().map(|b| b | 1).collect::<Vec<u8>>();
        let mk = |name: &str| -> std::fs::File {
            let (mut f, path) = crate::models::world::named_temp_file(name, 0);
            let _ = std::fs::remove_file(&path);
            f.write_all(&existing).unwrap();
            f
        };
        let mut f1 = mk("c13z1");
        let mut f2 = mk("c13z2");
        for i in 0..4 {
            let pos = *r.pick(&[0u64, 4096, 100, 8192, existing.len() as u64, existing.len() as u64 + 4096]);
            f1.seek(SeekFrom::Start(pos)).unwrap();
            f2.seek(SeekFrom::Start(pos)).unwrap();
            let len = *r.pick(&[4096usize, 8192, 4095, 4097, 512]);
            let fill = *r.pick(&[0u8, 0, 0xff, 0x41]);
            let data = vec![fill; len];
            if !write_step("File(zero-pages)", &mut f1, &mut f2, &data, i % 2 == 1, i, usize::MAX, &ctx) {
                break;
            }
            if file_state(&mut f1) != file_state(&mut f2) {
                v("File(zero-pages)", "write/file-state-differs", jobj! {"pos" => pos, "len" => len, "fill" => fill, "ctx" => ctx.clone()});
                break;
            }
        }
        out::key("special|zero-pages-to-file", true);
    }
    if case % 5 == 3 {
        nonblocking_exact(case, r);
    }
}

/// Non-blocking stream sockets: an exact-form transfer that cannot complete ends with WouldBlock
/// after the partial transfer, exactly as std's read_exact / write_all do. The library call runs
/// on its own thread under a generous watchdog: if it has not returned after 20 s while std
/// returned at once, the socket is fed / drained so that the thread can finish, and the hang is
/// reported.
fn nonblocking_exact(case: u64, r: &mut Rng) {
    use std::sync::mpsc;
    use std::time::Duration;
    // one hang is a witness; do not wait out the watchdog again and again
    static HUNG: std::sync::atomic::AtomicBool = std::sync::atomic::AtomicBool::new(false);
    if HUNG.load(std::sync::atomic::Ordering::Relaxed) {
        return;
    }
    let have = 1 + r.usize_below(6);
    let want = have + 1 + r.usize_below(12);
    let data = r.bytes(have);
    // reader side
    let (mut a1, mut b1) = UnixStream::pair().unwrap();
    let (mut a2, mut b2) = UnixStream::pair().unwrap();
    b1.write_all(&data).unwrap();
    b2.write_all(&data).unwrap();
    a1.set_nonblocking(true).unwrap();
    a2.set_nonblocking(true).unwrap();
    let mut ob = vec![0u8; want];
    let std_res = rs(a2.read_exact(&mut ob).map(|()| want));
    let (tx, rx) = mpsc::channel();
    let h = std::thread::spawn(move || {
        let vb = VBuf::new(want, 1, 0xEE);
        let mut vs = vb.vs();
        let res = rv(a1.read_exact_volatile(&mut vs).map(|()| want));
        let _ = tx.send(res);
    });
    match rx.recv_timeout(Duration::from_secs(20)) {
        Ok(res) => {
            if res != std_res {
                v("UnixStream(non-blocking)", "read_exact/result-differs", jobj! {"volatile" => J::dbg(&res), "std" => J::dbg(&std_res), "available" => have, "wanted" => want, "case" => case});
            }
        }
        Err(_) => {
            HUNG.store(true, std::sync::atomic::Ordering::Relaxed);
            v("UnixStream(non-blocking)", "read_exact/did-not-return", jobj! {"std" => J::dbg(&std_res), "available" => have, "wanted" => want, "case" => case});
            let _ = b1.write_all(&vec![0u8; want]);
        }
    }
    let _ = h.join();
    out::key("special|non-blocking|read_exact", true);
    out::eval(1);
    // writer side: more than the socket buffer takes
    let big = vec![0x5au8; 4 << 20];
    let (mut w1, r1) = UnixStream::pair().unwrap();
    let (mut w2, _r2) = UnixStream::pair().unwrap();
    w1.set_nonblocking(true).unwrap();
    w2.set_nonblocking(true).unwrap();
    let std_res = rs(w2.write_all(&big).map(|()| big.len()));
    let (tx, rx) = mpsc::channel();
    let big2 = big.clone();
    let h = std::thread::spawn(move || {
        let vb = VBuf::new(big2.len(), 1, 0);
        vb.a.write_at(0, &big2);
        let res = rv(w1.write_all_volatile(&vb.vs()).map(|()| big2.len()));
        let _ = tx.send(res);
    });
    match rx.recv_timeout(Duration::from_secs(20)) {
        Ok(res) => {
            if res != std_res {
                v("UnixStream(non-blocking)", "write_all/result-differs", jobj! {"volatile" => J::dbg(&res), "std" => J::dbg(&std_res), "case" => case});
            }
        }
        Err(_) => {
            HUNG.store(true, std::sync::atomic::Ordering::Relaxed);
            v("UnixStream(non-blocking)", "write_all/did-not-return", jobj! {"std" => J::dbg(&std_res), "case" => case});
            // drain so that the writer can finish
            let mut sink = vec![0u8; 1 << 16];
            let mut rr = r1.try_clone().unwrap();
            let mut total = 0;
            while total < big.len() {
                match rr.read(&mut sink) {
                    Ok(0) | Err(_) => break,
                    Ok(k) => total += k,
                }
            }
        }
    }
    let _ = h.join();
    drop(r1);
    out::key("special|non-blocking|write_all", true);
    out::eval(1);
    out::count("nonblocking_exact_cases", 1);
}

/// `WriteVolatile for Stdout`: exercised in a forked child whose descriptor 1 is a pipe (the
/// parent's stdout carries the result protocol). The bytes that arrive in the pipe and the counts
/// reported must be what `std::io::Write for Stdout` (followed by a flush) delivers for the same calls.
fn stdout_adapter(seed: u64) {
    use crate::common::fork::{self, Exit};
    for case in 0..6u64 {
        let mut r = Rng::new(seed, "c13-stdout", case);
        let lens: Vec<usize> = (0..1 + r.usize_below(5)).map(|_| *r.pick(&[0usize, 1, 7, 8, 9, 64, 300])).collect();
        let datas: Vec<Vec<u8>> = lens.iter().map(|n| r.bytes(*n)).collect();
        let mut outs: Vec<Vec<u8>> = vec![];
        for volatile in [true, false] {
            let datas = datas.clone();
            let all = case % 2 == 0;
            let ex = fork::run(20, move || {
                let (rd, wr) = pipe_pair();
                use std::os::fd::AsRawFd;
                // SAFETY: plain dup2 in the forked child.
                unsafe { libc::dup2(wr.as_raw_fd(), 1) };
                drop(wr);
                let mut report: Vec<u8> = vec![];
                let mut so = std::io::stdout();
                for d in &datas {
                    let res = if volatile {
                        let vb = VBuf::new(d.len(), 3, 0);
                        vb.a.write_at(0, d);
                        if all { rv(so.write_all_volatile(&vb.vs()).map(|()| d.len())) } else { rv(so.write_volatile(&vb.vs())) }
                    } else if all {
                        rs(so.write_all(d).map(|()| d.len()))
                    } else {
                        rs(so.write(d))
                    };
                    report.extend_from_slice(format!("{:?};", res).as_bytes());
                }
                let _ = so.flush();
                // SAFETY: closing our copy of the write end so that the read below terminates.
                unsafe { libc::close(1) };
                let mut got = vec![];
                let _ = std::fs::File::from(rd).read_to_end(&mut got);
                report.push(b'|');
                report.extend_from_slice(&got);
                report
            });
            match ex {
                Exit::Ok(b) => outs.push(b),
                other => {
                    v("Stdout", "child-did-not-finish", jobj! {"exit" => J::dbg(&other), "volatile" => volatile});
                    return;
                }
            }
        }
        if outs[0] != outs[1] {
            let cut = |b: &Vec<u8>| String::from_utf8_lossy(&b[..b.iter().position(|c| *c == b'|').unwrap_or(0)]).to_string();
            v("Stdout", "write/results-or-bytes-differ", jobj! {"lens" => J::dbg(&lens), "volatile_results" => cut(&outs[0]), "std_results" => cut(&outs[1]), "volatile_total" => outs[0].len(), "std_total" => outs[1].len()});
        }
        out::key(&format!("Stdout|{}|calls{}", if case % 2 == 0 { "write_all" } else { "write" }, lens.len()), true);
        out::eval(lens.len() as u64);
        out::count("stdout_adapter_sequences", 1);
    }
}

/// Random longer sequences on the in-memory adapters.
fn mem_sequences(case: u64, r: &mut Rng) {
    let slen = *r.pick(&[0usize, 1, 7, 8, 9, 16, 17, 40, 200, 5000]);
    let src = r.bytes(slen);
    let ncalls = 1 + r.usize_below(12);
    let ctx = jobj! {"case" => case, "stream_len" => slen};
    let lens = [0usize, 1, 2, 7, 8, 9, 15, 16, 17, 24, 100, 4096];
    match r.below(5) {
        0 => {
            let mut s1: &[u8] = &src;
            let mut s2: &[u8] = &src;
            for i in 0..ncalls {
                let avail = s2.len();
                if !read_step("&[u8]", &mut s1, &mut s2, *r.pick(&lens), r.chance(1, 3), i, avail, &ctx) {
                    break;
                }
                if s1 != s2 {
                    v("&[u8]", "read/remaining-slice-differs", jobj! {"call" => i, "ctx" => ctx.clone()});
                    break;
                }
            }
        }
        1 => {
            let mut c1 = Cursor::new(&src[..]);
            let mut c2 = Cursor::new(&src[..]);
            let p = *r.pick(&positions(slen));
            c1.set_position(p);
            c2.set_position(p);
            for i in 0..ncalls {
                let avail = slen.saturating_sub(c2.position().min(slen as u64) as usize);
                if !read_step("Cursor<&[u8]>", &mut c1, &mut c2, *r.pick(&lens), r.chance(1, 3), i, avail, &ctx) {
                    break;
                }
                if c1.position() != c2.position() {
                    v("Cursor<&[u8]>", "read/position-differs", jobj! {"call" => i, "volatile" => c1.position(), "std" => c2.position(), "ctx" => ctx.clone()});
                    break;
                }
            }
        }
        2 => {
            let mut v1: Vec<u8> = src.clone();
            let mut v2: Vec<u8> = src.clone();
            for i in 0..ncalls {
                let dl = *r.pick(&lens);
                    let d = r.bytes(dl);
                if !write_step("Vec<u8>", &mut v1, &mut v2, &d, r.chance(1, 2), i, usize::MAX, &ctx) {
                    break;
                }
                if v1 != v2 {
                    v("Vec<u8>", "write/vec-differs", jobj! {"call" => i, "ctx" => ctx.clone()});
                    break;
                }
            }
        }
        3 => {
            let mut a1 = src.clone();
            let mut a2 = src.clone();
            let (l1, l2);
            {
                let mut s1: &mut [u8] = &mut a1[..];
                let mut s2: &mut [u8] = &mut a2[..];
                for i in 0..ncalls {
                    let dl = *r.pick(&lens);
                    let d = r.bytes(dl);
                    let room = s2.len();
                    if !write_step("&mut [u8]", &mut s1, &mut s2, &d, r.chance(1, 3), i, room, &ctx) {
                        break;
                    }
                }
                l1 = s1.len();
                l2 = s2.len();
            }
            // after a failed write_all std documents nothing; both sides stopped at the same call
            if l1 == l2 && a1 != a2 {
                v("&mut [u8]", "write/sink-content-differs", jobj! {"ctx" => ctx.clone()});
            }
        }
        _ => {
            let mut a1 = src.clone();
            let mut a2 = src.clone();
            let (p1, p2);
            {
                let mut c1 = Cursor::new(&mut a1[..]);
                let mut c2 = Cursor::new(&mut a2[..]);
                let p = *r.pick(&positions(slen));
                c1.set_position(p);
                c2.set_position(p);
                for i in 0..ncalls {
                    let dl = *r.pick(&lens);
                    let d = r.bytes(dl);
                    let room = slen.saturating_sub(c2.position().min(slen as u64) as usize);
                    if !write_step("Cursor<&mut [u8]>", &mut c1, &mut c2, &d, r.chance(1, 3), i, room, &ctx) {
                        break;
                    }
                }
                p1 = c1.position();
                p2 = c2.position();
            }
            if p1 == p2 && a1 != a2 {
                v("Cursor<&mut [u8]>", "write/sink-content-differs", jobj! {"ctx" => ctx.clone()});
            }
        }
    }
}

pub fn run(args: &Args) {
    out::set_quiet_cases(true);
    let (si, _) = args.shard();
    let max = args.u64("grid", if cfg!(miri) { 9 } else { 20 }) as usize;
    if si == 0 && !args.flag("nogrid") {
        for (name, f) in [("slice-reader", grid_slice_reader as fn(usize)), ("cursor-reader", grid_cursor_reader), ("slice-writer", grid_slice_writer), ("vec-writer", grid_vec_writer), ("cursor-writer", grid_cursor_writer)] {
            out::case(0, jobj! {"op" => name});
            if let Err(p) = guarded(|| f(max)) {
                out::viol(&format!("C13/panic/grid-{}/{}", name, panic_sig(&p)), J::s(p));
            }
        }
        if !cfg!(miri) {
            if let Err(p) = guarded(vec_capacity_states) {
                out::viol(&format!("C13/panic/vec-capacity-states/{}", panic_sig(&p)), J::s(p));
            }
        }
        if let Err(p) = guarded(optional_adapters) {
            out::viol(&format!("C13/panic/optional-adapters/{}", panic_sig(&p)), J::s(p));
        }
        out::count("grid_max_len", max as i128);
        out::sample(jobj! {"grid" => "stream length 0..max x position {0,mid,len-1,len,len+1,u64::MAX-3,u64::MAX} x buffer length 0..max x {up-to, exact} x second call", "adapters" => "&[u8], Cursor<&[u8]>, Cursor<Vec<u8>>, &mut [u8], Vec<u8>, Cursor<&mut [u8]>", "max" => max});
    }
    if si == 0 && !cfg!(miri) {
        stdout_adapter(args.seed());
    }
    #[cfg(all(feature = "xen", not(miri)))]
    if si == 0 && crate::common::interpose::available() {
        if let Err(p) = guarded(xen_ondemand_buffers) {
            out::viol(&format!("C13/panic/xen-ondemand-buffers/{}", panic_sig(&p)), J::s(p));
        }
    }
    for case in args.cases(500) {
        let mut r = Rng::new(args.seed(), "c13", case);
        out::case(case, jobj! {"op" => "sequence"});
        let res = guarded(|| {
            if !cfg!(miri) && case % 2 == 0 {
                fd_sequences(case, &mut r);
                out::count("fd_sequences", 1);
                if case % 4 == 0 {
                    special_descriptors(case / 4, &mut r);
                }
            } else {
                mem_sequences(case, &mut r);
                out::count("mem_sequences", 1);
            }
        });
        if let Err(p) = res {
            out::viol(&format!("C13/panic/{}", panic_sig(&p)), jobj! {"panic" => p, "case" => case});
        }
    }
}
